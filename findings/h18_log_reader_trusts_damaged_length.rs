// Plain public-API reproduction (no hooks, no harness) of defect H18:
// the header of a log fragment (length, type) is not covered by the fragment's checksum. When the
// checksum of a fragment failed, the log reader nevertheless used the fragment's length field to
// find the next fragment and resumed parsing right behind the bytes that length covers. With a
// damaged (shortened) length that is somewhere inside the fragment's own payload - and if the bytes
// there happen to be the image of a log record, that "record" is delivered. For the write-ahead log
// this means that a single damaged byte makes the database return a key-value pair that nobody ever
// wrote (here: a value that contains a copy of an old WAL record, as a backup, a replication stream
// or a file stored in the database may).
// Drop into /repo/tests/ and run `cargo test --test h18_log_reader_trusts_damaged_length`.
use std::io::{Read, Write};
use std::path::{Path, PathBuf};
use std::sync::Arc;

use raindb::fs::{FileSystem, InMemoryFileSystem};
use raindb::{DbOptions, ReadOptions, WriteOptions, DB};

fn options(fs: Arc<InMemoryFileSystem>, path: &str) -> DbOptions {
    let mut options = DbOptions::with_memory_env();
    options.filesystem_provider = fs;
    options.create_if_missing = true;
    options.db_path = path.to_string();
    options
}

fn read_file(fs: &InMemoryFileSystem, p: &Path) -> Vec<u8> {
    let mut f = fs.open_file(p).unwrap();
    let mut all = vec![];
    let mut buf = vec![0u8; 4096];
    loop {
        let n = f.read(&mut buf).unwrap();
        if n == 0 {
            break;
        }
        all.extend_from_slice(&buf[..n]);
    }
    all
}

fn wal_of(fs: &InMemoryFileSystem, db_path: &str) -> PathBuf {
    let mut logs: Vec<PathBuf> = fs
        .list_dir(&Path::new(db_path).join("wal"))
        .unwrap()
        .into_iter()
        .filter(|p| p.extension().map(|e| e == "log").unwrap_or(false))
        .collect();
    logs.sort();
    logs.pop().expect("a write-ahead log")
}

#[test]
fn a_damaged_length_byte_must_not_make_the_log_reader_deliver_payload_bytes_as_a_record() {
    let fs = Arc::new(InMemoryFileSystem::new());

    // 1. A scratch database whose WAL holds exactly one record: put ghost = GHOST. Its bytes are
    //    the image that will travel inside a value.
    {
        let db = DB::open(options(fs.clone(), "/scratch")).unwrap();
        db.put(WriteOptions::default(), b"ghost".to_vec(), b"GHOST".to_vec()).unwrap();
    }
    let image = read_file(&fs, &wal_of(&fs, "/scratch"));
    assert!(image.len() > 7 && image.len() < 64, "one small physical record: {} bytes", image.len());

    // 2. The real database: a 600-byte value with that image at offset 498. The WAL record of
    //    `put e = value` is 7 + 614 (0x0266) bytes: header, sequence number (8), count (1),
    //    operation (1), key length (1), key (1), value length (2), value. The image therefore
    //    starts 512 (0x0200) bytes into the record's payload.
    let mut value = vec![0x55u8; 600];
    for b in value[498..].iter_mut() {
        *b = 0;
    }
    value[498..498 + image.len()].copy_from_slice(&image);
    {
        let db = DB::open(options(fs.clone(), "/db")).unwrap();
        db.put(WriteOptions::default(), b"c".to_vec(), b"1".to_vec()).unwrap();
        db.put(WriteOptions::default(), b"e".to_vec(), value.clone()).unwrap();
        db.put(WriteOptions::default(), b"c".to_vec(), b"2".to_vec()).unwrap();
        assert!(db.get(ReadOptions::default(), b"ghost").is_err());
    }

    // 3. One damaged byte: the low byte of the length field of the second record (0x66 -> 0x00).
    let wal = wal_of(&fs, "/db");
    let mut bytes = read_file(&fs, &wal);
    let first_len = u16::from_le_bytes([bytes[4], bytes[5]]) as usize;
    let second = 7 + first_len;
    assert_eq!(u16::from_le_bytes([bytes[second + 4], bytes[second + 5]]), 0x0266, "layout of the second record");
    bytes[second + 4] = 0;
    fs.remove_file(&wal).unwrap();
    let mut f = fs.create_file(&wal, false).unwrap();
    f.write_all(&bytes).unwrap();
    drop(f);

    // 4. Whatever the recovery makes of the damaged log (skipping damaged records is allowed for
    //    the write-ahead log), it must not invent a write.
    match DB::open(options(fs.clone(), "/db")) {
        Err(_) => {}
        Ok(db) => {
            let ghost = db.get(ReadOptions::default(), b"ghost");
            assert!(ghost.is_err(), "get(ghost) returns {:?}: a key-value pair that was never written to this database", ghost.map(|v| String::from_utf8_lossy(&v).to_string()));
        }
    }
}
