// Plain public-API reproduction (no hooks, no harness) of defect H19:
// a write to the manifest that fails may have written part of its record (disk full, I/O error in
// the middle). RainDB recorded the error - and went on appending to the same manifest: the flush of
// an immutable memtable that runs inside a table compaction's merge loop is retried at the next
// entry although the sticky error is set, and the compaction that is in flight still installs its
// result. A record appended behind the partial one makes the manifest unreadable from there on, and
// manifest recovery (rightly) does not tolerate a damaged record: after one transient write failure
// the database can never be opened again - every acknowledged write is unreachable.
// The probe below was written by the round-12 seed agent for C08 against the unmodified tree
// (only this header was added). Drop into /repo/tests/ and run
// `cargo test --test h19_manifest_appended_after_failed_write`.
use std::io::{self, Read, Seek, SeekFrom, Write};
use std::path::{Path, PathBuf};
use std::sync::atomic::{AtomicBool, AtomicUsize, Ordering};
use std::sync::{Arc, Condvar, Mutex};
use std::thread;
use std::time::Duration;

use raindb::fs::{
    FileLock, FileSystem, InMemoryFileSystem, RandomAccessFile, ReadonlyRandomAccessFile,
};
use raindb::{DbOptions, ReadOptions, WriteOptions, DB};

const DB_PATH: &str = "/probe_db";

#[derive(Default)]
struct Control {
    /// Block the next creation of a table file until released.
    block_next_table_create: AtomicBool,
    blocked: Mutex<bool>,
    blocked_cv: Condvar,
    release: Mutex<bool>,
    release_cv: Condvar,
    /// Fail the next manifest write after writing half of it.
    tear_next_manifest_write: AtomicBool,
    torn_writes: AtomicUsize,
    manifest_writes_after_tear: AtomicUsize,
}

struct ProbeFs {
    inner: InMemoryFileSystem,
    control: Arc<Control>,
}

struct ManifestFile {
    inner: Box<dyn RandomAccessFile>,
    control: Arc<Control>,
}

impl Read for ManifestFile {
    fn read(&mut self, buf: &mut [u8]) -> io::Result<usize> {
        self.inner.read(buf)
    }
}
impl Seek for ManifestFile {
    fn seek(&mut self, pos: SeekFrom) -> io::Result<u64> {
        self.inner.seek(pos)
    }
}
impl Write for ManifestFile {
    fn write(&mut self, buf: &[u8]) -> io::Result<usize> {
        if self
            .control
            .tear_next_manifest_write
            .swap(false, Ordering::SeqCst)
        {
            self.inner.write_all(&buf[..buf.len() / 2])?;
            self.control.torn_writes.fetch_add(1, Ordering::SeqCst);
            return Err(io::Error::new(io::ErrorKind::Other, "injected torn write"));
        }
        if self.control.torn_writes.load(Ordering::SeqCst) > 0 {
            self.control
                .manifest_writes_after_tear
                .fetch_add(1, Ordering::SeqCst);
        }
        self.inner.write(buf)
    }
    fn flush(&mut self) -> io::Result<()> {
        self.inner.flush()
    }
}
impl ReadonlyRandomAccessFile for ManifestFile {
    fn read_from(&self, buf: &mut [u8], offset: usize) -> io::Result<usize> {
        self.inner.read_from(buf, offset)
    }
    fn len(&self) -> io::Result<u64> {
        self.inner.len()
    }
}
impl RandomAccessFile for ManifestFile {
    fn append(&mut self, buf: &[u8]) -> io::Result<usize> {
        self.inner.append(buf)
    }
}

impl FileSystem for ProbeFs {
    fn get_name(&self) -> String {
        "ProbeFs".to_string()
    }
    fn create_dir(&self, path: &Path) -> io::Result<()> {
        self.inner.create_dir(path)
    }
    fn create_dir_all(&self, path: &Path) -> io::Result<()> {
        self.inner.create_dir_all(path)
    }
    fn list_dir(&self, path: &Path) -> io::Result<Vec<PathBuf>> {
        self.inner.list_dir(path)
    }
    fn open_file(&self, path: &Path) -> io::Result<Box<dyn ReadonlyRandomAccessFile>> {
        self.inner.open_file(path)
    }
    fn rename(&self, from: &Path, to: &Path) -> io::Result<()> {
        self.inner.rename(from, to)
    }
    fn create_file(&self, path: &Path, append: bool) -> io::Result<Box<dyn RandomAccessFile>> {
        let name = path.file_name().unwrap().to_string_lossy().to_string();
        if name.ends_with(".rdb")
            && self
                .control
                .block_next_table_create
                .swap(false, Ordering::SeqCst)
        {
            *self.control.blocked.lock().unwrap() = true;
            self.control.blocked_cv.notify_all();
            let mut released = self.control.release.lock().unwrap();
            while !*released {
                released = self.control.release_cv.wait(released).unwrap();
            }
        }
        let file = self.inner.create_file(path, append)?;
        if name.starts_with("MANIFEST") {
            return Ok(Box::new(ManifestFile {
                inner: file,
                control: Arc::clone(&self.control),
            }));
        }
        Ok(file)
    }
    fn remove_file(&self, path: &Path) -> io::Result<()> {
        self.inner.remove_file(path)
    }
    fn remove_dir(&self, path: &Path) -> io::Result<()> {
        self.inner.remove_dir(path)
    }
    fn remove_dir_all(&self, path: &Path) -> io::Result<()> {
        self.inner.remove_dir_all(path)
    }
    fn get_file_size(&self, path: &Path) -> io::Result<u64> {
        self.inner.get_file_size(path)
    }
    fn is_dir(&self, path: &Path) -> io::Result<bool> {
        self.inner.is_dir(path)
    }
    fn lock_file(&self, path: &Path) -> io::Result<FileLock> {
        self.inner.lock_file(path)
    }
}

fn options(fs: &Arc<ProbeFs>) -> DbOptions {
    DbOptions {
        db_path: DB_PATH.to_string(),
        filesystem_provider: Arc::clone(fs) as Arc<dyn FileSystem>,
        create_if_missing: true,
        max_memtable_size: 8 * 1024,
        ..DbOptions::default()
    }
}

fn flush(db: &DB) {
    let nowhere: &[u8] = b"~~~~";
    db.compact_range(Some(nowhere)..Some(nowhere));
}

#[test]
fn probe() {
    let control = Arc::new(Control::default());
    let fs = Arc::new(ProbeFs {
        inner: InMemoryFileSystem::new(),
        control: Arc::clone(&control),
    });
    let db = Arc::new(DB::open(options(&fs)).unwrap());
    let put = |key: &str, value: &str| {
        db.put(
            WriteOptions::default(),
            key.as_bytes().to_vec(),
            value.as_bytes().to_vec(),
        )
    };

    // Level 2 file with a..e, level 1 file with newer a..e
    for key in ["a", "b", "c", "d", "e"] {
        put(key, "old").unwrap();
    }
    flush(&db);
    for key in ["a", "b", "c", "d", "e"] {
        put(key, "new").unwrap();
    }
    flush(&db);
    println!(
        "levels: {} {} {}",
        db.get_descriptor(raindb::db::DatabaseDescriptor::NumFilesAtLevel(0)).unwrap(),
        db.get_descriptor(raindb::db::DatabaseDescriptor::NumFilesAtLevel(1)).unwrap(),
        db.get_descriptor(raindb::db::DatabaseDescriptor::NumFilesAtLevel(2)).unwrap()
    );

    // Start the table compaction and stop it where it creates its output file
    control.block_next_table_create.store(true, Ordering::SeqCst);
    let compactor = {
        let db = Arc::clone(&db);
        thread::spawn(move || db.compact_range(None..None))
    };
    {
        let mut blocked = control.blocked.lock().unwrap();
        while !*blocked {
            blocked = control.blocked_cv.wait(blocked).unwrap();
        }
    }

    // Fill the memtable so that it is rotated while the compaction is in its loop
    let filler = "x".repeat(1024);
    let mut acknowledged = vec![];
    for index in 0..12 {
        let key = format!("w{index:02}");
        put(&key, &filler).unwrap();
        acknowledged.push(key);
    }
    thread::sleep(Duration::from_millis(50));

    control.tear_next_manifest_write.store(true, Ordering::SeqCst);
    *control.release.lock().unwrap() = true;
    control.release_cv.notify_all();
    compactor.join().unwrap();

    println!(
        "torn manifest writes: {}, manifest writes after the torn one: {}",
        control.torn_writes.load(Ordering::SeqCst),
        control.manifest_writes_after_tear.load(Ordering::SeqCst)
    );
    println!("write after: {:?}", put("after", "x").map_err(|e| e.to_string()));
    drop(put);
    let db = Arc::try_unwrap(db).ok().unwrap();
    drop(db);

    let reopened = DB::open(options(&fs));
    match &reopened {
        Ok(_) => println!("reopen: ok"),
        Err(error) => println!("reopen: ERROR {error}"),
    }
    let reopened = reopened.unwrap();
    for key in acknowledged {
        assert!(
            reopened.get(ReadOptions::default(), key.as_bytes()).is_ok(),
            "{key} lost"
        );
    }
}
