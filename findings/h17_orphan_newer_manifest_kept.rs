// Plain public-API reproduction (no hooks, no harness) of defect H17:
// `remove_obsolete_files` kept every manifest whose number is not smaller than the current one. An
// incarnation opened with `reuse_log_files = false` creates a new manifest under a fresh file
// number; if it crashes before `CURRENT` is switched, that file is an orphan with a number *larger*
// than the manifest `CURRENT` names. A later incarnation opened with `reuse_log_files = true`
// (the default) goes on with the old manifest and never reclaims the orphan, however many
// flushes, compactions and clean reopens follow.
// Drop into /repo/tests/ and run `cargo test --test h17_orphan_newer_manifest_kept`.
use std::io::{Error, ErrorKind, Read, Result, Seek, SeekFrom, Write};
use std::path::{Path, PathBuf};
use std::sync::atomic::{AtomicBool, Ordering};
use std::sync::Arc;

use raindb::fs::{FileLock, FileSystem, InMemoryFileSystem, RandomAccessFile, ReadonlyRandomAccessFile};
use raindb::{DbOptions, ReadOptions, WriteOptions, DB};

/// Passes everything through to an in-memory filesystem until the first `rename` (the switch of
/// `CURRENT`): from that call on the "process is dead" - no mutation reaches the files any more, so
/// what the inner filesystem holds is the crash image.
struct CrashAtRenameFs {
    inner: Arc<InMemoryFileSystem>,
    dead: Arc<AtomicBool>,
}

fn dead_err() -> Error {
    Error::new(ErrorKind::Other, "crashed")
}

struct CrashFile {
    inner: Box<dyn RandomAccessFile>,
    dead: Arc<AtomicBool>,
}
impl Read for CrashFile {
    fn read(&mut self, buf: &mut [u8]) -> Result<usize> {
        self.inner.read(buf)
    }
}
impl Seek for CrashFile {
    fn seek(&mut self, pos: SeekFrom) -> Result<u64> {
        self.inner.seek(pos)
    }
}
impl Write for CrashFile {
    fn write(&mut self, buf: &[u8]) -> Result<usize> {
        if self.dead.load(Ordering::SeqCst) {
            return Err(dead_err());
        }
        self.inner.write(buf)
    }
    fn flush(&mut self) -> Result<()> {
        self.inner.flush()
    }
}
impl ReadonlyRandomAccessFile for CrashFile {
    fn read_from(&self, buf: &mut [u8], offset: usize) -> Result<usize> {
        self.inner.read_from(buf, offset)
    }
    fn len(&self) -> Result<u64> {
        self.inner.len()
    }
}
impl RandomAccessFile for CrashFile {
    fn append(&mut self, buf: &[u8]) -> Result<usize> {
        if self.dead.load(Ordering::SeqCst) {
            return Err(dead_err());
        }
        self.inner.append(buf)
    }
}

impl FileSystem for CrashAtRenameFs {
    fn get_name(&self) -> String {
        "CrashAtRenameFs".into()
    }
    fn create_dir(&self, p: &Path) -> Result<()> {
        self.inner.create_dir(p)
    }
    fn create_dir_all(&self, p: &Path) -> Result<()> {
        self.inner.create_dir_all(p)
    }
    fn list_dir(&self, p: &Path) -> Result<Vec<PathBuf>> {
        self.inner.list_dir(p)
    }
    fn open_file(&self, p: &Path) -> Result<Box<dyn ReadonlyRandomAccessFile>> {
        self.inner.open_file(p)
    }
    fn rename(&self, _a: &Path, _b: &Path) -> Result<()> {
        self.dead.store(true, Ordering::SeqCst);
        Err(dead_err())
    }
    fn create_file(&self, p: &Path, append: bool) -> Result<Box<dyn RandomAccessFile>> {
        if self.dead.load(Ordering::SeqCst) {
            return Err(dead_err());
        }
        Ok(Box::new(CrashFile {
            inner: self.inner.create_file(p, append)?,
            dead: Arc::clone(&self.dead),
        }))
    }
    fn remove_file(&self, p: &Path) -> Result<()> {
        if self.dead.load(Ordering::SeqCst) {
            return Err(dead_err());
        }
        self.inner.remove_file(p)
    }
    fn remove_dir(&self, p: &Path) -> Result<()> {
        self.inner.remove_dir(p)
    }
    fn remove_dir_all(&self, p: &Path) -> Result<()> {
        self.inner.remove_dir_all(p)
    }
    fn get_file_size(&self, p: &Path) -> Result<u64> {
        self.inner.get_file_size(p)
    }
    fn is_dir(&self, p: &Path) -> Result<bool> {
        self.inner.is_dir(p)
    }
    fn lock_file(&self, p: &Path) -> Result<FileLock> {
        self.inner.lock_file(p)
    }
}

fn options(fs: Arc<dyn FileSystem>, reuse: bool) -> DbOptions {
    let mut options = DbOptions::with_memory_env();
    options.filesystem_provider = fs;
    options.create_if_missing = true;
    options.reuse_log_files = reuse;
    options.db_path = "/h17".to_string();
    options
}

fn manifests(fs: &InMemoryFileSystem) -> Vec<String> {
    let mut v: Vec<String> = fs
        .list_dir(Path::new("/h17"))
        .unwrap()
        .into_iter()
        .map(|p| p.file_name().unwrap().to_string_lossy().to_string())
        .filter(|n| n.starts_with("MANIFEST"))
        .collect();
    v.sort();
    v
}

#[test]
fn a_manifest_orphaned_by_a_crash_before_the_current_switch_is_reclaimed() {
    let mem = Arc::new(InMemoryFileSystem::new());
    // incarnation 1: some data, one table
    {
        let db = DB::open(options(mem.clone(), true)).unwrap();
        db.put(WriteOptions::default(), b"a".to_vec(), b"1".to_vec()).unwrap();
        db.compact_range(Some(&b"zzzz"[..])..Some(&b"zzzz"[..]));
        db.put(WriteOptions::default(), b"b".to_vec(), b"2".to_vec()).unwrap();
    }
    assert_eq!(manifests(&mem).len(), 1);
    // incarnation 2: does not reuse logs, so it writes a new manifest - and dies at the switch of CURRENT
    {
        let crash = Arc::new(CrashAtRenameFs { inner: mem.clone(), dead: Arc::new(AtomicBool::new(false)) });
        assert!(DB::open(options(crash, false)).is_err(), "the open that 'crashes' cannot succeed");
    }
    assert_eq!(manifests(&mem).len(), 2, "the crash image holds the old manifest and the orphan: {:?}", manifests(&mem));
    // incarnation 3: default options (logs reused)
    {
        let db = DB::open(options(mem.clone(), true)).unwrap();
        assert_eq!(db.get(ReadOptions::default(), b"a").unwrap(), b"1".to_vec());
        assert_eq!(db.get(ReadOptions::default(), b"b").unwrap(), b"2".to_vec());
        db.put(WriteOptions::default(), b"c".to_vec(), b"3".to_vec()).unwrap();
        db.compact_range(None..None);
    }
    // and a clean reopen for good measure
    {
        let db = DB::open(options(mem.clone(), true)).unwrap();
        db.compact_range(None..None);
    }
    assert_eq!(manifests(&mem).len(), 1, "only the current manifest may remain: {:?}", manifests(&mem));
}
