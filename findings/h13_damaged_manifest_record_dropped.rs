// Plain public-API reproduction (no hooks, no harness) of defect H13:
// a manifest record whose checksum does not match was silently skipped by the log reader and
// recovery carried on with an older set of files: the database opened "successfully" and served
// stale or missing data. Drop into /repo/tests/ and run
// `cargo test --test h13_damaged_manifest_record_dropped`.
use std::io::{Read, Write};
use std::path::PathBuf;
use std::sync::Arc;

use raindb::fs::{FileSystem, InMemoryFileSystem};
use raindb::{DbOptions, ReadOptions, WriteOptions, DB};

fn options(fs: &Arc<InMemoryFileSystem>) -> DbOptions {
    let mut options = DbOptions::with_memory_env();
    options.filesystem_provider = Arc::clone(fs) as Arc<dyn FileSystem>;
    options.create_if_missing = true;
    options.max_file_size = 300;
    options.max_block_size = 1;
    options.db_path = "/h13".to_string();
    options
}

fn flush(db: &DB) {
    let z = [0xffu8, 0xff, 0xff];
    db.compact_range(Some(&z[..])..Some(&z[..]));
}

#[test]
fn a_damaged_manifest_record_is_not_silently_dropped() {
    let fs = Arc::new(InMemoryFileSystem::new());
    {
        let db = DB::open(options(&fs)).unwrap();
        db.put(WriteOptions::default(), b"c".to_vec(), b"old".to_vec()).unwrap();
        flush(&db);
        db.put(WriteOptions::default(), b"c".to_vec(), b"new".to_vec()).unwrap();
        flush(&db);
    }
    // flip one payload bit of the last manifest record (the one that adds the newest table)
    let manifest: PathBuf = fs
        .list_dir(&PathBuf::from("/h13"))
        .unwrap()
        .into_iter()
        .find(|p| p.extension().map(|e| e == "manifest").unwrap_or(false))
        .unwrap();
    let mut bytes = vec![];
    fs.open_file(&manifest).unwrap().read_to_end(&mut bytes).unwrap();
    let last = bytes.len() - 3;
    bytes[last] ^= 0x10;
    fs.create_file(&manifest, false).unwrap().write_all(&bytes).unwrap();

    match DB::open(options(&fs)) {
        Err(_) => {} // detected: fine
        Ok(db) => {
            let got = db.get(ReadOptions::default(), b"c");
            assert!(
                got.is_err() && !matches!(got, Err(raindb::RainDBError::KeyNotFound)) || got.as_ref().ok() == Some(&b"new".to_vec()),
                "open succeeded on a damaged manifest and get(c) returned {:?} instead of the newest value",
                got
            );
        }
    }
}
