// Plain public-API reproduction (no hooks, no harness) of defect H1:
// `FileMetadata::get_key_range_for_files` took the *minimum* of the files' largest keys, so a
// level-0 compaction missed overlapping parent-level files. A deleted key comes back.
// Drop into /repo/tests/ and run `cargo test --test h1_key_range_min_of_largest`.
use raindb::{DbOptions, ReadOptions, WriteOptions, DB};

fn flush(db: &DB) {
    let z = [0xffu8, 0xff, 0xff];
    db.compact_range(Some(&z[..])..Some(&z[..]));
}

#[test]
fn deleted_key_does_not_come_back_after_compact_range() {
    let mut options = DbOptions::with_memory_env();
    options.create_if_missing = true;
    options.max_file_size = 300;
    options.max_block_size = 1;
    options.db_path = "/h1".to_string();
    let db = DB::open(options).unwrap();
    let w = WriteOptions::default;
    db.put(w(), b"c".to_vec(), b"1".to_vec()).unwrap();
    flush(&db);
    db.put(w(), b"c".to_vec(), b"2".to_vec()).unwrap();
    flush(&db);
    db.put(w(), b"e".to_vec(), b"3".to_vec()).unwrap();
    flush(&db);
    db.delete(w(), b"e".to_vec()).unwrap();
    flush(&db);
    db.compact_range(None..None);
    let got = db.get(ReadOptions::default(), b"e");
    assert!(
        matches!(got, Err(raindb::RainDBError::KeyNotFound)),
        "get(e) after delete + compaction returned {:?}",
        got
    );
}
