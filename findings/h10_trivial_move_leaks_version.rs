// Plain public-API reproduction (no hooks, no harness) of defect H10:
// the trivial-move branch of the background compaction never released the compaction's input
// version. The version stayed in the version set for ever, so every table it referenced counted
// as "live" and was never deleted after later compactions made it obsolete.
// Drop into /repo/tests/ and run `cargo test --test h10_trivial_move_leaks_version`.
use std::collections::BTreeSet;
use std::path::PathBuf;
use std::sync::Arc;

use raindb::db::DatabaseDescriptor;
use raindb::fs::{FileSystem, InMemoryFileSystem};
use raindb::{DbOptions, WriteOptions, DB};

fn options(fs: &Arc<InMemoryFileSystem>) -> DbOptions {
    let mut options = DbOptions::with_memory_env();
    options.filesystem_provider = Arc::clone(fs) as Arc<dyn FileSystem>;
    options.create_if_missing = true;
    options.reuse_log_files = false; // every reopen flushes the recovered WAL into its own L0 table
    options.max_file_size = 300;
    options.max_block_size = 1;
    options.db_path = "/h10".to_string();
    options
}

fn flush(db: &DB) {
    let z = [0xffu8, 0xff, 0xff];
    db.compact_range(Some(&z[..])..Some(&z[..]));
}

fn tables_on_disk(fs: &Arc<InMemoryFileSystem>) -> BTreeSet<String> {
    fs.list_dir(&PathBuf::from("/h10/data"))
        .unwrap()
        .into_iter()
        .map(|p| p.file_stem().unwrap().to_string_lossy().to_string())
        .collect()
}

fn tables_in_current_version(db: &DB) -> BTreeSet<String> {
    db.get_descriptor(DatabaseDescriptor::SSTables)
        .unwrap()
        .lines()
        .filter(|l| !l.starts_with("---"))
        .filter_map(|l| l.split(' ').next().map(|s| s.to_string()))
        .filter(|s| !s.is_empty())
        .collect()
}

#[test]
fn obsolete_tables_are_reclaimed_after_a_trivial_move() {
    let fs = Arc::new(InMemoryFileSystem::new());
    for key in [b"c", b"e"] {
        let db = DB::open(options(&fs)).unwrap();
        db.put(WriteOptions::default(), key.to_vec(), b"v".to_vec()).unwrap();
    }
    let db = DB::open(options(&fs)).unwrap();
    for _ in 0..3 {
        db.delete(WriteOptions::default(), b"e".to_vec()).unwrap();
        flush(&db);
        // let the background thread finish whatever the flush triggered
        std::thread::sleep(std::time::Duration::from_millis(300));
    }
    flush(&db);
    std::thread::sleep(std::time::Duration::from_millis(300));
    assert_eq!(
        tables_on_disk(&fs),
        tables_in_current_version(&db),
        "table files that no version needs are still on disk"
    );
}
