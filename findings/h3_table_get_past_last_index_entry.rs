// Plain public-API reproduction (no hooks, no harness) of defect H3:
// `Table::get` answered "deleted" (`Ok(None)`) instead of "not in this file" when the index seek
// ran past the last index entry, so a snapshot read stopped at a level-0 file whose entries for
// the key are all newer than the snapshot and never reached the visible older version.
// Drop into /repo/tests/ and run `cargo test --test h3_table_get_past_last_index_entry`.
use raindb::{DbOptions, ReadOptions, WriteOptions, DB};

fn flush(db: &DB) {
    let z = [0xffu8, 0xff, 0xff];
    db.compact_range(Some(&z[..])..Some(&z[..]));
}

#[test]
fn snapshot_read_sees_the_older_version_below_a_newer_level0_file() {
    let mut options = DbOptions::with_memory_env();
    options.create_if_missing = true;
    options.max_file_size = 300;
    options.max_block_size = 1;
    options.db_path = "/h3".to_string();
    let db = DB::open(options).unwrap();
    let w = WriteOptions::default;
    db.put(w(), b"c".to_vec(), b"1".to_vec()).unwrap();
    flush(&db);
    db.put(w(), b"c".to_vec(), b"2".to_vec()).unwrap();
    flush(&db);
    let snapshot = db.get_snapshot();
    db.put(w(), b"c".to_vec(), b"3".to_vec()).unwrap();
    flush(&db);
    let got = db.get(
        ReadOptions {
            fill_cache: true,
            snapshot: Some(snapshot.clone()),
        },
        b"c",
    );
    db.release_snapshot(snapshot);
    assert_eq!(got.ok(), Some(b"2".to_vec()));
}
