// Plain public-API reproduction (no hooks, no harness) of defect H23:
// the merged iterator positions every child and only *remembers* the error of a child that could not
// be positioned (its table is unreadable); it stays valid on the entries of the other children. The
// database iterator's seek / seek_to_first / seek_to_last passed on the merged iterator's Ok: the
// call "succeeds", the iterator is valid and stands on a shadowed or deleted entry of an older
// table - although the trait documents that a positioning call "returns an error if there was an
// issue seeking the target and sets the iterator to invalid". The error could only be fetched with
// take_error(), which a client has no reason to call on a valid iterator.
// Written by the C15 defect-hunting sub-agent against the unmodified tree; only this header was added.
// Drop into /repo/tests/ and run `cargo test --test h23_seek_ok_over_an_unreadable_table`.
//! C15: a client iterator serves stale / deleted entries from older tables when the newer table
//! that shadows them has a damaged byte, and its `seek*` call reports success.
//!
//! `MergingIterator::seek`, `seek_to_first` and `seek_to_last` (src/versioning/file_iterators.rs)
//! store the error of a child iterator away and return `Ok(())`. `DatabaseIterator::seek*`
//! (src/iterator.rs) only looks at that return value (`self.inner_iter.seek(..)?`), so the failed
//! child is simply left out of the merge: the documented contract of `RainDbIterator::seek`
//! ("Returns an error if there was an issue seeking the target and sets the iterator to invalid")
//! is not kept and the entries that the unreadable table shadowed come back to life. `DB::get` on
//! the very same image reports the corruption.
//!
//! The test builds a small database with three table files
//!   T1 (level 2): a=old, b=to-be-deleted
//!   T2 (level 1): a=new, delete(b), c=only-new
//!   T3          : z=zzz
//! and then, for every offset of T2, flips one bit of a copy of the image and scans it.

use std::collections::BTreeMap;
use std::path::{Path, PathBuf};
use std::sync::Arc;

use raindb::fs::{FileSystem, InMemoryFileSystem};
use raindb::{DbOptions, RainDbIterator, ReadOptions, WriteOptions, DB};

const DB_PATH: &str = "/c15_iterator_seek";

fn options(fs: &Arc<InMemoryFileSystem>) -> DbOptions {
    let fs: Arc<dyn FileSystem> = Arc::clone(fs) as Arc<dyn FileSystem>;
    DbOptions {
        db_path: DB_PATH.to_string(),
        filesystem_provider: fs,
        create_if_missing: true,
        ..DbOptions::default()
    }
}

fn read_whole_file(fs: &dyn FileSystem, path: &Path) -> Vec<u8> {
    let file = fs.open_file(path).unwrap();
    let len = file.len().unwrap() as usize;
    let mut buf = vec![0u8; len];
    if len > 0 {
        let read = file.read_from(&mut buf, 0).unwrap();
        assert_eq!(read, len);
    }
    buf
}

fn write_whole_file(fs: &dyn FileSystem, path: &Path, contents: &[u8]) {
    let mut file = fs.create_file(path, false).unwrap();
    std::io::Write::write_all(&mut file, contents).unwrap();
    std::io::Write::flush(&mut file).unwrap();
}

/// All files below `dir` with their contents.
fn snapshot_dir(fs: &dyn FileSystem, dir: &Path, out: &mut Vec<(PathBuf, Vec<u8>)>) {
    for child in fs.list_dir(dir).unwrap() {
        if fs.is_dir(&child).unwrap() {
            snapshot_dir(fs, &child, out);
        } else {
            let contents = read_whole_file(fs, &child);
            out.push((child, contents));
        }
    }
}

fn restore(image: &[(PathBuf, Vec<u8>)]) -> Arc<InMemoryFileSystem> {
    let fs = Arc::new(InMemoryFileSystem::new());
    for (path, contents) in image {
        write_whole_file(&*fs, path, contents);
    }
    fs
}

fn build_image() -> Vec<(PathBuf, Vec<u8>)> {
    let mem_fs = Arc::new(InMemoryFileSystem::new());
    {
        let db = DB::open(options(&mem_fs)).unwrap();
        db.put(WriteOptions::default(), b"a".to_vec(), b"old".to_vec())
            .unwrap();
        db.put(WriteOptions::default(), b"b".to_vec(), b"to-be-deleted".to_vec())
            .unwrap();
        db.compact_range(None..None);
    }
    {
        let db = DB::open(options(&mem_fs)).unwrap();
        db.put(WriteOptions::default(), b"a".to_vec(), b"new".to_vec())
            .unwrap();
        db.delete(WriteOptions::default(), b"b".to_vec()).unwrap();
        db.put(WriteOptions::default(), b"c".to_vec(), b"only-new".to_vec())
            .unwrap();
        // A range beyond all keys: only the memtable is flushed, T1 and T2 are not merged.
        db.compact_range(Some("x".as_bytes())..None);
    }
    {
        let db = DB::open(options(&mem_fs)).unwrap();
        db.put(WriteOptions::default(), b"z".to_vec(), b"zzz".to_vec())
            .unwrap();
        db.compact_range(Some("x".as_bytes())..None);
    }

    let mut image = vec![];
    snapshot_dir(&*mem_fs, Path::new(DB_PATH), &mut image);
    image.retain(|(path, _)| !path.ends_with("LOCK"));
    image
}

fn expected_contents() -> BTreeMap<Vec<u8>, Vec<u8>> {
    let mut expected = BTreeMap::new();
    expected.insert(b"a".to_vec(), b"new".to_vec());
    expected.insert(b"c".to_vec(), b"only-new".to_vec());
    expected.insert(b"z".to_vec(), b"zzz".to_vec());
    expected
}

/// Forward scan following the documented protocol: the result of `seek_to_first` is checked and
/// `take_error` is consulted once the iterator became invalid.
fn scan(db: &DB) -> (Vec<(Vec<u8>, Vec<u8>)>, Result<(), String>) {
    let mut entries = vec![];
    let mut iter = match db.new_iterator(ReadOptions::default()) {
        Ok(iter) => iter,
        Err(error) => return (entries, Err(format!("new_iterator: {error}"))),
    };
    if let Err(error) = iter.seek_to_first() {
        return (entries, Err(format!("seek_to_first: {error}")));
    }
    while iter.is_valid() {
        let (key, value) = iter.current().unwrap();
        entries.push((key.clone(), value.clone()));
        iter.next();
    }
    match iter.take_error() {
        Some(error) => (entries, Err(format!("take_error at the end: {error}"))),
        None => (entries, Ok(())),
    }
}

#[test]
fn control_the_unmodified_image_scans_correctly() {
    let image = build_image();
    let fs = restore(&image);
    let db = DB::open(options(&fs)).unwrap();
    let (entries, status) = scan(&db);
    assert_eq!(status, Ok(()));
    let expected: Vec<(Vec<u8>, Vec<u8>)> = expected_contents().into_iter().collect();
    assert_eq!(entries, expected);
}

#[test]
fn a_scan_over_a_table_with_one_flipped_bit_serves_shadowed_entries_and_seek_reports_success() {
    let image = build_image();
    let expected = expected_contents();

    // T2 is the table file with the second smallest number (T1 < T2 < T3).
    let mut tables: Vec<(u64, usize)> = image
        .iter()
        .enumerate()
        .filter(|(_, (path, _))| path.extension().map_or(false, |ext| ext == "rdb"))
        .map(|(idx, (path, _))| {
            let number: u64 = path.file_stem().unwrap().to_str().unwrap().parse().unwrap();
            (number, idx)
        })
        .collect();
    tables.sort();
    assert_eq!(tables.len(), 3, "expected three table files: {tables:?}");
    let t2_index = tables[1].1;
    let t2_len = image[t2_index].1.len();
    println!("T2 is {:?} with {} bytes", image[t2_index].0, t2_len);

    let mut seek_ok_but_wrong_entries: Vec<usize> = vec![];
    let mut point_seek_wrong: Vec<usize> = vec![];
    let mut get_wrong: Vec<usize> = vec![];
    let mut first_example: Option<String> = None;

    for offset in 0..t2_len {
        let mut damaged = image.clone();
        damaged[t2_index].1[offset] ^= 0x10;
        let fs = restore(&damaged);
        let db = match DB::open(options(&fs)) {
            Ok(db) => db,
            Err(_) => continue, // a detected corruption
        };

        // Point reads (for comparison): an error or the right answer.
        for key in [&b"a"[..], &b"b"[..], &b"c"[..], &b"z"[..]] {
            match db.get(ReadOptions::default(), key) {
                Ok(value) => {
                    if expected.get(key) != Some(&value) {
                        get_wrong.push(offset);
                    }
                }
                Err(raindb::RainDBError::KeyNotFound) => {
                    if expected.contains_key(key) {
                        get_wrong.push(offset);
                    }
                }
                Err(_) => {}
            }
        }

        // A full forward scan.
        let (entries, status) = scan(&db);
        let wrong_entries: Vec<&(Vec<u8>, Vec<u8>)> = entries
            .iter()
            .filter(|(key, value)| expected.get(key) != Some(value))
            .collect();
        let seek_failed = matches!(&status, Err(msg) if !msg.starts_with("take_error"));
        if !seek_failed && !wrong_entries.is_empty() {
            seek_ok_but_wrong_entries.push(offset);
            if first_example.is_none() {
                first_example = Some(format!(
                    "offset {offset}: seek_to_first() returned Ok(()), the scan yielded {:?}, \
                    final status {:?}",
                    entries
                        .iter()
                        .map(|(k, v)| format!(
                            "{}={}",
                            String::from_utf8_lossy(k),
                            String::from_utf8_lossy(v)
                        ))
                        .collect::<Vec<_>>(),
                    status
                ));
            }
        }

        // A positioned read through an iterator: seek(a) + current(). The iterator stays valid so
        // a client has no reason to call `take_error` (it is documented for iterators that became
        // invalid during next/prev).
        let mut iter = db.new_iterator(ReadOptions::default()).unwrap();
        if iter.seek(&b"a".to_vec()).is_ok() && iter.is_valid() {
            let (key, value) = iter.current().unwrap();
            if expected.get(key) != Some(value) {
                point_seek_wrong.push(offset);
            }
        }
    }

    println!(
        "offsets of T2 ({t2_len} bytes) where DB::get served a wrong answer: {}",
        get_wrong.len()
    );
    println!(
        "offsets where seek_to_first() was Ok and the scan yielded wrong entries: {} of {t2_len}",
        seek_ok_but_wrong_entries.len()
    );
    println!(
        "offsets where seek(a) was Ok, the iterator valid and current() was not a=new: {} of {t2_len}",
        point_seek_wrong.len()
    );
    if let Some(example) = &first_example {
        println!("example: {example}");
    }

    assert!(get_wrong.is_empty(), "DB::get served wrong data at {get_wrong:?}");
    assert!(
        seek_ok_but_wrong_entries.is_empty() && point_seek_wrong.is_empty(),
        "a one bit corruption of a table file made client iterators serve entries that are not \
        part of the database (stale value of `a`, deleted key `b`) while seek_to_first()/seek() \
        returned Ok(()). Full scans affected at {} offsets, seek(a)+current() at {} offsets. {}",
        seek_ok_but_wrong_entries.len(),
        point_seek_wrong.len(),
        first_example.unwrap_or_default()
    );
}
