// Plain public-API reproduction (no hooks, no harness) of defect H7:
// `DB::get_descriptor(DatabaseDescriptor::Stats)` locks the database mutex and then calls
// `summarize_compaction_stats`, which locks the same non-reentrant mutex again: the call never
// returns. Drop into /repo/tests/ and run `cargo test --test h7_stats_descriptor_self_deadlock`.
use std::sync::mpsc;
use std::time::Duration;

use raindb::db::DatabaseDescriptor;
use raindb::{DbOptions, DB};

#[test]
fn stats_descriptor_returns() {
    let (tx, rx) = mpsc::channel();
    std::thread::spawn(move || {
        let mut options = DbOptions::with_memory_env();
        options.create_if_missing = true;
        options.db_path = "/h7".to_string();
        let db = DB::open(options).unwrap();
        let stats = db.get_descriptor(DatabaseDescriptor::Stats);
        tx.send(stats.is_ok()).unwrap();
    });
    let answer = rx.recv_timeout(Duration::from_secs(5));
    assert_eq!(answer, Ok(true), "get_descriptor(Stats) did not return within 5 s");
}
