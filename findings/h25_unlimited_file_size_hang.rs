// Plain public-API reproduction (no hooks, no harness) of defect H25:
// `max_file_size * 10` (grandparent overlap limit) and `* 25` (expanded compaction limit) overflow
// for very large option values such as `max_file_size = u64::MAX` ("no limit"). In builds with
// overflow checks (debug / test profiles) the background thread panics at the first memtable flush;
// the 'compaction scheduled' flag stays set, no background error is recorded: compact_range, the
// writer that fills the next memtable and drop(DB) wait for ever.
// Written by the C05 defect-hunting sub-agent against the unmodified tree; only this header was added.
// Drop into /repo/tests/ and run `cargo test --test h25_unlimited_file_size_hang`.
//! With `max_file_size = u64::MAX` ("never split a table file") the first memtable flush makes the
//! background thread panic: `pick_level_for_memtable_output` computes the grandparent overlap limit
//! as `max_file_size * 10` (`compaction::utils::max_grandparent_overlap_bytes_from_options`; the
//! same happens with `max_output_file_size_bytes * 25` and `* 10` in `compaction/manifest.rs`),
//! which overflows. In a build with overflow checks (debug / test profile) the background thread
//! dies with `background_compaction_scheduled == true` and the immutable memtable in place, so
//! every call that waits for the background thread never returns: `compact_range`, a writer that
//! has filled the next memtable, and `drop(DB)`.

use std::sync::mpsc;
use std::sync::Arc;
use std::thread;
use std::time::Duration;

use raindb::fs::InMemoryFileSystem;
use raindb::{DbOptions, WriteOptions, DB};

#[test]
fn compact_range_returns_with_an_unlimited_file_size() {
    let options = DbOptions {
        filesystem_provider: Arc::new(InMemoryFileSystem::new()),
        create_if_missing: true,
        db_path: "/c05_unlimited".to_string(),
        max_file_size: u64::MAX,
        ..DbOptions::default()
    };
    let db = Arc::new(DB::open(options).unwrap());
    db.put(WriteOptions::default(), b"a".to_vec(), b"1".to_vec())
        .unwrap();

    let (done_sender, done_receiver) = mpsc::channel();
    let db_clone = Arc::clone(&db);
    thread::spawn(move || {
        // Flushes the memtable on the background thread and waits for it
        db_clone.compact_range(None..None);
        done_sender.send(()).unwrap();
    });

    let outcome = done_receiver.recv_timeout(Duration::from_secs(20));
    if outcome.is_err() {
        // Do not drop the database: that would block forever as well
        std::mem::forget(db);
        panic!(
            "compact_range did not return within 20 s: the background thread died (see its panic \
            message above) and nobody will ever finish the memtable flush it is waiting for"
        );
    }
}
