// Plain public-API reproduction (no hooks, no harness) of defect H24:
// when a compaction grows the inputs of its own level, the parent level inputs are computed again
// for the larger range - and RainDB completed the *compaction level* inputs with their boundary
// files a second time instead of the re-computed parent inputs (LevelDB: AddBoundaryInputs on
// level + 1). A parent table that holds the older entries of the last user key of its neighbour can
// so drop out of the compaction while the neighbour - with the tombstone of that key at its end - is
// compacted: the tombstone is dropped as obsolete and the deleted key is readable again, without
// any write in between.
// Written by the C05 defect-hunting sub-agent against the unmodified tree; only this header was added.
// Drop into /repo/tests/ and run `cargo test --test h24_deleted_key_resurrected_by_expanded_compaction`.
//! C05: a deleted key comes back (stale read) after a background compaction.
//!
//! `CompactionManifest::finalize_compaction_inputs` (LevelDB: `VersionSet::SetupOtherInputs`) grows
//! the inputs of the compaction level when that does not pull in more parent level files. LevelDB
//! completes the re-computed parent level inputs (`expanded1`) with their boundary files
//! (`AddBoundaryInputs(icmp_, current_->files_[level + 1], &expanded1)`). RainDB calls
//! `add_boundary_inputs` a second time on the *compaction level* inputs (`expanded0`) instead, so
//! `expanded1` has no boundary files. When the original parent inputs were {F1, F2 (boundary file of
//! F1)} and the expanded ones are {F0, F1}, both have two files, the expansion is accepted and F2
//! silently drops out of the compaction. F1 ends in the tombstone of a user key whose older value
//! is the first entry of F2: the compaction considers the tombstone obsolete (nothing in deeper
//! levels), drops it, and the older value in F2 becomes visible again.
//!
//! Everything here is done through the public API on one client thread; the compactions run on
//! the background thread. A snapshot that is alive during an earlier compaction is what makes two
//! entries of one user key end up in two adjacent files of a level.

use std::sync::Arc;

use raindb::db::DatabaseDescriptor;
use raindb::fs::InMemoryFileSystem;
use raindb::{DbOptions, RainDBError, ReadOptions, WriteOptions, DB};

/// ~1100 bytes that snappy cannot shrink.
fn big_value() -> Vec<u8> {
    let mut x: u64 = 0x9E3779B97F4A7C15;
    let mut s = String::new();
    for _ in 0..70 {
        x ^= x << 13;
        x ^= x >> 7;
        x ^= x << 17;
        s.push_str(&format!("{x:016x}"));
    }
    s.into_bytes()
}

/// Flush the memtable to a table file without touching any table file: `compact_range` first
/// forces a memtable compaction and then finds no file that overlaps the range.
fn flush(db: &DB) {
    db.compact_range(Some(b"zzzz".as_slice())..Some(b"zzzz".as_slice()));
}

fn put(db: &DB, key: &str, value: &[u8]) {
    db.put(WriteOptions::default(), key.as_bytes().to_vec(), value.to_vec())
        .unwrap();
}

fn files_per_level(db: &DB) -> Vec<usize> {
    (0..7)
        .map(|level| {
            db.get_descriptor(DatabaseDescriptor::NumFilesAtLevel(level))
                .unwrap()
                .parse::<usize>()
                .unwrap()
        })
        .collect()
}

#[test]
fn deleted_key_is_resurrected_by_a_compaction_that_loses_a_boundary_file() {
    let options = DbOptions {
        filesystem_provider: Arc::new(InMemoryFileSystem::new()),
        create_if_missing: true,
        db_path: "/c05_resurrect".to_string(),
        // A compaction output file is finished as soon as ~1000 bytes have been written to it
        max_file_size: 1000,
        max_block_size: 512,
        ..DbOptions::default()
    };
    let db = DB::open(options).unwrap();

    // Level 2: F0 = [a .. c]
    put(&db, "a", b"a1");
    put(&db, "c", b"c1");
    flush(&db);
    assert_eq!(files_per_level(&db), vec![0, 0, 1, 0, 0, 0, 0]);

    // Level 2: A = [e, j (big), k=old]
    put(&db, "e", b"e1");
    put(&db, "j", &big_value());
    put(&db, "k", b"old");
    flush(&db);
    assert_eq!(files_per_level(&db), vec![0, 0, 2, 0, 0, 0, 0]);

    // A reader pins the state in which "k" still exists
    let snapshot = db.get_snapshot();

    // Level 1: B = [k deleted]
    db.delete(WriteOptions::default(), b"k".to_vec()).unwrap();
    flush(&db);
    assert_eq!(files_per_level(&db), vec![0, 1, 2, 0, 0, 0, 0]);
    assert_eq!(
        db.get(ReadOptions::default(), b"k"),
        Err(RainDBError::KeyNotFound)
    );

    // Compact B and A. Because of the snapshot both entries of "k" are kept. The output file is
    // finished right behind the tombstone (the block with the big value of "j" made it reach the
    // file size limit), so level 2 becomes: F0 = [a..c], F1 = [e, j, k(deleted)], F2 = [k=old].
    db.compact_range(Some(b"k".as_slice())..Some(b"k".as_slice()));
    assert_eq!(
        files_per_level(&db),
        vec![0, 0, 3, 0, 0, 0, 0],
        "{}",
        db.get_descriptor(DatabaseDescriptor::SSTables).unwrap()
    );
    assert_eq!(
        db.get(
            ReadOptions {
                fill_cache: true,
                snapshot: Some(snapshot.clone())
            },
            b"k"
        ),
        Ok(b"old".to_vec())
    );
    db.release_snapshot(snapshot);

    // Level 1: H = [j]
    put(&db, "j", b"j2");
    flush(&db);
    // Level 1: G = [b .. f]
    put(&db, "b", b"b1");
    put(&db, "f", b"f1");
    flush(&db);
    assert_eq!(
        files_per_level(&db),
        vec![0, 2, 3, 0, 0, 0, 0],
        "{}",
        db.get_descriptor(DatabaseDescriptor::SSTables).unwrap()
    );

    // "k" was deleted and nobody has written it since
    assert_eq!(
        db.get(ReadOptions::default(), b"k"),
        Err(RainDBError::KeyNotFound)
    );

    // Compact H. Its parent level inputs are F1 and the boundary file F2. The inputs are grown to
    // {G, H} + {F0, F1}: F2 is lost, the tombstone at the end of F1 is dropped.
    db.compact_range(Some(b"j".as_slice())..Some(b"j".as_slice()));
    eprintln!(
        "after the compaction:\n{}",
        db.get_descriptor(DatabaseDescriptor::SSTables).unwrap()
    );

    // No write happened in between, but the read result changed: the deleted key is back
    assert_eq!(
        db.get(ReadOptions::default(), b"k"),
        Err(RainDBError::KeyNotFound),
        "the key was deleted (acknowledged) before; a get must not return the superseded value"
    );
}
