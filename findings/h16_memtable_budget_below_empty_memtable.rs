// Plain public-API reproduction (no hooks, no harness) of defect H16.
//
// `DB::make_room_for_write` decides "there is room" only by comparing the memtable's approximate
// memory usage with `DbOptions::max_memtable_size`. A freshly created (empty) skip-list memtable
// already reports about 170 bytes, so with a budget below that an *empty* memtable counts as full:
// the loop rotates it (new WAL file, empty flush), looks again, finds the new empty memtable "full"
// as well, and so on for ever. Every put / delete / apply on such a database never returns (C09:
// "returns in bounded time for every workload, configuration and thread interleaving").
//
// Found by the sequence family `F-fill/M0` (configuration with a one-byte memtable budget):
// `C09.livelock` after the single operation ["put c"].
// Drop into /repo/tests/ and run `cargo test --test h16_memtable_budget_below_empty_memtable`.
use std::sync::{mpsc, Arc};
use std::time::Duration;

use raindb::fs::{FileSystem, InMemoryFileSystem};
use raindb::{DbOptions, ReadOptions, WriteOptions, DB};

#[test]
fn a_write_returns_even_if_the_memtable_budget_is_below_an_empty_memtable() {
    let fs: Arc<dyn FileSystem> = Arc::new(InMemoryFileSystem::new());
    let (tx, rx) = mpsc::channel();
    std::thread::spawn(move || {
        let db = DB::open(DbOptions {
            filesystem_provider: fs,
            create_if_missing: true,
            max_memtable_size: 1,
            ..DbOptions::default()
        })
        .unwrap();
        for i in 0..5u8 {
            db.put(WriteOptions::default(), vec![b'k', i], vec![b'v', i]).unwrap();
        }
        db.delete(WriteOptions::default(), vec![b'k', 0]).unwrap();
        let mut seen = vec![];
        for i in 0..5u8 {
            seen.push(db.get(ReadOptions::default(), &[b'k', i]).ok());
        }
        tx.send(seen).unwrap();
    });
    let seen = rx
        .recv_timeout(Duration::from_secs(20))
        .expect("writes into a database whose memtable budget is 1 byte did not return within 20 s");
    assert_eq!(seen, vec![None, Some(vec![b'v', 1]), Some(vec![b'v', 2]), Some(vec![b'v', 3]), Some(vec![b'v', 4])]);
}
