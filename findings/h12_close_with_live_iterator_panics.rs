// Plain public-API reproduction (no hooks, no harness) of defect H12:
// `Drop for DB` did `Arc::get_mut(&mut self.compaction_worker).unwrap()`. A `DatabaseIterator`
// holds a clone of that `Arc` (and nothing in the API ties its lifetime to the `DB`), so closing
// the database while an iterator is alive panicked inside `drop`.
// Drop into /repo/tests/ and run `cargo test --test h12_close_with_live_iterator_panics`.
use raindb::{DbOptions, RainDbIterator, ReadOptions, WriteOptions, DB};

#[test]
fn closing_the_database_while_an_iterator_is_alive_does_not_panic() {
    let mut options = DbOptions::with_memory_env();
    options.create_if_missing = true;
    options.db_path = "/h12".to_string();
    let db = DB::open(options).unwrap();
    db.put(WriteOptions::default(), b"k".to_vec(), b"v".to_vec()).unwrap();
    let mut iter = db.new_iterator(ReadOptions::default()).unwrap();
    drop(db); // must return
    iter.seek_to_first().unwrap();
    assert!(iter.is_valid());
    assert_eq!(iter.current().map(|(k, v)| (k.clone(), v.clone())), Some((b"k".to_vec(), b"v".to_vec())));
}
