// Plain public-API reproduction (no hooks, no harness) of defect H21:
// `lock_file` opens (creates) the LOCK path and then locks the open file. `destroy_database` unlinks
// LOCK while it holds the lock and then releases it. A `DB::open` that opened LOCK just before the
// unlink and locks it just after the destroyer's release gets an exclusive lock on an orphaned file:
// it returns Ok, and so does the next `DB::open`, which creates and locks a new LOCK - two live owners
// of one directory. The window lies between two system calls inside `lock_file`, so the test is a
// stress loop (it failed in 11 of 11 runs within 1.6 s on the unrepaired tree; budget
// `C17_RACE_BUDGET_SECS`, default 180 s). Written by the C17 defect-hunting sub-agent against the
// unmodified tree; only this header was added.
// Drop into /repo/tests/ and run `cargo test --test h21_open_racing_destroy_two_owners`.
//! C17: at no time may two `DB` handles own the same database directory.
//!
//! `DB::destroy_database` takes the `LOCK` file, deletes everything, *unlinks* `LOCK` and then
//! releases the flock. `FileSystem::lock_file` (src/fs/fs_disk.rs) is `open(LOCK, O_CREAT|O_TRUNC)`
//! followed by `flock(LOCK_EX|LOCK_NB)` and never checks that the inode it locked is still the one
//! the path `LOCK` names. A `DB::open` that resolved `LOCK` to the old inode just before the
//! unlink and calls `flock` just after the destroyer's unlock gets an exclusive lock on an
//! orphaned (unlinked) inode and goes on to own the directory. The next `DB::open` creates a
//! fresh `LOCK` inode, locks that one just as successfully => two live owners of one directory.
//!
//! The interleaving lives between two adjacent system calls inside `lock_file`, so it cannot be
//! forced completely with a `FileSystem` wrapper. The wrapper used here only holds the destroyer
//! back right before it unlinks `LOCK` until every opener thread is busy retrying `DB::open`
//! (each got refused at least once); the test repeats such a "destroy vs. several opens" round
//! until it sees two simultaneously live handles (or gives up after a time budget and passes).
//! On the machine it was written on it fails within the first second (a few dozen rounds).

use std::io;
use std::path::{Path, PathBuf};
use std::sync::atomic::{AtomicBool, AtomicU64, Ordering};
use std::sync::{Arc, Barrier};
use std::thread;
use std::time::{Duration, Instant};

use raindb::fs::{
    FileLock, FileSystem, RandomAccessFile, ReadonlyRandomAccessFile, TmpFileSystem,
};
use raindb::{DbOptions, ReadOptions, WriteOptions, DB};

const NUM_OPENERS: usize = 4;

/// Delegates everything to a [`TmpFileSystem`]. Counts refused `lock_file` calls and delays the
/// unlink of `LOCK` until the openers are retrying.
struct CountingFs {
    inner: TmpFileSystem,
    refused_locks: AtomicU64,
}

impl FileSystem for CountingFs {
    fn get_name(&self) -> String {
        "CountingFs".to_string()
    }
    fn create_dir(&self, path: &Path) -> io::Result<()> {
        self.inner.create_dir(path)
    }
    fn create_dir_all(&self, path: &Path) -> io::Result<()> {
        self.inner.create_dir_all(path)
    }
    fn list_dir(&self, path: &Path) -> io::Result<Vec<PathBuf>> {
        self.inner.list_dir(path)
    }
    fn open_file(&self, path: &Path) -> io::Result<Box<dyn ReadonlyRandomAccessFile>> {
        self.inner.open_file(path)
    }
    fn rename(&self, from: &Path, to: &Path) -> io::Result<()> {
        self.inner.rename(from, to)
    }
    fn create_file(&self, path: &Path, append: bool) -> io::Result<Box<dyn RandomAccessFile>> {
        self.inner.create_file(path, append)
    }
    fn remove_file(&self, path: &Path) -> io::Result<()> {
        if path.ends_with("LOCK") {
            // Only `destroy_database` removes `LOCK`. Wait (bounded) until every opener was
            // refused once more i.e. they are all spinning on `DB::open`.
            let seen = self.refused_locks.load(Ordering::SeqCst);
            let give_up = Instant::now() + Duration::from_millis(100);
            while self.refused_locks.load(Ordering::SeqCst) < seen + 2 * NUM_OPENERS as u64
                && Instant::now() < give_up
            {
                std::hint::spin_loop();
            }
        }
        self.inner.remove_file(path)
    }
    fn remove_dir(&self, path: &Path) -> io::Result<()> {
        self.inner.remove_dir(path)
    }
    fn remove_dir_all(&self, path: &Path) -> io::Result<()> {
        self.inner.remove_dir_all(path)
    }
    fn get_file_size(&self, path: &Path) -> io::Result<u64> {
        self.inner.get_file_size(path)
    }
    fn is_dir(&self, path: &Path) -> io::Result<bool> {
        self.inner.is_dir(path)
    }
    fn lock_file(&self, path: &Path) -> io::Result<FileLock> {
        let result = self.inner.lock_file(path);
        if result.is_err() {
            self.refused_locks.fetch_add(1, Ordering::SeqCst);
        }
        result
    }
}

fn budget() -> Duration {
    let secs = std::env::var("C17_RACE_BUDGET_SECS")
        .ok()
        .and_then(|s| s.parse::<u64>().ok())
        .unwrap_or(180);
    Duration::from_secs(secs)
}

#[test]
fn open_racing_with_destroy_never_yields_two_owners() {
    // Every refused `DB::open` panics its orphaned worker thread (a separate finding). Keep the
    // output readable by not printing exactly that panic; everything else is printed as usual.
    let default_hook = std::panic::take_hook();
    std::panic::set_hook(Box::new(move |info| {
        let is_orphan_worker = thread::current().name() == Some("raindb-tumtum")
            && info.to_string().contains("RecvError");
        if !is_orphan_worker {
            default_hook(info);
        }
    }));

    let tmp_fs = TmpFileSystem::new(None);
    let db_path = tmp_fs.get_root_path().join("db");
    let fs: Arc<dyn FileSystem> = Arc::new(CountingFs {
        inner: tmp_fs,
        refused_locks: AtomicU64::new(0),
    });
    let options = DbOptions {
        filesystem_provider: Arc::clone(&fs),
        create_if_missing: true,
        db_path: db_path.to_str().unwrap().to_owned(),
        ..DbOptions::default()
    };

    let start = Instant::now();
    let mut round: u64 = 0;
    let mut destroys_ok: u64 = 0;
    while start.elapsed() < budget() {
        round += 1;

        // A closed database exists at the path.
        match DB::open(options.clone()) {
            Ok(db) => {
                db.put(WriteOptions::default(), b"k".to_vec(), b"v".to_vec())
                    .unwrap();
                drop(db);
            }
            Err(err) => panic!("round {round}: sequential open failed: {err}"),
        }

        let barrier = Arc::new(Barrier::new(NUM_OPENERS + 1));
        let stop = Arc::new(AtomicBool::new(false));

        let destroyer = {
            let barrier = Arc::clone(&barrier);
            let options = options.clone();
            thread::spawn(move || {
                barrier.wait();
                if std::env::var("C17_CONTROL_NO_DESTROY").is_ok() {
                    // Control experiment: racing opens alone never yield two owners.
                    thread::sleep(Duration::from_millis(1));
                    return Ok(());
                }
                DB::destroy_database(options)
            })
        };

        let openers: Vec<thread::JoinHandle<Option<DB>>> = (0..NUM_OPENERS)
            .map(|idx| {
                let barrier = Arc::clone(&barrier);
                let stop = Arc::clone(&stop);
                let options = options.clone();
                thread::spawn(move || {
                    barrier.wait();
                    // Let the destroyer get the lock first most of the time.
                    thread::sleep(Duration::from_micros(30 * (idx as u64 + 1)));
                    while !stop.load(Ordering::Acquire) {
                        if let Ok(db) = DB::open(options.clone()) {
                            // Keep the handle alive: it is only dropped by the main thread after
                            // every opener was joined.
                            return Some(db);
                        }
                    }
                    None
                })
            })
            .collect();

        if destroyer.join().unwrap().is_ok() {
            destroys_ok += 1;
        }
        thread::sleep(Duration::from_millis(2));
        stop.store(true, Ordering::Release);

        let handles: Vec<DB> = openers
            .into_iter()
            .filter_map(|opener| opener.join().unwrap())
            .collect();

        if handles.len() >= 2 {
            // Both handles are alive right now and both work.
            for (idx, db) in handles.iter().enumerate() {
                let write_result = db.put(
                    WriteOptions::default(),
                    format!("owner{idx}").into_bytes(),
                    b"x".to_vec(),
                );
                eprintln!("handle {idx}: put -> {write_result:?}");
                let _ = db.get(ReadOptions::default(), b"k");
            }
            // Diagnostics (Linux): the lock files this process holds open right now. One of them
            // is an unlinked inode ("LOCK (deleted)"), the other one is the fresh `LOCK`.
            if let Ok(fds) = std::fs::read_dir("/proc/self/fd") {
                for fd in fds.flatten() {
                    if let Ok(target) = std::fs::read_link(fd.path()) {
                        if target.to_string_lossy().contains("/db/LOCK") {
                            eprintln!("open fd {:?} -> {:?}", fd.file_name(), target);
                        }
                    }
                }
            }
            panic!(
                "round {round} (after {:?}, {destroys_ok} successful destroys): {} DB handles for \
                 the same path {:?} were opened successfully and are alive at the same time",
                start.elapsed(),
                handles.len(),
                db_path
            );
        }

        drop(handles);
    }

    eprintln!(
        "no double owner seen in {round} rounds ({destroys_ok} successful destroys) within {:?}",
        budget()
    );
}
