// Plain public-API reproduction (no hooks, no harness) of defect H2:
// `VersionSet::write_snapshot` recorded every file of a fresh manifest with its bounds swapped
// (`largest..smallest`); after the next reopen the table's data is unreachable.
// Drop into /repo/tests/ and run `cargo test --test h2_manifest_snapshot_swapped_bounds`.
use std::sync::Arc;

use raindb::fs::{FileSystem, InMemoryFileSystem};
use raindb::{DbOptions, ReadOptions, WriteOptions, DB};

fn options(fs: &Arc<InMemoryFileSystem>) -> DbOptions {
    let mut options = DbOptions::with_memory_env();
    options.filesystem_provider = Arc::clone(fs) as Arc<dyn FileSystem>;
    options.create_if_missing = true;
    options.reuse_log_files = false;
    options.db_path = "/h2".to_string();
    options
}

#[test]
fn data_survives_two_reopens_without_log_reuse() {
    let fs = Arc::new(InMemoryFileSystem::new());
    {
        let db = DB::open(options(&fs)).unwrap();
        let mut batch = raindb::Batch::new();
        batch.add_put(b"c".to_vec(), b"1".to_vec());
        batch.add_put(b"e".to_vec(), b"2".to_vec());
        db.apply(WriteOptions::default(), batch).unwrap();
        let z = [0xffu8, 0xff, 0xff];
        db.compact_range(Some(&z[..])..Some(&z[..]));
    }
    {
        let _db = DB::open(options(&fs)).unwrap();
    }
    let db = DB::open(options(&fs)).unwrap();
    let got = db.get(ReadOptions::default(), b"c");
    assert_eq!(got.ok(), Some(b"1".to_vec()));
}
