// Plain public-API reproduction (no hooks, no harness) of defect H9:
// with `reuse_log_files = true` (the default) recovery re-opened the last WAL for appending even
// when it ended in a torn write. The new records were written behind the partial bytes, where the
// reader (which stops at them) can never find them: writes acknowledged after the recovery were
// gone after the next clean reopen.
// Drop into /repo/tests/ and run `cargo test --test h9_wal_reused_after_torn_tail`.
use std::io::{Read, Result, Seek, SeekFrom, Write};
use std::path::{Path, PathBuf};
use std::sync::atomic::{AtomicUsize, Ordering};
use std::sync::Arc;

use raindb::fs::{FileLock, FileSystem, InMemoryFileSystem, RandomAccessFile, ReadonlyRandomAccessFile};
use raindb::{DbOptions, ReadOptions, WriteOptions, DB};

/// Passes everything through to an in-memory filesystem, but of the first write to a write-ahead
/// log only `keep` bytes reach the file and all later WAL writes are lost: a torn final write.
struct TornFs {
    inner: Arc<InMemoryFileSystem>,
    wal_writes: Arc<AtomicUsize>,
    keep: usize,
}

struct TornFile {
    inner: Box<dyn RandomAccessFile>,
    is_wal: bool,
    wal_writes: Arc<AtomicUsize>,
    keep: usize,
}

impl TornFile {
    fn cut<'a>(&self, buf: &'a [u8]) -> Option<&'a [u8]> {
        if !self.is_wal {
            return Some(buf);
        }
        match self.wal_writes.fetch_add(1, Ordering::SeqCst) {
            0 => Some(&buf[..self.keep.min(buf.len())]),
            _ => None,
        }
    }
}

impl Read for TornFile {
    fn read(&mut self, buf: &mut [u8]) -> Result<usize> {
        self.inner.read(buf)
    }
}
impl Seek for TornFile {
    fn seek(&mut self, pos: SeekFrom) -> Result<u64> {
        self.inner.seek(pos)
    }
}
impl Write for TornFile {
    fn write(&mut self, buf: &[u8]) -> Result<usize> {
        if let Some(part) = self.cut(buf) {
            self.inner.write_all(part)?;
        }
        Ok(buf.len())
    }
    fn flush(&mut self) -> Result<()> {
        self.inner.flush()
    }
}
impl ReadonlyRandomAccessFile for TornFile {
    fn read_from(&self, buf: &mut [u8], offset: usize) -> Result<usize> {
        self.inner.read_from(buf, offset)
    }
    fn len(&self) -> Result<u64> {
        self.inner.len()
    }
}
impl RandomAccessFile for TornFile {
    fn append(&mut self, buf: &[u8]) -> Result<usize> {
        if let Some(part) = self.cut(buf) {
            self.inner.append(part)?;
        }
        Ok(buf.len())
    }
}

impl FileSystem for TornFs {
    fn get_name(&self) -> String {
        "TornFs".into()
    }
    fn create_dir(&self, p: &Path) -> Result<()> {
        self.inner.create_dir(p)
    }
    fn create_dir_all(&self, p: &Path) -> Result<()> {
        self.inner.create_dir_all(p)
    }
    fn list_dir(&self, p: &Path) -> Result<Vec<PathBuf>> {
        self.inner.list_dir(p)
    }
    fn open_file(&self, p: &Path) -> Result<Box<dyn ReadonlyRandomAccessFile>> {
        self.inner.open_file(p)
    }
    fn rename(&self, a: &Path, b: &Path) -> Result<()> {
        self.inner.rename(a, b)
    }
    fn create_file(&self, p: &Path, append: bool) -> Result<Box<dyn RandomAccessFile>> {
        let is_wal = p.extension().map(|e| e == "log").unwrap_or(false);
        Ok(Box::new(TornFile {
            inner: self.inner.create_file(p, append)?,
            is_wal,
            wal_writes: Arc::clone(&self.wal_writes),
            keep: self.keep,
        }))
    }
    fn remove_file(&self, p: &Path) -> Result<()> {
        self.inner.remove_file(p)
    }
    fn remove_dir(&self, p: &Path) -> Result<()> {
        self.inner.remove_dir(p)
    }
    fn remove_dir_all(&self, p: &Path) -> Result<()> {
        self.inner.remove_dir_all(p)
    }
    fn get_file_size(&self, p: &Path) -> Result<u64> {
        self.inner.get_file_size(p)
    }
    fn is_dir(&self, p: &Path) -> Result<bool> {
        self.inner.is_dir(p)
    }
    fn lock_file(&self, p: &Path) -> Result<FileLock> {
        self.inner.lock_file(p)
    }
}

fn options(fs: Arc<dyn FileSystem>) -> DbOptions {
    let mut options = DbOptions::with_memory_env();
    options.filesystem_provider = fs;
    options.create_if_missing = true;
    options.reuse_log_files = true;
    options.db_path = "/h9".to_string();
    options
}

#[test]
fn writes_acknowledged_after_recovering_from_a_torn_wal_tail_survive_reopen() {
    for keep in [1usize, 3, 6, 7, 12] {
        let mem = Arc::new(InMemoryFileSystem::new());
        {
            let torn_fs = Arc::new(TornFs {
                inner: Arc::clone(&mem),
                wal_writes: Arc::new(AtomicUsize::new(0)),
                keep,
            });
            let db = DB::open(options(torn_fs)).unwrap();
            let _ = db.put(WriteOptions::default(), b"lost".to_vec(), b"unacknowledged".to_vec());
        }
        {
            let db = DB::open(options(Arc::clone(&mem) as Arc<dyn FileSystem>)).unwrap();
            db.put(WriteOptions::default(), b"x".to_vec(), b"1".to_vec()).unwrap();
        }
        let db = DB::open(options(Arc::clone(&mem) as Arc<dyn FileSystem>)).unwrap();
        assert_eq!(
            db.get(ReadOptions::default(), b"x").ok(),
            Some(b"1".to_vec()),
            "torn tail of {} bytes: the write acknowledged after recovery is gone",
            keep
        );
    }
}
