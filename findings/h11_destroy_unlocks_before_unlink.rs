// Plain public-API reproduction (no hooks, no harness) of defect H11:
// `DB::destroy_database` released its lock on LOCK and only then unlinked the LOCK file. An open
// landing between the two steps locks the about-to-be-unlinked file; a second open then creates
// and locks a fresh LOCK file: two live handles on one database path.
// The interleaving is forced by a filesystem wrapper that runs a callback right before the LOCK
// file is removed. Drop into /repo/tests/ and run
// `cargo test --test h11_destroy_unlocks_before_unlink`.
use std::io::Result;
use std::path::{Path, PathBuf};
use std::sync::{Arc, Mutex};

use raindb::fs::{FileLock, FileSystem, RandomAccessFile, ReadonlyRandomAccessFile, TmpFileSystem};
use raindb::{DbOptions, WriteOptions, DB};

struct HookFs {
    inner: TmpFileSystem,
    before_lock_removal: Mutex<Option<Box<dyn FnOnce() + Send>>>,
}

impl FileSystem for HookFs {
    fn get_name(&self) -> String {
        "HookFs".into()
    }
    fn create_dir(&self, p: &Path) -> Result<()> {
        self.inner.create_dir(p)
    }
    fn create_dir_all(&self, p: &Path) -> Result<()> {
        self.inner.create_dir_all(p)
    }
    fn list_dir(&self, p: &Path) -> Result<Vec<PathBuf>> {
        self.inner.list_dir(p)
    }
    fn open_file(&self, p: &Path) -> Result<Box<dyn ReadonlyRandomAccessFile>> {
        self.inner.open_file(p)
    }
    fn rename(&self, a: &Path, b: &Path) -> Result<()> {
        self.inner.rename(a, b)
    }
    fn create_file(&self, p: &Path, append: bool) -> Result<Box<dyn RandomAccessFile>> {
        self.inner.create_file(p, append)
    }
    fn remove_file(&self, p: &Path) -> Result<()> {
        if p.file_name().map(|n| n == "LOCK").unwrap_or(false) {
            let hook = self.before_lock_removal.lock().unwrap().take();
            if let Some(hook) = hook {
                hook();
            }
        }
        self.inner.remove_file(p)
    }
    fn remove_dir(&self, p: &Path) -> Result<()> {
        self.inner.remove_dir(p)
    }
    fn remove_dir_all(&self, p: &Path) -> Result<()> {
        self.inner.remove_dir_all(p)
    }
    fn get_file_size(&self, p: &Path) -> Result<u64> {
        self.inner.get_file_size(p)
    }
    fn is_dir(&self, p: &Path) -> Result<bool> {
        self.inner.is_dir(p)
    }
    fn lock_file(&self, p: &Path) -> Result<FileLock> {
        self.inner.lock_file(p)
    }
}

fn options(fs: &Arc<HookFs>) -> DbOptions {
    let mut options = DbOptions::with_memory_env();
    options.filesystem_provider = Arc::clone(fs) as Arc<dyn FileSystem>;
    options.create_if_missing = true;
    options.db_path = fs.inner.get_root_path().join("db").to_str().unwrap().to_string();
    options
}

#[test]
fn an_open_racing_with_destroy_never_yields_two_owners() {
    let fs = Arc::new(HookFs {
        inner: TmpFileSystem::new(None),
        before_lock_removal: Mutex::new(None),
    });
    {
        let db = DB::open(options(&fs)).unwrap();
        db.put(WriteOptions::default(), b"k".to_vec(), b"v".to_vec()).unwrap();
    }
    let first: Arc<Mutex<Option<DB>>> = Arc::new(Mutex::new(None));
    let (fs2, first2) = (Arc::clone(&fs), Arc::clone(&first));
    *fs.before_lock_removal.lock().unwrap() = Some(Box::new(move || {
        // what a concurrent thread could do at this very moment
        if let Ok(db) = DB::open(options(&fs2)) {
            *first2.lock().unwrap() = Some(db);
        }
    }));
    let _ = DB::destroy_database(options(&fs));
    let first_handle = first.lock().unwrap().take();
    let second = DB::open(options(&fs));
    assert!(
        !(first_handle.is_some() && second.is_ok()),
        "two successfully opened handles on the same database path are alive at the same time"
    );
}
