// Plain public-API reproduction (no hooks, no harness) of defects H5 and H6:
//  H5: `DB::apply_changes` ended with `Ok(())` instead of the write result, so a put whose WAL
//      append failed (or whose `make_room_for_write` failed) reported success although nothing was
//      written.
//  H6: `VersionSet::log_and_apply` fell through to `Ok(())` when the manifest write failed; the
//      flush then dropped the immutable memtable although the new table was never installed:
//      acknowledged data silently reads as KeyNotFound (and obsolete-file removal proceeds as if
//      the new version existed: a failed CURRENT switch leaves CURRENT pointing at a manifest
//      that is then deleted, so the database cannot be opened any more).
// Drop into /repo/tests/ and run `cargo test --test h5_h6_swallowed_io_errors`.
use std::io::{Error, ErrorKind, Read, Result, Seek, SeekFrom, Write};
use std::path::{Path, PathBuf};
use std::sync::atomic::{AtomicBool, Ordering};
use std::sync::Arc;

use raindb::fs::{FileLock, FileSystem, InMemoryFileSystem, RandomAccessFile, ReadonlyRandomAccessFile};
use raindb::{DbOptions, ReadOptions, WriteOptions, DB};

/// Passes everything through to an in-memory filesystem; while `failing` is set every write to a
/// file with extension `ext` fails.
struct FaultFs {
    inner: Arc<InMemoryFileSystem>,
    failing: Arc<AtomicBool>,
    ext: &'static str,
}

struct FaultFile {
    inner: Box<dyn RandomAccessFile>,
    hit: bool,
    failing: Arc<AtomicBool>,
}

impl FaultFile {
    fn gate(&self) -> Result<()> {
        if self.hit && self.failing.load(Ordering::SeqCst) {
            return Err(Error::new(ErrorKind::Other, "injected write failure"));
        }
        Ok(())
    }
}

impl Read for FaultFile {
    fn read(&mut self, buf: &mut [u8]) -> Result<usize> {
        self.inner.read(buf)
    }
}
impl Seek for FaultFile {
    fn seek(&mut self, pos: SeekFrom) -> Result<u64> {
        self.inner.seek(pos)
    }
}
impl Write for FaultFile {
    fn write(&mut self, buf: &[u8]) -> Result<usize> {
        self.gate()?;
        self.inner.write(buf)
    }
    fn flush(&mut self) -> Result<()> {
        self.inner.flush()
    }
}
impl ReadonlyRandomAccessFile for FaultFile {
    fn read_from(&self, buf: &mut [u8], offset: usize) -> Result<usize> {
        self.inner.read_from(buf, offset)
    }
    fn len(&self) -> Result<u64> {
        self.inner.len()
    }
}
impl RandomAccessFile for FaultFile {
    fn append(&mut self, buf: &[u8]) -> Result<usize> {
        self.gate()?;
        self.inner.append(buf)
    }
}

impl FileSystem for FaultFs {
    fn get_name(&self) -> String {
        "FaultFs".into()
    }
    fn create_dir(&self, p: &Path) -> Result<()> {
        self.inner.create_dir(p)
    }
    fn create_dir_all(&self, p: &Path) -> Result<()> {
        self.inner.create_dir_all(p)
    }
    fn list_dir(&self, p: &Path) -> Result<Vec<PathBuf>> {
        self.inner.list_dir(p)
    }
    fn open_file(&self, p: &Path) -> Result<Box<dyn ReadonlyRandomAccessFile>> {
        self.inner.open_file(p)
    }
    fn rename(&self, a: &Path, b: &Path) -> Result<()> {
        self.inner.rename(a, b)
    }
    fn create_file(&self, p: &Path, append: bool) -> Result<Box<dyn RandomAccessFile>> {
        let hit = p.extension().map(|e| e == self.ext).unwrap_or(false);
        Ok(Box::new(FaultFile {
            inner: self.inner.create_file(p, append)?,
            hit,
            failing: Arc::clone(&self.failing),
        }))
    }
    fn remove_file(&self, p: &Path) -> Result<()> {
        self.inner.remove_file(p)
    }
    fn remove_dir(&self, p: &Path) -> Result<()> {
        self.inner.remove_dir(p)
    }
    fn remove_dir_all(&self, p: &Path) -> Result<()> {
        self.inner.remove_dir_all(p)
    }
    fn get_file_size(&self, p: &Path) -> Result<u64> {
        self.inner.get_file_size(p)
    }
    fn is_dir(&self, p: &Path) -> Result<bool> {
        self.inner.is_dir(p)
    }
    fn lock_file(&self, p: &Path) -> Result<FileLock> {
        self.inner.lock_file(p)
    }
}

fn options(fs: Arc<dyn FileSystem>, path: &str) -> DbOptions {
    let mut options = DbOptions::with_memory_env();
    options.filesystem_provider = fs;
    options.create_if_missing = true;
    options.db_path = path.to_string();
    options
}

#[test]
fn h5_put_reports_a_failed_wal_append() {
    let mem = Arc::new(InMemoryFileSystem::new());
    let failing = Arc::new(AtomicBool::new(false));
    let fs = Arc::new(FaultFs {
        inner: Arc::clone(&mem),
        failing: Arc::clone(&failing),
        ext: "log",
    });
    let db = DB::open(options(fs, "/h5")).unwrap();
    failing.store(true, Ordering::SeqCst);
    let result = db.put(WriteOptions::default(), b"k".to_vec(), b"v".to_vec());
    let visible = db.get(ReadOptions::default(), b"k").is_ok();
    assert!(
        result.is_err() || visible,
        "put returned Ok although the WAL append failed, and the value is not readable"
    );
}

#[test]
fn h6_flush_does_not_discard_data_when_the_manifest_write_fails() {
    let mem = Arc::new(InMemoryFileSystem::new());
    let failing = Arc::new(AtomicBool::new(false));
    let fs = Arc::new(FaultFs {
        inner: Arc::clone(&mem),
        failing: Arc::clone(&failing),
        ext: "manifest",
    });
    let db = DB::open(options(fs, "/h6")).unwrap();
    db.put(WriteOptions::default(), b"k".to_vec(), b"v".to_vec()).unwrap();
    failing.store(true, Ordering::SeqCst);
    let z = [0xffu8, 0xff, 0xff];
    db.compact_range(Some(&z[..])..Some(&z[..])); // flush: the manifest append fails
    failing.store(false, Ordering::SeqCst);
    // the new table was never recorded, so the immutable memtable must still serve the read
    let got = db.get(ReadOptions::default(), b"k");
    assert!(
        !matches!(got, Err(raindb::RainDBError::KeyNotFound)),
        "the acknowledged write became invisible after a flush whose manifest write failed"
    );
}
