// Plain public-API reproduction (no hooks, no harness) of defect H22:
// `DB::open` spawns the compaction thread before it takes the lock. When the open fails afterwards
// (the lock is held by another handle, recovery fails, error_if_exists ...), the only sender of the
// thread's task channel is dropped and the thread panicked in `receiver.recv().unwrap()` - a panic in
// the process of whoever made the attempt, which may be the process that owns the database (fatal
// with panic = "abort" or an aborting panic hook).
// Written by the C17 defect-hunting sub-agent against the unmodified tree; only this header was added.
// Drop into /repo/tests/ and run `cargo test --test h22_failed_open_panics_worker`.
//! C17: a second `DB::open` on a path that is already open must fail with an error and must not
//! disturb the process / the running instance.
//!
//! `DB::open` spawns its compaction worker thread *before* it tries to take the `LOCK` file. When the
//! lock cannot be taken, `open` returns through `?`, the only `SyncSender` of the worker is dropped
//! and the already running worker thread hits `receiver.recv().unwrap()` in
//! `CompactionWorker::new` => the background thread `raindb-tumtum` panics
//! (`called Result::unwrap() on an Err value: RecvError`). With `panic = "abort"` (or a panic hook
//! that aborts, which is common for servers) this kills the whole process, i.e. the running owner
//! of the database, just because somebody tried to open the same path a second time.
//!
//! The test installs a panic hook that records every panic (thread name + message) and asserts
//! that a refused second open does not make any thread panic.

use std::sync::{Arc, Mutex};
use std::time::{Duration, Instant};

use raindb::fs::{FileSystem, TmpFileSystem};
use raindb::{DbOptions, ReadOptions, WriteOptions, DB};

#[test]
fn refused_second_open_does_not_panic_a_background_thread() {
    let recorded: Arc<Mutex<Vec<String>>> = Arc::new(Mutex::new(Vec::new()));
    {
        let recorded = Arc::clone(&recorded);
        std::panic::set_hook(Box::new(move |info| {
            let thread = std::thread::current();
            let name = thread.name().unwrap_or("<unnamed>").to_string();
            recorded.lock().unwrap().push(format!("thread '{}': {}", name, info));
        }));
    }

    let tmp_fs = TmpFileSystem::new(None);
    let db_path = tmp_fs.get_root_path().join("db");
    let fs: Arc<dyn FileSystem> = Arc::new(tmp_fs);
    let options = DbOptions {
        filesystem_provider: Arc::clone(&fs),
        create_if_missing: true,
        db_path: db_path.to_str().unwrap().to_owned(),
        ..DbOptions::default()
    };

    let db = DB::open(options.clone()).expect("first open succeeds");
    db.put(WriteOptions::default(), b"k".to_vec(), b"v".to_vec())
        .unwrap();

    // Second open of the same path while the first handle is alive: must be refused...
    let second = DB::open(options.clone());
    assert!(second.is_err(), "a second open of an open database must fail");
    drop(second);

    // ...and the running instance is still fine.
    assert_eq!(db.get(ReadOptions::default(), b"k").unwrap(), b"v".to_vec());

    // Give the orphaned worker thread of the refused open time to run.
    let deadline = Instant::now() + Duration::from_secs(3);
    while Instant::now() < deadline && recorded.lock().unwrap().is_empty() {
        std::thread::sleep(Duration::from_millis(20));
    }

    let panics = recorded.lock().unwrap().clone();
    let _ = std::panic::take_hook();
    drop(db);
    assert!(
        panics.is_empty(),
        "a refused DB::open made a thread of the process panic: {:?}",
        panics
    );
}
