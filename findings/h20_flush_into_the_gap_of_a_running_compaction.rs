// Plain public-API reproduction (no hooks, no harness) of defect H20:
// a memtable that is flushed in the middle of a table compaction (the compaction thread does that
// itself, between two entries of its merge loop) got its level from the files of the *current
// version* only. The outputs of the running compaction are in no version yet, and an output can span
// key ranges that none of its inputs cover - the gap between two input files. Here level 1 holds
// [a] and [e] above older [a] and [e] on level 2; a manual compaction merges them into level 2 as one
// table [a..e]; the writer's key "c" overlaps nothing, so its memtable is placed on level 2 - and the
// compaction's result then overlaps it: the version builder's assertion fails on the compaction
// thread ("Attempting to add file ... created an overlap"), the thread is gone, the waiting
// compact_range and every later writer that needs a flush wait for ever.
// (The filesystem wrapper is the one of findings/h19; its manifest part is not used here.)
// Drop into /repo/tests/ and run `cargo test --test h20_flush_into_the_gap_of_a_running_compaction`.
use std::io::{self, Read, Seek, SeekFrom, Write};
use std::path::{Path, PathBuf};
use std::sync::atomic::{AtomicBool, AtomicUsize, Ordering};
use std::sync::{Arc, Condvar, Mutex};
use std::thread;
use std::time::Duration;

use raindb::fs::{
    FileLock, FileSystem, InMemoryFileSystem, RandomAccessFile, ReadonlyRandomAccessFile,
};
use raindb::{DbOptions, ReadOptions, WriteOptions, DB};

const DB_PATH: &str = "/probe_db";

#[derive(Default)]
struct Control {
    /// Block the next creation of a table file until released.
    block_next_table_create: AtomicBool,
    blocked: Mutex<bool>,
    blocked_cv: Condvar,
    release: Mutex<bool>,
    release_cv: Condvar,
    /// Fail the next manifest write after writing half of it.
    tear_next_manifest_write: AtomicBool,
    torn_writes: AtomicUsize,
    manifest_writes_after_tear: AtomicUsize,
}

struct ProbeFs {
    inner: InMemoryFileSystem,
    control: Arc<Control>,
}

struct ManifestFile {
    inner: Box<dyn RandomAccessFile>,
    control: Arc<Control>,
}

impl Read for ManifestFile {
    fn read(&mut self, buf: &mut [u8]) -> io::Result<usize> {
        self.inner.read(buf)
    }
}
impl Seek for ManifestFile {
    fn seek(&mut self, pos: SeekFrom) -> io::Result<u64> {
        self.inner.seek(pos)
    }
}
impl Write for ManifestFile {
    fn write(&mut self, buf: &[u8]) -> io::Result<usize> {
        if self
            .control
            .tear_next_manifest_write
            .swap(false, Ordering::SeqCst)
        {
            self.inner.write_all(&buf[..buf.len() / 2])?;
            self.control.torn_writes.fetch_add(1, Ordering::SeqCst);
            return Err(io::Error::new(io::ErrorKind::Other, "injected torn write"));
        }
        if self.control.torn_writes.load(Ordering::SeqCst) > 0 {
            self.control
                .manifest_writes_after_tear
                .fetch_add(1, Ordering::SeqCst);
        }
        self.inner.write(buf)
    }
    fn flush(&mut self) -> io::Result<()> {
        self.inner.flush()
    }
}
impl ReadonlyRandomAccessFile for ManifestFile {
    fn read_from(&self, buf: &mut [u8], offset: usize) -> io::Result<usize> {
        self.inner.read_from(buf, offset)
    }
    fn len(&self) -> io::Result<u64> {
        self.inner.len()
    }
}
impl RandomAccessFile for ManifestFile {
    fn append(&mut self, buf: &[u8]) -> io::Result<usize> {
        self.inner.append(buf)
    }
}

impl FileSystem for ProbeFs {
    fn get_name(&self) -> String {
        "ProbeFs".to_string()
    }
    fn create_dir(&self, path: &Path) -> io::Result<()> {
        self.inner.create_dir(path)
    }
    fn create_dir_all(&self, path: &Path) -> io::Result<()> {
        self.inner.create_dir_all(path)
    }
    fn list_dir(&self, path: &Path) -> io::Result<Vec<PathBuf>> {
        self.inner.list_dir(path)
    }
    fn open_file(&self, path: &Path) -> io::Result<Box<dyn ReadonlyRandomAccessFile>> {
        self.inner.open_file(path)
    }
    fn rename(&self, from: &Path, to: &Path) -> io::Result<()> {
        self.inner.rename(from, to)
    }
    fn create_file(&self, path: &Path, append: bool) -> io::Result<Box<dyn RandomAccessFile>> {
        let name = path.file_name().unwrap().to_string_lossy().to_string();
        if name.ends_with(".rdb")
            && self
                .control
                .block_next_table_create
                .swap(false, Ordering::SeqCst)
        {
            *self.control.blocked.lock().unwrap() = true;
            self.control.blocked_cv.notify_all();
            let mut released = self.control.release.lock().unwrap();
            while !*released {
                released = self.control.release_cv.wait(released).unwrap();
            }
        }
        let file = self.inner.create_file(path, append)?;
        if name.starts_with("MANIFEST") {
            return Ok(Box::new(ManifestFile {
                inner: file,
                control: Arc::clone(&self.control),
            }));
        }
        Ok(file)
    }
    fn remove_file(&self, path: &Path) -> io::Result<()> {
        self.inner.remove_file(path)
    }
    fn remove_dir(&self, path: &Path) -> io::Result<()> {
        self.inner.remove_dir(path)
    }
    fn remove_dir_all(&self, path: &Path) -> io::Result<()> {
        self.inner.remove_dir_all(path)
    }
    fn get_file_size(&self, path: &Path) -> io::Result<u64> {
        self.inner.get_file_size(path)
    }
    fn is_dir(&self, path: &Path) -> io::Result<bool> {
        self.inner.is_dir(path)
    }
    fn lock_file(&self, path: &Path) -> io::Result<FileLock> {
        self.inner.lock_file(path)
    }
}

fn options(fs: &Arc<ProbeFs>) -> DbOptions {
    DbOptions {
        db_path: DB_PATH.to_string(),
        filesystem_provider: Arc::clone(fs) as Arc<dyn FileSystem>,
        create_if_missing: true,
        max_memtable_size: 8 * 1024,
        ..DbOptions::default()
    }
}

fn flush(db: &DB) {
    let nowhere: &[u8] = b"~~~~";
    db.compact_range(Some(nowhere)..Some(nowhere));
}

fn files_at(db: &DB, level: usize) -> String {
    format!("{:?}", db.get_descriptor(raindb::db::DatabaseDescriptor::NumFilesAtLevel(level)))
}

#[test]
fn a_memtable_flushed_during_a_compaction_must_not_land_in_the_key_gap_of_its_output() {
    let control = Arc::new(Control::default());
    let fs = Arc::new(ProbeFs {
        inner: InMemoryFileSystem::new(),
        control: Arc::clone(&control),
    });
    let db = Arc::new(DB::open(options(&fs)).unwrap());
    let put = |key: &str, value: &str| db.put(WriteOptions::default(), key.as_bytes().to_vec(), value.as_bytes().to_vec());

    // level 2: [a] [e]; level 1: newer [a] [e]
    for key in ["a", "a", "e", "e"] {
        put(key, "v").unwrap();
        flush(&db);
    }
    println!("files per level: L0 {} L1 {} L2 {}", files_at(&db, 0), files_at(&db, 1), files_at(&db, 2));

    // the manual compaction of level 1 into level 2 stops where it creates its output table
    control.block_next_table_create.store(true, Ordering::SeqCst);
    let (done_tx, done_rx) = std::sync::mpsc::channel();
    let compactor = {
        let db = Arc::clone(&db);
        thread::spawn(move || {
            db.compact_range(None..None);
            let _ = done_tx.send(());
        })
    };
    {
        let mut blocked = control.blocked.lock().unwrap();
        while !*blocked {
            blocked = control.blocked_cv.wait(blocked).unwrap();
        }
    }

    // the writer fills the memtable with a key from the gap: it is rotated while the compaction is
    // in its merge loop, which flushes it between two entries
    let filler = "x".repeat(1024);
    for _ in 0..12 {
        put("c", &filler).unwrap();
    }
    thread::sleep(Duration::from_millis(50));
    *control.release.lock().unwrap() = true;
    control.release_cv.notify_all();

    let finished = done_rx.recv_timeout(Duration::from_secs(20)).is_ok();
    assert!(finished, "compact_range does not return: the compaction thread is gone (see its panic message above)");
    compactor.join().unwrap();
    assert!(put("after", "x").is_ok());
    assert_eq!(db.get(ReadOptions::default(), b"c").unwrap(), filler.as_bytes().to_vec());
    assert_eq!(db.get(ReadOptions::default(), b"a").unwrap(), b"v".to_vec());
    assert_eq!(db.get(ReadOptions::default(), b"e").unwrap(), b"v".to_vec());
}
