// Plain public-API reproduction (no hooks, no harness) of defect H8/H9:
// `LogReader::read_record` had no First/Middle/Last sequencing. If the process dies after the
// first fragment of a multi-block WAL record reached the file, recovery (reuse_log_files = true)
// appends new records behind the orphan fragment; on the next open the orphan fragment is glued
// to the following record and the acknowledged write is lost or the open fails.
// Drop into /repo/tests/ and run `cargo test --test h8_log_reader_glues_orphan_fragment`.
use std::io::{Read, Result, Seek, SeekFrom, Write};
use std::path::{Path, PathBuf};
use std::sync::atomic::{AtomicUsize, Ordering};
use std::sync::Arc;

use raindb::fs::{FileLock, FileSystem, InMemoryFileSystem, RandomAccessFile, ReadonlyRandomAccessFile};
use raindb::{DbOptions, ReadOptions, WriteOptions, DB};

/// Passes everything through to an in-memory filesystem, but only the first `limit` writes to a
/// write-ahead log reach the file: the "process" dies between two fragments.
struct CrashFs {
    inner: Arc<InMemoryFileSystem>,
    wal_writes: Arc<AtomicUsize>,
    limit: usize,
}

struct CrashFile {
    inner: Box<dyn RandomAccessFile>,
    is_wal: bool,
    wal_writes: Arc<AtomicUsize>,
    limit: usize,
}

impl Read for CrashFile {
    fn read(&mut self, buf: &mut [u8]) -> Result<usize> {
        self.inner.read(buf)
    }
}
impl Seek for CrashFile {
    fn seek(&mut self, pos: SeekFrom) -> Result<u64> {
        self.inner.seek(pos)
    }
}
impl Write for CrashFile {
    fn write(&mut self, buf: &[u8]) -> Result<usize> {
        if self.is_wal && self.wal_writes.fetch_add(1, Ordering::SeqCst) >= self.limit {
            return Ok(buf.len()); // lost in the crash
        }
        self.inner.write(buf)
    }
    fn flush(&mut self) -> Result<()> {
        self.inner.flush()
    }
}
impl ReadonlyRandomAccessFile for CrashFile {
    fn read_from(&self, buf: &mut [u8], offset: usize) -> Result<usize> {
        self.inner.read_from(buf, offset)
    }
    fn len(&self) -> Result<u64> {
        self.inner.len()
    }
}
impl RandomAccessFile for CrashFile {
    fn append(&mut self, buf: &[u8]) -> Result<usize> {
        if self.is_wal && self.wal_writes.fetch_add(1, Ordering::SeqCst) >= self.limit {
            return Ok(buf.len());
        }
        self.inner.append(buf)
    }
}

impl FileSystem for CrashFs {
    fn get_name(&self) -> String {
        "CrashFs".into()
    }
    fn create_dir(&self, p: &Path) -> Result<()> {
        self.inner.create_dir(p)
    }
    fn create_dir_all(&self, p: &Path) -> Result<()> {
        self.inner.create_dir_all(p)
    }
    fn list_dir(&self, p: &Path) -> Result<Vec<PathBuf>> {
        self.inner.list_dir(p)
    }
    fn open_file(&self, p: &Path) -> Result<Box<dyn ReadonlyRandomAccessFile>> {
        self.inner.open_file(p)
    }
    fn rename(&self, a: &Path, b: &Path) -> Result<()> {
        self.inner.rename(a, b)
    }
    fn create_file(&self, p: &Path, append: bool) -> Result<Box<dyn RandomAccessFile>> {
        let is_wal = p.extension().map(|e| e == "log").unwrap_or(false);
        Ok(Box::new(CrashFile {
            inner: self.inner.create_file(p, append)?,
            is_wal,
            wal_writes: Arc::clone(&self.wal_writes),
            limit: self.limit,
        }))
    }
    fn remove_file(&self, p: &Path) -> Result<()> {
        self.inner.remove_file(p)
    }
    fn remove_dir(&self, p: &Path) -> Result<()> {
        self.inner.remove_dir(p)
    }
    fn remove_dir_all(&self, p: &Path) -> Result<()> {
        self.inner.remove_dir_all(p)
    }
    fn get_file_size(&self, p: &Path) -> Result<u64> {
        self.inner.get_file_size(p)
    }
    fn is_dir(&self, p: &Path) -> Result<bool> {
        self.inner.is_dir(p)
    }
    fn lock_file(&self, p: &Path) -> Result<FileLock> {
        self.inner.lock_file(p)
    }
}

fn options(fs: Arc<dyn FileSystem>) -> DbOptions {
    let mut options = DbOptions::with_memory_env();
    options.filesystem_provider = fs;
    options.create_if_missing = true;
    options.reuse_log_files = true;
    options.db_path = "/h8".to_string();
    options
}

#[test]
fn write_acknowledged_after_recovering_from_a_half_written_record_survives_reopen() {
    let mem = Arc::new(InMemoryFileSystem::new());
    {
        // the 40 000 byte value makes a WAL record of two fragments; only the first one (exactly
        // one 32 KiB block) reaches the file
        let crash_fs = Arc::new(CrashFs {
            inner: Arc::clone(&mem),
            wal_writes: Arc::new(AtomicUsize::new(0)),
            limit: 1,
        });
        let db = DB::open(options(crash_fs)).unwrap();
        let _ = db.put(WriteOptions::default(), b"big".to_vec(), vec![7u8; 40_000]);
    }
    {
        // recovery: the half-written record is (rightly) ignored; a new write is acknowledged
        let db = DB::open(options(Arc::clone(&mem) as Arc<dyn FileSystem>)).unwrap();
        assert!(db.get(ReadOptions::default(), b"big").is_err());
        db.put(WriteOptions::default(), b"x".to_vec(), b"1".to_vec()).unwrap();
    }
    let db = DB::open(options(Arc::clone(&mem) as Arc<dyn FileSystem>)).expect("reopen after a clean close");
    assert_eq!(db.get(ReadOptions::default(), b"x").ok(), Some(b"1".to_vec()));
}
