// Plain public-API reproduction (no hooks, no harness) of defect H15.
//
// `DB::force_level_compaction` (behind `compact_range`) leaves its wait loop as soon as a
// background error is recorded and withdraws its request (`maybe_manual_compaction.take()`), even
// if the compaction thread is in the middle of that very compaction. When the compaction thread
// finishes it does `maybe_manual_compaction.take().unwrap()`: the request is gone, the background
// thread panics, the scheduled flag is never cleared and closing the database waits for ever.
//
// Schedule forced here: the compaction thread is parked while it creates the output table of a
// manual compaction; a put whose WAL append fails records the background error and wakes the
// thread waiting in `compact_range`; then the compaction thread is released.
// Drop into /repo/tests/ and run `cargo test --test h15_manual_compaction_cancelled_while_running`.
use std::io::{Error, ErrorKind, Read, Result, Seek, SeekFrom, Write};
use std::path::{Path, PathBuf};
use std::sync::atomic::{AtomicBool, Ordering};
use std::sync::{mpsc, Arc, Condvar, Mutex};
use std::time::Duration;

use raindb::fs::{FileLock, FileSystem, InMemoryFileSystem, RandomAccessFile, ReadonlyRandomAccessFile};
use raindb::{DbOptions, WriteOptions, DB};

#[derive(Default)]
struct Gate {
    /// park the next creation of a table file
    armed: AtomicBool,
    parked: Mutex<bool>,
    parked_cv: Condvar,
    open: Mutex<bool>,
    open_cv: Condvar,
    /// fail the next write to a WAL
    fail_next_wal_write: AtomicBool,
}

struct GateFs {
    inner: Arc<InMemoryFileSystem>,
    gate: Arc<Gate>,
}

struct GateFile {
    inner: Box<dyn RandomAccessFile>,
    is_wal: bool,
    gate: Arc<Gate>,
}

impl GateFile {
    fn check(&self) -> Result<()> {
        if self.is_wal && self.gate.fail_next_wal_write.swap(false, Ordering::SeqCst) {
            return Err(Error::new(ErrorKind::Other, "injected write failure"));
        }
        Ok(())
    }
}
impl Read for GateFile {
    fn read(&mut self, buf: &mut [u8]) -> Result<usize> {
        self.inner.read(buf)
    }
}
impl Seek for GateFile {
    fn seek(&mut self, pos: SeekFrom) -> Result<u64> {
        self.inner.seek(pos)
    }
}
impl Write for GateFile {
    fn write(&mut self, buf: &[u8]) -> Result<usize> {
        self.check()?;
        self.inner.write(buf)
    }
    fn flush(&mut self) -> Result<()> {
        self.inner.flush()
    }
}
impl ReadonlyRandomAccessFile for GateFile {
    fn read_from(&self, buf: &mut [u8], offset: usize) -> Result<usize> {
        self.inner.read_from(buf, offset)
    }
    fn len(&self) -> Result<u64> {
        self.inner.len()
    }
}
impl RandomAccessFile for GateFile {
    fn append(&mut self, buf: &[u8]) -> Result<usize> {
        self.check()?;
        self.inner.append(buf)
    }
}

impl FileSystem for GateFs {
    fn get_name(&self) -> String {
        "GateFs".into()
    }
    fn create_dir(&self, p: &Path) -> Result<()> {
        self.inner.create_dir(p)
    }
    fn create_dir_all(&self, p: &Path) -> Result<()> {
        self.inner.create_dir_all(p)
    }
    fn list_dir(&self, p: &Path) -> Result<Vec<PathBuf>> {
        self.inner.list_dir(p)
    }
    fn open_file(&self, p: &Path) -> Result<Box<dyn ReadonlyRandomAccessFile>> {
        self.inner.open_file(p)
    }
    fn rename(&self, a: &Path, b: &Path) -> Result<()> {
        self.inner.rename(a, b)
    }
    fn create_file(&self, p: &Path, append: bool) -> Result<Box<dyn RandomAccessFile>> {
        let ext = p.extension().map(|e| e.to_string_lossy().to_string()).unwrap_or_default();
        if ext == "rdb" && self.gate.armed.swap(false, Ordering::SeqCst) {
            *self.gate.parked.lock().unwrap() = true;
            self.gate.parked_cv.notify_all();
            let mut open = self.gate.open.lock().unwrap();
            while !*open {
                open = self.gate.open_cv.wait(open).unwrap();
            }
        }
        Ok(Box::new(GateFile {
            inner: self.inner.create_file(p, append)?,
            is_wal: ext == "log",
            gate: Arc::clone(&self.gate),
        }))
    }
    fn remove_file(&self, p: &Path) -> Result<()> {
        self.inner.remove_file(p)
    }
    fn remove_dir(&self, p: &Path) -> Result<()> {
        self.inner.remove_dir(p)
    }
    fn remove_dir_all(&self, p: &Path) -> Result<()> {
        self.inner.remove_dir_all(p)
    }
    fn get_file_size(&self, p: &Path) -> Result<u64> {
        self.inner.get_file_size(p)
    }
    fn is_dir(&self, p: &Path) -> Result<bool> {
        self.inner.is_dir(p)
    }
    fn lock_file(&self, p: &Path) -> Result<FileLock> {
        self.inner.lock_file(p)
    }
}

fn flush(db: &DB) {
    let z = [0xffu8, 0xff, 0xff];
    db.compact_range(Some(&z[..])..Some(&z[..]));
}

#[test]
fn a_background_error_during_a_manual_compaction_does_not_kill_the_compaction_thread() {
    let gate = Arc::new(Gate::default());
    let fs: Arc<dyn FileSystem> = Arc::new(GateFs {
        inner: Arc::new(InMemoryFileSystem::new()),
        gate: Arc::clone(&gate),
    });
    let mut options = DbOptions::with_memory_env();
    options.filesystem_provider = fs;
    options.create_if_missing = true;
    options.db_path = "/h15".to_string();
    let db = Arc::new(DB::open(options).unwrap());

    // two overlapping tables, so that compact_range(None..None) has a real compaction to do
    db.put(WriteOptions::default(), b"a".to_vec(), b"1".to_vec()).unwrap();
    db.put(WriteOptions::default(), b"m".to_vec(), b"1".to_vec()).unwrap();
    flush(&db);
    db.put(WriteOptions::default(), b"a".to_vec(), b"2".to_vec()).unwrap();
    db.put(WriteOptions::default(), b"m".to_vec(), b"2".to_vec()).unwrap();
    flush(&db);

    // the manual compaction, parked at the creation of its output table
    gate.armed.store(true, Ordering::SeqCst);
    let (done_tx, done_rx) = mpsc::channel();
    let db2 = Arc::clone(&db);
    let compactor = std::thread::spawn(move || {
        db2.compact_range(None..None);
        done_tx.send(()).unwrap();
    });
    {
        let mut parked = gate.parked.lock().unwrap();
        while !*parked {
            let (g, t) = gate.parked_cv.wait_timeout(parked, Duration::from_secs(10)).unwrap();
            parked = g;
            assert!(!t.timed_out(), "the compaction never reached the creation of its output table");
        }
    }

    // a failing WAL append records the background error and wakes the thread in compact_range
    gate.fail_next_wal_write.store(true, Ordering::SeqCst);
    assert!(db.put(WriteOptions::default(), b"x".to_vec(), b"3".to_vec()).is_err());
    std::thread::sleep(Duration::from_millis(300));

    // let the compaction thread finish its compaction
    *gate.open.lock().unwrap() = true;
    gate.open_cv.notify_all();
    done_rx
        .recv_timeout(Duration::from_secs(10))
        .expect("compact_range did not return");
    compactor.join().unwrap();

    // closing must terminate: it waits for the scheduled background work, which a compaction
    // thread that panicked never reports as finished
    let (closed_tx, closed_rx) = mpsc::channel();
    std::thread::spawn(move || {
        drop(db);
        closed_tx.send(()).unwrap();
    });
    closed_rx
        .recv_timeout(Duration::from_secs(10))
        .expect("closing the database hangs: the compaction thread died with its task still marked as scheduled");
}
