//! A committed key must stay readable while other keys are being written.
//!
//! `get` searches the memtable skip list without the database mutex while the single writer links
//! a new node into the list. The skip list (nerdondon-hopscotch 2.7.0, `insert_internal`) links the
//! node into its tower top level first; a search that arrives in between walks onto the new node at
//! a high level, finds no successors below (they are not linked yet) and concludes that the list
//! ends there: every key behind the new node is "not in the memtable".
//!
//! This is a race: the test hammers it and counts wrong answers. On the unrepaired tree it
//! typically reports a few lost reads per run; with the repair it reports none.

use std::sync::atomic::{AtomicBool, AtomicU64, Ordering};
use std::sync::Arc;

use raindb::fs::{FileSystem, InMemoryFileSystem};
use raindb::{DbOptions, ReadOptions, WriteOptions, DB};

#[test]
fn committed_key_is_never_lost_by_a_reader_racing_with_inserts_of_smaller_keys() {
    let fs: Arc<dyn FileSystem> = Arc::new(InMemoryFileSystem::new());
    let db = Arc::new(
        DB::open(DbOptions {
            filesystem_provider: fs,
            create_if_missing: true,
            max_memtable_size: 1 << 30,
            ..DbOptions::default()
        })
        .unwrap(),
    );
    db.put(WriteOptions::default(), b"zzz".to_vec(), b"committed".to_vec()).unwrap();

    let stop = Arc::new(AtomicBool::new(false));
    let lost = Arc::new(AtomicU64::new(0));
    let reads = Arc::new(AtomicU64::new(0));
    let mut readers = vec![];
    for _ in 0..3 {
        let (db, stop, lost, reads) = (db.clone(), stop.clone(), lost.clone(), reads.clone());
        readers.push(std::thread::spawn(move || {
            while !stop.load(Ordering::Relaxed) {
                match db.get(ReadOptions::default(), b"zzz") {
                    Ok(v) if v == b"committed" => {}
                    _ => {
                        lost.fetch_add(1, Ordering::Relaxed);
                    }
                }
                reads.fetch_add(1, Ordering::Relaxed);
            }
        }));
    }
    for i in 0..20_000u32 {
        db.put(WriteOptions::default(), format!("a{:07}", i).into_bytes(), vec![b'v'; 8]).unwrap();
    }
    stop.store(true, Ordering::Relaxed);
    for r in readers {
        r.join().unwrap();
    }
    let lost = lost.load(Ordering::Relaxed);
    assert_eq!(
        lost,
        0,
        "{} of {} reads of a committed key came back NotFound / wrong while smaller keys were inserted",
        lost,
        reads.load(Ordering::Relaxed)
    );
}
