//! # Hopscotch - a skip list implemented in rust
//! What it says. Cuz it skips.
//!
//! Features:
//!
//! `concurrent` - Enables the concurrent skiplist

pub mod skiplist;
// Re-export the SkipList struct and show at the top level of docs
#[doc(inline)]
pub use crate::skiplist::SkipList;

mod size;
#[doc(inline)]
pub use crate::size::Sizeable;

#[cfg(feature = "concurrent")]
pub mod concurrent_skiplist;
