use rand::thread_rng;
use rand_distr::{Distribution, Geometric};
use std::convert::TryInto;
use std::fmt::Debug;
use std::hash::Hash;
use std::iter::FusedIterator;
use std::mem;
use std::ptr::NonNull;

use crate::Sizeable;

type Link<K, V> = Option<NonNull<SkipNode<K, V>>>;

// A node in the skip list.
#[derive(Debug)]
struct SkipNode<K: Ord + Hash + Debug, V: Clone> {
    /// The key should only be `None` for the `head` node.
    key: Option<K>,
    /// The Value should only be `None` for the `head` node.
    value: Option<V>,
    levels: Vec<Link<K, V>>,
    /// The size of the key and value in bytes.
    kv_size: usize,
}

impl<K: Ord + Hash + Debug, V: Clone> SkipNode<K, V> {
    fn new(key: K, value: V, height: usize, kv_size_bytes: usize) -> Self {
        SkipNode {
            key: Some(key),
            value: Some(value),
            levels: vec![None; height],
            kv_size: kv_size_bytes,
        }
    }

    fn head() -> Self {
        SkipNode {
            key: None,
            value: None,
            levels: vec![],
            kv_size: mem::size_of::<Option<K>>() + mem::size_of::<Option<V>>(),
        }
    }

    /// Get an immutable reference to the next node at level 0 if it exists. Otherwise, `None`.
    fn next(&self) -> Option<&SkipNode<K, V>> {
        self.next_at_level(0)
    }

    /// Get an immutable reference to the next node at the specified level if it exists.
    /// Otherwise, `None`.
    fn next_at_level(&self, level: usize) -> Option<&SkipNode<K, V>> {
        if self.levels.is_empty() {
            return None;
        }

        self.levels[level].as_ref().map(|node_ptr| {
            unsafe {
                /*
                SAFETY:
                This is safe because links are guaranteed to exist. If the link did not exist, it
                would be a `None` in the tower and execution would not have gotten here.
                */
                node_ptr.as_ref()
            }
        })
    }
}

/// A skip list.
///
/// # Safety
///
/// Invariants:
///
/// - If an Link exists it must be valid to dereference to a `SkipNode`.
#[derive(Debug)]
pub struct SkipList<K: Ord + Hash + Debug, V: Clone> {
    head: Box<SkipNode<K, V>>,
    length: usize,
    /// The probability of success used in probability distribution for determining height of a new
    /// node. Defaults to 0.25.
    probability: f64,
    /// Approximate memory used by the skip list in number of bytes.
    approximate_mem_usage: usize,
}

/// Public methods of SkipList
impl<K: Ord + Hash + Debug, V: Clone> SkipList<K, V> {
    /// Create a new skip list.
    ///
    /// `probability` is the probability of success used in probability distribution for determining
    /// height of a new node. Defaults to 0.25.
    ///
    /// # Examples
    /// ```
    /// use nerdondon_hopscotch::skiplist::SkipList;
    ///
    /// let skiplist = SkipList::<i32, String>::new(None);
    /// ```
    pub fn new(probability: Option<f64>) -> Self {
        let head = Box::new(SkipNode::head());
        let mut skiplist = SkipList {
            head,
            /// The number of elements in the skip list.
            length: 0,
            probability: probability.unwrap_or(0.25),
            approximate_mem_usage: 0,
        };

        // TODO: Make size tracking a feature?
        let size = mem::size_of_val(&skiplist) + mem::size_of::<SkipNode<K, V>>();
        skiplist.approximate_mem_usage = size;

        skiplist
    }

    /// Get an immutable reference to the value corresponding to the specified `key`.
    ///
    /// Returns `Some(V)` if found and `None` if not
    pub fn get(&self, key: &K) -> Option<&V> {
        if self.is_empty() {
            return None;
        }

        let potential_record = self.find_greater_or_equal_node(key);
        if let Some(record) = potential_record {
            if record.key.as_ref().unwrap().eq(key) {
                return record.value.as_ref();
            }
        }

        None
    }

    /// Insert a key-value pair.
    ///
    /// # Examples
    /// ```
    /// use nerdondon_hopscotch::skiplist::SkipList;
    ///
    /// let mut skiplist = SkipList::<i32, String>::new(None);
    /// skiplist.insert(2, "banana".to_string());
    /// skiplist.insert(3, "orange".to_string());
    /// skiplist.insert(1, "apple".to_string());
    ///
    /// let some_value = skiplist.get(&2).unwrap();
    /// assert_eq!(some_value, "banana");
    /// ```
    pub fn insert(&mut self, key: K, value: V) {
        self.insert_internal(key, value, None)
    }

    /// Remove a key-value pair.
    ///
    /// Returns the value at the key if the key was in the map.
    pub fn remove(&mut self, key: &K) -> Option<V> {
        if self.is_empty() {
            return None;
        }

        // Track where we end on each level
        let mut nodes_to_update: Vec<Option<NonNull<SkipNode<K, V>>>> = vec![None; self.height()];
        let list_height = self.height();
        let mut current_node = self.head.as_ref();

        // Start iteration at the top of the skip list "towers" and find the removal position at each
        // level
        for level_idx in (0..list_height).rev() {
            // Get an optional of the next node
            let mut maybe_next_node = current_node.levels[level_idx].as_ref();

            while maybe_next_node.is_some() {
                let next_node_ptr = maybe_next_node.unwrap();
                let next_node = unsafe {
                    // SAFETY: next_node_ptr is guaranteed to exist by the condition for the `while`
                    next_node_ptr.as_ref()
                };
                match next_node.key.as_ref().unwrap().cmp(key) {
                    std::cmp::Ordering::Less => {
                        current_node = next_node;
                        maybe_next_node = next_node.levels[level_idx].as_ref();
                    }
                    _ => break,
                }
            }

            // Keep track of the node we stopped at. This is either the node right before our new
            // node or head node of the level if no lesser node was found.
            nodes_to_update[level_idx] = Some(current_node.into());
        }

        // Our comparator uses a less than condition so the last node we stopped at might be just in
        // front of the node we are looking to remove
        let found_node_ptr = *current_node.levels[0].as_ref().unwrap();
        let found_node = unsafe {
            // SAFETY: All links are guaranteed to be valid
            found_node_ptr.as_ref()
        };
        if found_node.key.as_ref().unwrap().ne(key) {
            // No-op if we didn't find the key in the skip list
            return None;
        }

        let mut num_nodes_adjusted: usize = 0;
        for level_idx in (0..self.height()).rev() {
            let previous_node = unsafe {
                /*
                SAFETY:
                `nodes_to_update` is populated above with `current_node_ptr` that are checked for
                existence.
                */
                nodes_to_update[level_idx].take().unwrap().as_mut()
            };
            let maybe_next_node = previous_node.levels[level_idx].as_mut();

            // If the next pointer of the node we ended at on this level is the node for the search
            // key, adjust the next pointer to point to the node after the node we are removing.
            if let Some(next_node_ptr) = maybe_next_node {
                // SAFETY: Links are guaranteed to exist if not `None`
                let next_node = unsafe { next_node_ptr.as_mut() };
                if next_node.key.as_ref().unwrap().eq(key) {
                    previous_node.levels[level_idx] = next_node.levels[level_idx].take();
                    num_nodes_adjusted += 1;
                }
            }
        }

        // Book keeping for size
        // See [`Skiplist::insert`] for reasoning behind the approximate usage removed.
        self.approximate_mem_usage -= mem::size_of::<SkipNode<K, V>>()
            + (2 * mem::size_of::<Link<K, V>>() * num_nodes_adjusted)
            + found_node.kv_size;
        self.dec_length();

        // Re-box the allocation the pointer represents so that it can get dropped.
        // Strategy from std::linked_list: https://github.com/rust-lang/rust/blob/6f40fa4353a9075288f74ecc3553010b34c65baa/library/alloc/src/collections/linked_list.rs#L186
        let boxed_found_node = unsafe {
            /*
            SAFETY:
            The other references to this pointer were removed when removing the links above, so
            `found_node_ptr` should be the last reference to this node. All links should be valid so
            `found_node_ptr`, which is a link at level 0, should be valid.
            */
            Box::from_raw(found_node_ptr.as_ptr())
        };

        Some(boxed_found_node.value.unwrap())
    }

    /// The number of elements in the skip list.
    pub fn len(&self) -> usize {
        self.length
    }

    /// Returns true if the skip list does not hold any elements; otherwise false.
    pub fn is_empty(&self) -> bool {
        self.length == 0
    }

    /// Get the approximate amount of memory used in number of bytes.
    ///
    /// This value is not accurate unless used with keys and values that implement `[Sizeable]` and
    /// using the `ConcurrrentSkipList::insert_with_size` method.
    pub fn get_approx_mem_usage(&self) -> usize {
        self.approximate_mem_usage
    }

    /// An iterator visiting each node in order.
    ///
    /// Returns values of (&'a K, &'a V)
    pub fn iter(&self) -> NodeIterHelper<'_, K, V> {
        if self.is_empty() {
            return NodeIterHelper { next: None };
        }

        let next = self.head.levels[0].as_ref().map(|node_ptr| unsafe {
            // SAFETY: All links are valid if they exist.
            node_ptr.as_ref()
        });

        NodeIterHelper { next }
    }

    /// An iterator visiting each node in order with mutable references to values.
    ///
    /// Returns values of (&'a K, &'a mut V)
    pub fn iter_mut(&mut self) -> NodeIterMutHelper<'_, K, V> {
        if self.is_empty() {
            return NodeIterMutHelper { next: None };
        }

        let next = self.head.levels[0].as_mut().map(|node_ptr| unsafe {
            // SAFETY: All links are valid if they exist.
            node_ptr.as_mut()
        });

        NodeIterMutHelper { next }
    }

    /// Return a reference to the key and value of the first node in the skip list if there is a
    /// node. Otherwise, it returns `None`.
    pub fn first(&self) -> Option<(&K, &V)> {
        self.head
            .next()
            .map(|node| (node.key.as_ref().unwrap(), node.value.as_ref().unwrap()))
    }

    /// Return a reference to the key and value of the last node in the skip list if there is a
    /// node. Otherwise, it returns `None`.
    pub fn last(&self) -> Option<(&K, &V)> {
        if self.is_empty() {
            return None;
        }

        let mut current_node = &*self.head;
        for level_idx in (0..self.height()).rev() {
            let mut maybe_next_node = current_node.next_at_level(level_idx);
            while let Some(next_node) = maybe_next_node {
                current_node = next_node;
                maybe_next_node = next_node.next_at_level(level_idx);
            }
        }

        Some((
            current_node.key.as_ref().unwrap(),
            current_node.value.as_ref().unwrap(),
        ))
    }

    /// Return a reference to the key and value of the first node with a key that is greater than
    /// or equal to the target key.
    pub fn find_greater_or_equal(&self, target: &K) -> Option<(&K, &V)> {
        if self.is_empty() {
            return None;
        }

        self.find_greater_or_equal_node(target)
            .map(|node| (node.key.as_ref().unwrap(), node.value.as_ref().unwrap()))
    }

    /// Return a reference to the key and value of the last node with a key that is less than the
    /// target key.
    pub fn find_less_than(&self, target: &K) -> Option<(&K, &V)> {
        self.find_less_than_node(target).and_then(|node| {
            // Only the head node has empty keys and values, so this means the search
            // stayed on the head node. This can happen if we are searching for a target
            // with less than all of the keys in the skip list. Return `None` in this case.
            node.key.as_ref()?;

            Some((node.key.as_ref().unwrap(), node.value.as_ref().unwrap()))
        })
    }
}

/// Implementation for keys and values that implement `Clone`
impl<K, V> SkipList<K, V>
where
    K: Ord + Hash + Debug + Clone,
    V: Clone,
{
    /// Eagerly returns the entries stored in the skip list as `Vec<(K,V)>` with cloned values.
    ///
    /// # Examples
    /// ```
    /// use nerdondon_hopscotch::skiplist::SkipList;
    ///
    /// let mut skiplist = SkipList::<i32, String>::new(None);
    /// skiplist.insert(2, "banana".to_string());
    /// skiplist.insert(3, "orange".to_string());
    /// skiplist.insert(1, "apple".to_string());
    ///
    /// let entries = skiplist.entries();
    /// assert_eq!(
    ///   entries,
    ///   [
    ///     (1, "apple".to_string()),
    ///     (2, "banana".to_string()),
    ///     (3, "orange".to_string())
    ///   ]
    /// );
    /// ```
    pub fn entries(&self) -> Vec<(K, V)> {
        let mut kv_pairs = Vec::<(K, V)>::with_capacity(self.len());
        for (key, value) in self.iter() {
            let cloned_key = key.clone();
            let cloned_value = value.clone();
            kv_pairs.push((cloned_key, cloned_value));
        }

        kv_pairs
    }

    /// Print out the keys of elements in the skip list.
    pub fn print_keys(&self) {
        let entries = self.entries();
        for (key, _value) in entries {
            println!("Key: {:?}", key);
        }
    }
}

/// Implementation for keys and values that implement `Sizeable`
impl<K, V> SkipList<K, V>
where
    K: Ord + Hash + Debug + Clone + Sizeable,
    V: Clone + Sizeable,
{
    /// Insert a key-value pair that is [`Sizeable`].
    ///
    /// # Duplication
    ///
    /// This method is required to be named differently because Rust does not support
    /// specialization of generic implementations yet.
    pub fn insert_with_size(&mut self, key: K, value: V) {
        let approx_kv_size = key.get_approx_size() + value.get_approx_size();
        self.insert_internal(key, value, Some(approx_kv_size));
    }
}

/// Private methods of SkipList
impl<K: Ord + Hash + Debug, V: Clone> SkipList<K, V> {
    /// The current maximum height of the skip list.
    fn height(&self) -> usize {
        self.head.levels.len()
    }

    /// Generates a random height according to a geometric distribution.
    fn random_height(&self) -> usize {
        let mut rng = thread_rng();
        let distribution = Geometric::new(self.probability).unwrap();
        let sample = distribution.sample(&mut rng);

        if sample == 0 || sample > (self.height() + 3).try_into().unwrap() {
            // Avoid zero height and only increase the height by one if the number drawn is much
            // more than the current maximum height. This is just an arbitrary cap on the growth in
            // height of the skip list.
            self.height() + 1
        } else {
            sample as usize
        }
    }

    /// Insert key-value with and optional approximated size of the key-value pair.
    fn insert_internal(&mut self, key: K, value: V, maybe_kv_size_bytes: Option<usize>) {
        let new_node_height = self.random_height();
        if new_node_height > self.height() {
            self.adjust_head(new_node_height);
        }

        // Track where we end on each level
        let mut nodes_to_update: Vec<Option<NonNull<SkipNode<K, V>>>> = vec![None; self.height()];
        let list_height = self.height();
        let mut current_node = self.head.as_ref();

        // Start iteration at the top of the skip list "towers" and find the insert position at each
        // level
        for level_idx in (0..list_height).rev() {
            // Get an optional of the next node
            let mut maybe_next_node = current_node.levels[level_idx].as_ref();

            while maybe_next_node.is_some() {
                let next_node_ptr = maybe_next_node.unwrap();
                let next_node = unsafe {
                    // SAFETY: next_node_ptr is guaranteed to exist by the condition for the `while`
                    next_node_ptr.as_ref()
                };
                match next_node.key.as_ref().unwrap().cmp(&key) {
                    std::cmp::Ordering::Less => {
                        current_node = next_node;
                        maybe_next_node = next_node.levels[level_idx].as_ref();
                    }
                    _ => break,
                }
            }

            // Keep track of the node we stopped at. This is either the node right before our new
            // node or head node of the level if no lesser node was found.
            nodes_to_update[level_idx] = Some(current_node.into());
        }

        let mut new_node = Box::new(SkipNode::new(
            key,
            value,
            new_node_height,
            maybe_kv_size_bytes.unwrap_or(0),
        ));
        /*
        `.unwrap` is called explicity after the `NonNull::new` because `None` is produced on
        failure and we want to be explicit about the existence of the value stored in the
        levels vector.
        */
        let new_node_ptr = NonNull::new(new_node.as_mut()).unwrap();
        for level_idx in (0..new_node_height).rev() {
            let previous_node = unsafe {
                /*
                SAFETY:
                `nodes_to_update` is populated above with `current_node`, which is checked for
                existence.
                */
                nodes_to_update[level_idx].as_mut().unwrap().as_mut()
            };

            // Set the new node's next pointer for this level. Specifically, `previous_node`'s next
            // node at this level becomes `new_node`'s next node at this level
            new_node.levels[level_idx] = previous_node.levels[level_idx].take();

            // Set the next pointer of the previous node to the new node
            previous_node.levels[level_idx] = Some(new_node_ptr);
        }

        // Book keeping for size
        // The additional usage should be from the size of the new node and the size of references
        // to this new node. This is multiplied by 2 to approximate the storage in the `levels`
        // vector. `mem::size_of` and `mem::size_of_val` does not actually get the size of vectors
        // since vectors are allocated to the heap and only a pointer is stored in the field.
        self.approximate_mem_usage += mem::size_of::<SkipNode<K, V>>()
            + (2 * mem::size_of::<Link<K, V>>() * new_node_height)
            + maybe_kv_size_bytes.unwrap_or(0);
        self.inc_length();

        /*
        `Box::leak` is called so that the node does not get deallocated at the end of the function.
        The `SkipList::remove` method will ensure to reform the box from the pointer so that the
        node is de-allocated on removal.
        */
        Box::leak(new_node);
    }

    /// Adjust the levels stored in head to match a new height.
    fn adjust_head(&mut self, new_height: usize) {
        if self.height() >= new_height {
            return;
        }

        let height_difference = new_height - self.height();
        for _ in 0..height_difference {
            self.head.levels.push(None);
        }
    }

    /// Increment length by 1.
    fn inc_length(&mut self) {
        self.length += 1;
    }

    /// Decrement length by 1.
    fn dec_length(&mut self) {
        self.length -= 1;
    }

    /// Return a reference to the first node with a key that is greater than or equal to the target
    /// key.
    fn find_greater_or_equal_node(&self, target: &K) -> Option<&SkipNode<K, V>> {
        if self.is_empty() {
            return None;
        }

        let mut current_node = &*self.head;
        // Start iteration at the top of the skip list "towers" and iterate through pointers at the
        // current level. If we skipped past our key, move down a level.
        for level_idx in (0..self.height()).rev() {
            // Get an optional of the next node
            let mut maybe_next_node = current_node.next_at_level(level_idx);

            while let Some(next_node) = maybe_next_node {
                match next_node.key.as_ref().unwrap().cmp(target) {
                    std::cmp::Ordering::Less => {
                        current_node = next_node;
                        maybe_next_node = next_node.next_at_level(level_idx);
                    }
                    std::cmp::Ordering::Equal | std::cmp::Ordering::Greater => {
                        if level_idx == 0 {
                            // We are at the bottom of the tower, so this is closest node greater
                            // than or equal to our target.
                            return Some(next_node);
                        }

                        // We found a node greater than or equal to our target. See if this is the
                        // the first greatest node after our target by breaking and moving one
                        // level down in the tower.
                        break;
                    }
                }
            }
        }

        // This is reached when the target is greater than all of the nodes in the skip list.
        None
    }

    /// Return a reference to the last node with a key that is less than the target key.
    fn find_less_than_node(&self, target: &K) -> Option<&SkipNode<K, V>> {
        if self.is_empty() {
            return None;
        }

        let mut current_node = &*self.head;
        // Start iteration at the top of the skip list "towers" and iterate through pointers at the
        // current level. If we skipped past our key, move down a level.
        for level_idx in (0..self.height()).rev() {
            // Get an optional of the next node
            let mut maybe_next_node = current_node.next_at_level(level_idx);

            while let Some(next_node) = maybe_next_node {
                match next_node.key.as_ref().unwrap().cmp(target) {
                    std::cmp::Ordering::Less => {
                        current_node = next_node;
                        maybe_next_node = next_node.next_at_level(level_idx);
                    }
                    _ => break,
                }
            }
        }

        Some(current_node)
    }
}

/// An iterator adapter over the nodes of a `SkipList`.
///
/// This `struct` is created by the [`iter`] method.
///
/// [`iter`]: SkipList::iter
pub struct NodeIterHelper<'a, K, V>
where
    K: Ord + Hash + Debug,
    V: Clone,
{
    next: Option<&'a SkipNode<K, V>>,
}

impl<'a, K, V> Iterator for NodeIterHelper<'a, K, V>
where
    K: Ord + Hash + Debug,
    V: Clone,
{
    type Item = (&'a K, &'a V);

    fn next(&mut self) -> Option<Self::Item> {
        let wrapped_current_node = self.next;

        // Short-circuit return `None`
        wrapped_current_node?;

        let current_node = wrapped_current_node.unwrap();
        self.next = unsafe {
            /*
            SAFETY:
            Links at level 0 are always valid. No mutations can happen because the only way to get a
            `NodeIterator` is via [`SkipList::iter`] which borrows an immutable reference.
            */
            current_node.levels[0]
                .as_ref()
                .map(|node_ptr| node_ptr.as_ref())
        };

        Some((
            current_node.key.as_ref().unwrap(),
            current_node.value.as_ref().unwrap(),
        ))
    }
}

impl<'a, K, V> IntoIterator for &'a SkipList<K, V>
where
    K: Ord + Hash + Debug,
    V: Clone,
{
    type Item = (&'a K, &'a V);
    type IntoIter = NodeIterHelper<'a, K, V>;

    fn into_iter(self) -> NodeIterHelper<'a, K, V> {
        self.iter()
    }
}

impl<K, V> FusedIterator for NodeIterHelper<'_, K, V>
where
    K: Ord + Hash + Debug,
    V: Clone,
{
}

/// An mutable iterator adapter over the nodes of a `SkipList`.
///
/// This `struct` is created by the [`iter_mut`] method.
///
/// [`iter_mut`]: SkipList::iter_mut
pub struct NodeIterMutHelper<'a, K, V>
where
    K: Ord + Hash + Debug,
    V: Clone,
{
    next: Option<&'a mut SkipNode<K, V>>,
}

impl<'a, K, V> Iterator for NodeIterMutHelper<'a, K, V>
where
    K: Ord + Hash + Debug,
    V: Clone,
{
    type Item = (&'a K, &'a mut V);

    fn next(&mut self) -> Option<Self::Item> {
        match self.next.take() {
            None => None,
            Some(current_node) => {
                self.next = unsafe {
                    /*
                    SAFETY:
                    Links at level 0 are always valid. No mutations can happen because the only way to get a
                    `NodeIterator` is via [`SkipList::iter`] which borrows an immutable reference.
                    */
                    current_node.levels[0]
                        .as_mut()
                        .map(|node_ptr| node_ptr.as_mut())
                };

                return Some((
                    current_node.key.as_ref().unwrap(),
                    current_node.value.as_mut().unwrap(),
                ));
            }
        }
    }
}

impl<K, V> Drop for SkipList<K, V>
where
    K: Ord + Hash + Debug,
    V: Clone,
{
    fn drop(&mut self) {
        if self.is_empty() {
            return;
        }

        let mut maybe_node_ptr = self.head.as_mut().levels[0];

        while maybe_node_ptr.is_some() {
            let mut current_node_ptr = maybe_node_ptr.unwrap();

            /*
            Re-box the allocation the pointer represents so that it can get dropped. Insert's
            leak the boxed node when it is created.

            It is ok to leave pointers in the dropped node's levels vector dangling because all
            nodes are getting dropped.
            */
            let current_node = unsafe {
                // SAFETY: All links are guaranteed to be valid nodes.
                Box::from_raw(current_node_ptr.as_mut())
            };

            maybe_node_ptr = current_node.levels[0];
        }
    }
}

#[cfg(test)]
mod tests {
    use super::*;
    use pretty_assertions::assert_eq;

    #[test]
    fn with_an_empty_skiplist_get_returns_none() {
        let skiplist = SkipList::<i32, String>::new(None);
        assert_eq!(skiplist.get(&10), None);
    }

    #[test]
    fn with_an_empty_skiplist_is_empty_returns_true() {
        let skiplist = SkipList::<i32, String>::new(None);
        assert_eq!(skiplist.is_empty(), true);
    }

    #[test]
    fn with_an_empty_skiplist_len_returns_zero() {
        let skiplist = SkipList::<i32, String>::new(None);
        assert_eq!(skiplist.len(), 0);
    }

    #[test]
    fn with_an_empty_skiplist_insert_can_add_an_element() {
        let mut skiplist = SkipList::<i32, String>::new(None);

        skiplist.insert(1, "apple".to_string());

        assert_eq!(skiplist.len(), 1);
    }

    #[test]
    fn insert_can_add_an_element_after_an_existing_element() {
        let mut skiplist = SkipList::<i32, String>::new(None);
        skiplist.insert(1, "apple".to_string());

        skiplist.insert(2, "banana".to_string());

        assert_eq!(skiplist.len(), 2);
    }

    #[test]
    fn insert_can_add_an_element_before_an_existing_element() {
        let mut skiplist = SkipList::<i32, String>::new(None);
        skiplist.insert(2, "banana".to_string());

        skiplist.insert(1, "apple".to_string());

        assert_eq!(skiplist.len(), 2);
    }

    #[test]
    fn insert_can_add_an_element_between_existing_elements() {
        // TODO: Mock distribution
        let mut skiplist = SkipList::<i32, String>::new(None);
        skiplist.insert(3, "orange".to_string());
        skiplist.insert(1, "apple".to_string());

        skiplist.insert(2, "banana".to_string());

        assert_eq!(skiplist.len(), 3);
    }

    #[test]
    fn get_an_element_at_the_head() {
        let mut skiplist = SkipList::<i32, String>::new(None);
        skiplist.insert(1, "apple".to_string());
        skiplist.insert(3, "orange".to_string());
        skiplist.insert(2, "banana".to_string());
        let expected_value = "apple".to_string();

        let actual_value = skiplist.get(&1).unwrap();

        assert_eq!(&expected_value, actual_value);
    }

    #[test]
    fn get_an_element_in_the_middle() {
        let mut skiplist = SkipList::<i32, String>::new(None);
        skiplist.insert(2, "banana".to_string());
        skiplist.insert(1, "apple".to_string());
        skiplist.insert(3, "orange".to_string());
        let expected_value = "banana".to_string();

        let actual_value = skiplist.get(&2).unwrap();

        assert_eq!(&expected_value, actual_value);
    }

    #[test]
    fn get_an_element_at_the_tail() {
        let mut skiplist = SkipList::<i32, String>::new(None);
        skiplist.insert(2, "banana".to_string());
        skiplist.insert(3, "orange".to_string());
        skiplist.insert(1, "apple".to_string());
        let expected_value = "orange".to_string();

        let actual_value = skiplist.get(&3).unwrap();

        assert_eq!(&expected_value, actual_value);
    }

    #[test]
    fn with_a_non_empty_skiplist_getting_a_non_existent_element_returns_none() {
        let mut skiplist = SkipList::<i32, String>::new(None);
        skiplist.insert(2, "banana".to_string());
        skiplist.insert(3, "orange".to_string());
        skiplist.insert(1, "apple".to_string());

        let actual_value = skiplist.get(&0);

        assert_eq!(None, actual_value);
    }

    #[test]
    fn with_a_non_empty_skiplist_is_empty_returns_false() {
        let mut skiplist = SkipList::<i32, String>::new(None);
        skiplist.insert(2, "banana".to_string());
        skiplist.insert(3, "orange".to_string());
        skiplist.insert(1, "apple".to_string());

        assert_eq!(skiplist.is_empty(), false);
    }

    #[test]
    fn with_an_empty_skiplist_collect_returns_an_empty_vec() {
        let skiplist = SkipList::<i32, String>::new(None);

        let actual_value = skiplist.entries();

        assert_eq!(actual_value.len(), 0);
        assert_eq!(actual_value, []);
    }

    #[test]
    fn entries_returns_a_vec_with_the_key_value_pairs_of_elements() {
        let mut skiplist = SkipList::<i32, String>::new(None);
        skiplist.insert(2, "banana".to_string());
        skiplist.insert(3, "orange".to_string());
        skiplist.insert(1, "apple".to_string());

        let actual_value = skiplist.entries();

        assert_eq!(actual_value.len(), 3);
        assert_eq!(
            actual_value,
            [
                (1, "apple".to_string()),
                (2, "banana".to_string()),
                (3, "orange".to_string())
            ]
        );
    }

    #[test]
    fn remove_can_remove_an_item_from_the_front_of_the_skip_list() {
        let mut skiplist = SkipList::<i32, String>::new(None);
        skiplist.insert(2, "banana".to_string());
        skiplist.insert(3, "orange".to_string());
        skiplist.insert(1, "apple".to_string());

        let removed_value = skiplist.remove(&1);

        assert_eq!(skiplist.len(), 2);
        assert_eq!(removed_value.unwrap(), "apple".to_string());
        assert_eq!(skiplist.get(&1), None);
        assert_eq!(
            skiplist.entries(),
            [(2, "banana".to_string()), (3, "orange".to_string())]
        );
    }

    #[test]
    fn remove_can_remove_an_item_from_the_middle_of_the_skip_list() {
        let mut skiplist = SkipList::<i32, String>::new(None);
        skiplist.insert(2, "banana".to_string());
        skiplist.insert(3, "orange".to_string());
        skiplist.insert(1, "apple".to_string());

        let removed_value = skiplist.remove(&2);

        assert_eq!(skiplist.len(), 2);
        assert_eq!(removed_value.unwrap(), "banana".to_string());
        assert_eq!(skiplist.get(&2), None);
        assert_eq!(
            skiplist.entries(),
            [(1, "apple".to_string()), (3, "orange".to_string())]
        );
    }

    #[test]
    fn remove_can_remove_an_item_from_the_back_of_the_skip_list() {
        let mut skiplist = SkipList::<i32, String>::new(None);
        skiplist.insert(2, "banana".to_string());
        skiplist.insert(3, "orange".to_string());
        skiplist.insert(1, "apple".to_string());

        let removed_value = skiplist.remove(&3);

        assert_eq!(skiplist.len(), 2);
        assert_eq!(removed_value.unwrap(), "orange".to_string());
        assert_eq!(skiplist.get(&3), None);
        assert_eq!(
            skiplist.entries(),
            [(1, "apple".to_string()), (2, "banana".to_string())]
        );
    }

    #[test]
    fn remove_can_remove_all_elements_from_the_skip_list() {
        let mut skiplist = SkipList::<i32, String>::new(None);
        skiplist.insert(2, "banana".to_string());
        skiplist.insert(3, "orange".to_string());
        skiplist.insert(1, "apple".to_string());

        skiplist.remove(&3);
        skiplist.remove(&1);
        skiplist.remove(&2);

        assert_eq!(skiplist.len(), 0);
        assert_eq!(skiplist.entries(), []);
    }

    #[test]
    fn with_an_empty_skiplist_remove_does_nothing() {
        let mut skiplist = SkipList::<i32, String>::new(None);
        assert_eq!(skiplist.is_empty(), true);

        let removed_value = skiplist.remove(&30);

        assert_eq!(skiplist.is_empty(), true);
        assert_eq!(removed_value, None);
    }

    #[test]
    fn get_approx_mem_usage_provides_decent_estimates() {
        // Note that these estimates have only just some basis in reality. We do not attempt to get
        // too crazy with the estimates. Just make sure the numbers are somewhat sane.

        // Approximated initial usage
        // size of head node
        //   = 1 (None) + 1 (None) + 3 (vec pointer) + 0 (empty vec actual size) = 26
        // size of SkipList = 8 (length) + 8 (probability) + 8 (approx_mem_usage)  = 24
        let approx_initial_usage: usize = 50;

        // Approximate node size
        // size of `levels` actually = height of the skiplist * size of `Link`
        let base_node_usage: usize = mem::size_of::<SkipNode<u16, Vec<u8>>>();
        let link_size = mem::size_of::<Link<u16, Vec<u8>>>();

        let mut usage_approximation = approx_initial_usage;

        let mut skiplist = SkipList::<u16, Vec<u8>>::new(None);
        assert!(skiplist.get_approx_mem_usage() >= usage_approximation);

        skiplist.insert_with_size(1, "apple".into());
        usage_approximation +=
            base_node_usage + mem::size_of::<u16>() + "apple".len() + skiplist.height() * link_size;
        assert!(
            skiplist.get_approx_mem_usage() > usage_approximation,
            "Expected the actual memory usage approximation ({}) to be greater than {}",
            skiplist.get_approx_mem_usage(),
            usage_approximation
        );

        skiplist.insert_with_size(2, "banana".into());
        usage_approximation += base_node_usage
            + mem::size_of::<u16>()
            + "banana".len()
            + skiplist.height() * link_size;
        assert!(
            skiplist.get_approx_mem_usage() > usage_approximation,
            "Expected the actual memory usage approximation ({}) to be greater than {}",
            skiplist.get_approx_mem_usage(),
            usage_approximation
        );

        skiplist.insert_with_size(3, [b'c'; 3000].to_vec());
        usage_approximation += base_node_usage
            + mem::size_of::<u16>()
            + mem::size_of_val(&[b'c'; 3000])
            + skiplist.height() * link_size;
        assert!(
            skiplist.get_approx_mem_usage() > usage_approximation,
            "Expected the actual memory usage approximation ({}) to be greater than {}",
            skiplist.get_approx_mem_usage(),
            usage_approximation
        );

        skiplist.remove(&1);
        usage_approximation -=
            base_node_usage + mem::size_of::<u16>() + "apple".len() + skiplist.height() * link_size;
        assert!(
            skiplist.get_approx_mem_usage() > usage_approximation,
            "Expected the actual memory usage approximation ({}) to be greater than {}",
            skiplist.get_approx_mem_usage(),
            usage_approximation
        );

        skiplist.remove(&2);
        usage_approximation -= base_node_usage
            + mem::size_of::<u16>()
            + "banana".len()
            + skiplist.height() * link_size;
        assert!(
            skiplist.get_approx_mem_usage() >= usage_approximation,
            "Expected the actual memory usage approximation ({}) to be greater than {}",
            skiplist.get_approx_mem_usage(),
            usage_approximation
        );

        skiplist.remove(&3);
        usage_approximation -= base_node_usage
            + mem::size_of::<u16>()
            + mem::size_of_val(&[b'c'; 3000])
            + skiplist.height() * link_size;
        assert!(
            skiplist.get_approx_mem_usage() >= usage_approximation,
            "Expected the actual memory usage approximation ({}) to be greater than {}",
            skiplist.get_approx_mem_usage(),
            usage_approximation
        );
    }

    #[test]
    fn with_a_non_empty_skiplist_first_returns_references_to_the_first_key_value_pair() {
        let mut skiplist = SkipList::<i32, String>::new(None);
        skiplist.insert(2, "banana".to_string());
        skiplist.insert(3, "orange".to_string());
        skiplist.insert(1, "apple".to_string());
        skiplist.insert(4, "strawberry".to_string());
        skiplist.insert(5, "watermelon".to_string());

        assert_eq!(skiplist.first(), Some((&1, &"apple".to_string())));
    }

    #[test]
    fn with_an_empty_skiplist_first_returns_none() {
        let skiplist = SkipList::<i32, String>::new(None);

        assert_eq!(skiplist.first(), None);
    }

    #[test]
    fn with_a_non_empty_skiplist_last_returns_references_to_the_last_key_value_pair() {
        let mut skiplist = SkipList::<i32, String>::new(None);
        skiplist.insert(2, "banana".to_string());
        skiplist.insert(3, "orange".to_string());
        skiplist.insert(1, "apple".to_string());
        skiplist.insert(4, "strawberry".to_string());
        skiplist.insert(5, "watermelon".to_string());

        assert_eq!(skiplist.last(), Some((&5, &"watermelon".to_string())));
    }

    #[test]
    fn with_an_empty_skiplist_last_returns_none() {
        let skiplist = SkipList::<i32, String>::new(None);

        assert_eq!(skiplist.last(), None);
    }

    #[test]
    fn with_a_non_empty_skiplist_find_greater_or_equal_returns_correct_responses() {
        let mut skiplist = SkipList::<i32, String>::new(None);
        skiplist.insert(2, "banana".to_string());
        skiplist.insert(3, "orange".to_string());
        skiplist.insert(1, "apple".to_string());
        skiplist.insert(4, "strawberry".to_string());
        skiplist.insert(5, "watermelon".to_string());
        skiplist.insert(11, "grapefruit".to_string());
        skiplist.insert(12, "mango".to_string());

        assert_eq!(
            skiplist.find_greater_or_equal(&1),
            Some((&1, &"apple".to_string())),
            "The target is the first element so it should be found"
        );

        assert_eq!(
            skiplist.find_greater_or_equal(&3),
            Some((&3, &"orange".to_string())),
            "The middle element exists so it should be found"
        );

        assert_eq!(
            skiplist.find_greater_or_equal(&7),
            Some((&11, &"grapefruit".to_string())),
            "The target does not exist but there is a greater node so it should return that node"
        );

        assert_eq!(
            skiplist.find_greater_or_equal(&12),
            Some((&12, &"mango".to_string())),
            "THe last element exists so it should be found"
        );

        assert_eq!(
            skiplist.find_greater_or_equal(&20),
            None,
            "The target is greater than every element in the list so `None` should be returned"
        );
    }

    #[test]
    fn with_a_non_empty_skiplist_find_less_than_returns_correct_responses() {
        let mut skiplist = SkipList::<i32, String>::new(None);
        skiplist.insert(2, "banana".to_string());
        skiplist.insert(3, "orange".to_string());
        skiplist.insert(1, "apple".to_string());
        skiplist.insert(4, "strawberry".to_string());
        skiplist.insert(5, "watermelon".to_string());
        skiplist.insert(11, "grapefruit".to_string());
        skiplist.insert(12, "mango".to_string());

        assert_eq!(
            skiplist.find_less_than(&0),
            None,
            "Finding a target less than every element in the list returns `None`"
        );

        assert_eq!(
            skiplist.find_less_than(&1),
            None,
            "Finding a target less than the first element returns `None`"
        );

        assert_eq!(
            skiplist.find_less_than(&3),
            Some((&2, &"banana".to_string())),
            "Finding a target less than an existing middle element"
        );

        assert_eq!(
            skiplist.find_less_than(&7),
            Some((&5, &"watermelon".to_string())),
            "Finding a target less than a non-existent middle element"
        );

        assert_eq!(
            skiplist.find_less_than(&20),
            Some((&12, &"mango".to_string())),
            "Finding a target greater than all elements returns the last element"
        );
    }
}
