use rand::prelude::StdRng;
use rand::SeedableRng;
use rand_distr::{Distribution, Geometric};
use std::convert::TryInto;
use std::fmt::Debug;
use std::iter::FusedIterator;
use std::mem;
use std::ptr::NonNull;
use std::sync::atomic::{self, AtomicPtr, AtomicUsize};
use std::sync::Arc;

use crate::Sizeable;

type Link<K, V> = Option<Arc<AtomicPtr<SkipNode<K, V>>>>;

/// A node in the skip list.
#[derive(Debug)]
pub struct SkipNode<K: Ord + Debug, V: Clone> {
    /// The key should only be `None` for the `head` node.
    key: Option<K>,
    /// The Value should only be `None` for the `head` node.
    value: Option<V>,
    levels: Vec<Link<K, V>>,
}

/// Public methods
impl<K: Ord + Debug, V: Clone> SkipNode<K, V> {
    /// Get an immutable reference to the next node at level 0 if it exists. Otherwise, `None`.
    pub fn next(&self) -> Option<&SkipNode<K, V>> {
        self.next_at_level(0)
    }

    /// Get the key and value stored on this node.
    ///
    /// This should always return a key-value pair because the head node is the only node that does
    /// not have a key or a value.
    pub fn get_entry(&self) -> (&K, &V) {
        (self.key.as_ref().unwrap(), self.value.as_ref().unwrap())
    }
}

/// Private methods
impl<K: Ord + Debug, V: Clone> SkipNode<K, V> {
    fn new(key: K, value: V, height: usize) -> Self {
        SkipNode {
            key: Some(key),
            value: Some(value),
            levels: vec![None; height],
        }
    }

    fn head() -> Self {
        SkipNode {
            key: None,
            value: None,
            levels: vec![],
        }
    }

    /// Get an immutable reference to the next node at the specified level if it exists.
    /// Otherwise, `None`.
    fn next_at_level(&self, level: usize) -> Option<&SkipNode<K, V>> {
        if self.levels.is_empty() {
            return None;
        }

        self.levels[level].as_ref().and_then(|node_ptr| {
            let maybe_node = node_ptr.load(atomic::Ordering::Acquire);

            unsafe {
                /*
                SAFETY:
                This is safe because there are no removals from the skip list and because we
                use an acquire load to get the pointer. We also do a null check right before.
                The value must also be initialized or the `Option` containing this pointer
                would be `None` for no next pointer.
                */
                maybe_node.as_ref()
            }
        })
    }

    /// Get mutable reference to the next node at the specified level if it exists.
    /// Otherwise, `None`.
    fn next_at_level_mut(&mut self, level: usize) -> Option<&mut SkipNode<K, V>> {
        if self.levels.is_empty() {
            return None;
        }

        self.levels[level].as_mut().and_then(|node_ptr| {
            let maybe_node = node_ptr.load(atomic::Ordering::Acquire);

            unsafe {
                /*
                SAFETY:
                This is safe because there are no removals from the skip list and because we
                use an acquire load to get the pointer. We also do a null check right before.
                Insertions also require external synchronization so we can be sure that the
                users of the skip list only have one thread performing mutations. The value must
                also be initialized or the `Option` containing this pointer would be `None` for no
                next pointer.
                */
                maybe_node.as_mut()
            }
        })
    }
}

/// A skip list that allows for concurrent reads without external synchronization (i.e. via locks).
///
/// # Concurrency
///
/// **NOTE: Insertions will require an external lock!**
///
/// This skip list implementation is used by an append only database project that only needs append
/// and not deletion. Because of this use-case, deletion is not implemented. It is a larger project
/// to support full functionality here.
///
/// Because reads are lock-free, iterators may see new values pop up from concurrent insertions.
/// However, we should not miss any values that were present when the iterator was created.
///
/// # Safety
///
/// Invariants:
///
/// - If an Link exists it must be valid to dereference to a `SkipNode`.
/// - Nodes are never deleted.
/// - Only insertions modify the pointers and this is done with [`Ordering::Release`] stores.
///
/// [`Ordering::Release`]: std::sync::atomic::Ordering
#[derive(Debug)]
pub struct ConcurrentSkipList<K: Ord + Debug, V: Clone> {
    /// A pointer to a dummy head node.
    head_ptr: NonNull<SkipNode<K, V>>,
    /// The number of elements in the skip list.
    length: AtomicUsize,
    /// The probability of success used in probability distribution for determining height of a new
    /// node. Defaults to 0.25.
    probability: f64,
    /// Approximate memory used by the skip list in number of bytes.
    approximate_mem_usage: AtomicUsize,
}

/// Public methods
impl<K: Ord + Debug, V: Clone> ConcurrentSkipList<K, V> {
    /// Create a new skip list.
    ///
    /// `probability` is the probability of success used in probability distribution for determining
    /// height of a new node. Defaults to 0.25.
    ///
    /// # Examples
    /// ```
    /// use nerdondon_hopscotch::concurrent_skiplist::ConcurrentSkipList;
    ///
    /// let skiplist = ConcurrentSkipList::<i32, String>::new(None);
    /// ```
    pub fn new(probability: Option<f64>) -> Self {
        let mut head = Box::new(SkipNode::head());
        let skiplist = ConcurrentSkipList {
            head_ptr: NonNull::new(head.as_mut()).unwrap(),
            length: AtomicUsize::new(0),
            probability: probability.unwrap_or(0.25),
            approximate_mem_usage: AtomicUsize::new(0),
        };
        Box::leak(head);

        // TODO: Make size tracking a feature?
        let size = mem::size_of_val(&skiplist) + mem::size_of::<SkipNode<K, V>>();
        skiplist
            .approximate_mem_usage
            .store(size, atomic::Ordering::Release);

        skiplist
    }

    /// Get an immutable reference to the value corresponding to the specified `key`.
    ///
    /// Returns `Some(V)` if found and `None` if not
    pub fn get(&self, key: &K) -> Option<&V> {
        if self.is_empty() {
            return None;
        }

        let potential_record = self.find_greater_or_equal_node(key);
        if let Some(record) = potential_record {
            if record.key.as_ref().unwrap().eq(key) {
                return record.value.as_ref();
            }
        }

        None
    }

    /// Insert a key-value pair.
    ///
    /// # Safety
    ///
    /// The caller must have an external lock on this skiplist in order to safely call this method.
    ///
    /// # Examples
    /// ```
    /// use nerdondon_hopscotch::concurrent_skiplist::ConcurrentSkipList;
    ///
    /// let skiplist = ConcurrentSkipList::<i32, String>::new(None);
    /// // SAFETY: Single thread insert
    /// unsafe {
    ///     skiplist.insert(2, "banana".to_string());
    ///     skiplist.insert(3, "orange".to_string());
    ///     skiplist.insert(1, "apple".to_string());
    /// }
    ///
    /// let some_value = skiplist.get(&2).unwrap();
    /// assert_eq!(some_value, "banana");
    /// ```
    pub unsafe fn insert(&self, key: K, value: V) {
        self.insert_internal(key, value, None);
    }

    /// Return a reference to the key and value of the first node with a key that is greater than
    /// or equal to the target key.
    pub fn find_greater_or_equal(&self, target: &K) -> Option<(&K, &V)> {
        self.find_greater_or_equal_node(target)
            .map(|node| (node.key.as_ref().unwrap(), node.value.as_ref().unwrap()))
    }

    /// Return a reference to the key and value of the last node with a key that is less than the
    /// target key.
    pub fn find_less_than(&self, target: &K) -> Option<(&K, &V)> {
        self.find_less_than_node(target)
            .map(|node| (node.key.as_ref().unwrap(), node.value.as_ref().unwrap()))
    }

    /// Return a reference to the last node with a key that is less than the target key.
    pub fn find_less_than_node(&self, target: &K) -> Option<&SkipNode<K, V>> {
        if self.is_empty() {
            return None;
        }

        let mut current_node = self.head();
        // Start iteration at the top of the skip list "towers" and iterate through pointers at the
        // current level. If we skipped past our key, move down a level.
        for level_idx in (0..self.height()).rev() {
            // Get an optional of the next node
            let mut maybe_next_node = current_node.next_at_level(level_idx);

            while let Some(next_node) = maybe_next_node {
                match next_node.key.as_ref().unwrap().cmp(target) {
                    std::cmp::Ordering::Less => {
                        current_node = next_node;
                        maybe_next_node = next_node.next_at_level(level_idx);
                    }
                    _ => break,
                }
            }
        }

        // Only the head node has empty keys and values, so this means the search
        // stayed on the head node. This can happen if we are searching for a target
        // with less than all of the keys in the skip list. Return `None` in this case.
        current_node.key.as_ref()?;

        Some(current_node)
    }

    /// Return a reference to the first node with a key that is greater than or equal to the target
    /// key.
    pub fn find_greater_or_equal_node(&self, target: &K) -> Option<&SkipNode<K, V>> {
        if self.is_empty() {
            return None;
        }

        let mut current_node = self.head();
        // Start iteration at the top of the skip list "towers" and iterate through pointers at the
        // current level. If we skipped past our key, move down a level.
        for level_idx in (0..self.height()).rev() {
            // Get an optional of the next node
            let mut maybe_next_node = current_node.next_at_level(level_idx);

            while let Some(next_node) = maybe_next_node {
                match next_node.key.as_ref().unwrap().cmp(target) {
                    std::cmp::Ordering::Less => {
                        current_node = next_node;
                        maybe_next_node = next_node.next_at_level(level_idx);
                    }
                    std::cmp::Ordering::Equal | std::cmp::Ordering::Greater => {
                        if level_idx == 0 {
                            // We are at the bottom of the tower, so this is closest node greater
                            // than or equal to our target.
                            return Some(next_node);
                        }

                        // We found a node greater than or equal to our target. See if this is the
                        // the first greatest node after our target by breaking and moving one
                        // level down in the tower.
                        break;
                    }
                }
            }
        }

        // This is reached when the target is greater than all of the nodes in the skip list.
        None
    }

    /// Return a reference to the key and value of the first node in the skip list if there is a
    /// node. Otherwise, it returns `None`.
    pub fn first(&self) -> Option<(&K, &V)> {
        self.first_node()
            .map(|node| (node.key.as_ref().unwrap(), node.value.as_ref().unwrap()))
    }

    /// Return a reference to the key and value of the last node in the skip list if there is a
    /// node. Otherwise, it returns `None`.
    pub fn last(&self) -> Option<(&K, &V)> {
        self.last_node()
            .map(|node| (node.key.as_ref().unwrap(), node.value.as_ref().unwrap()))
    }

    /// Return a reference to the first node in the skip list if there is a node. Otherwise, it
    /// returns `None`.
    pub fn first_node(&self) -> Option<&SkipNode<K, V>> {
        self.head().next()
    }

    /// Return a reference to the last node in the skip list if there is a node. Otherwise, it
    /// returns `None`.
    pub fn last_node(&self) -> Option<&SkipNode<K, V>> {
        if self.is_empty() {
            return None;
        }

        let mut current_node = self.head();
        for level_idx in (0..self.height()).rev() {
            let mut maybe_next_node = current_node.next_at_level(level_idx);
            while let Some(next_node) = maybe_next_node {
                current_node = next_node;
                maybe_next_node = next_node.next_at_level(level_idx);
            }
        }

        Some(current_node)
    }

    /// The number of elements in the skip list.
    pub fn len(&self) -> usize {
        self.length.load(atomic::Ordering::Acquire)
    }

    /// Returns true if the skip list does not hold any elements; otherwise false.
    pub fn is_empty(&self) -> bool {
        self.length.load(atomic::Ordering::Acquire) == 0
    }

    /// Get the approximate amount of memory used in number of bytes.
    ///
    /// This value is not accurate unless used with keys and values that implement `[Sizeable]` and
    /// using the `ConcurrrentSkipList::insert_with_size` method.
    pub fn get_approx_mem_usage(&self) -> usize {
        self.approximate_mem_usage.load(atomic::Ordering::Acquire)
    }

    /// An iterator visiting each node in order.
    ///
    /// Returns values of (&'a K, &'a V)
    pub fn iter(&self) -> NodeIterHelper<'_, K, V> {
        if self.is_empty() {
            return NodeIterHelper { next: None };
        }

        let next = self.head().next();

        NodeIterHelper { next }
    }
}

/// Implementation for keys and values that implement `Clone`
impl<K, V> ConcurrentSkipList<K, V>
where
    K: Ord + Debug + Clone,
    V: Clone,
{
    /// Eagerly returns the entries stored in the skip list as `Vec<(K,V)>` with cloned values.
    ///
    /// # Examples
    /// ```
    /// use nerdondon_hopscotch::concurrent_skiplist::ConcurrentSkipList;
    ///
    /// let skiplist = ConcurrentSkipList::<i32, String>::new(None);
    /// // SAFETY: Single thread insert
    /// unsafe {
    ///     skiplist.insert(2, "banana".to_string());
    ///     skiplist.insert(3, "orange".to_string());
    ///     skiplist.insert(1, "apple".to_string());
    /// }
    ///
    /// let entries = skiplist.entries();
    /// assert_eq!(
    ///   entries,
    ///   [
    ///     (1, "apple".to_string()),
    ///     (2, "banana".to_string()),
    ///     (3, "orange".to_string())
    ///   ]
    /// );
    /// ```
    pub fn entries(&self) -> Vec<(K, V)> {
        let mut kv_pairs = Vec::<(K, V)>::with_capacity(self.len());
        for (key, value) in self.iter() {
            let cloned_key = key.clone();
            let cloned_value = value.clone();
            kv_pairs.push((cloned_key, cloned_value));
        }

        kv_pairs
    }

    /// Print out the keys of elements in the skip list.
    pub fn print_keys(&self) {
        let entries = self.entries();
        for (key, _value) in entries {
            println!("Key: {:?}", key);
        }
    }
}

/// Implementation for keys and values that implement `Sizeable`
impl<K: Ord + Debug + Sizeable, V: Clone + Sizeable> ConcurrentSkipList<K, V> {
    /// Insert a key-value pair that is [`Sizeable`].
    ///
    /// # Duplication
    ///
    /// This method is required to be named differently because Rust does not support
    /// specialization of generic implementations yet.
    ///
    /// # Safety
    ///
    /// The caller must have an external lock on this skiplist in order to safely call this method.
    pub unsafe fn insert_with_size(&self, key: K, value: V) {
        let approx_kv_size = key.get_approx_size() + value.get_approx_size();
        self.insert_internal(key, value, Some(approx_kv_size));
    }
}

/// Private methods
impl<K: Ord + Debug, V: Clone> ConcurrentSkipList<K, V> {
    /// Return a reference to the head node.
    fn head(&self) -> &SkipNode<K, V> {
        // SAFTEY: This is safe because the head is always guaranteed to exist.
        unsafe { self.head_ptr.as_ref() }
    }

    /// Return a mutable reference to the head node.
    ///
    /// FIXME: I'm just doing this to keep my other project going. We don't really care about a
    /// data race because we assert that a lock is around insert. Porting C++ to Rust kinda hurts :/
    #[allow(clippy::mut_from_ref)]
    fn head_mut(&self) -> &mut SkipNode<K, V> {
        // SAFTEY: This is safe because the head is always guaranteed to exist.
        unsafe { &mut *self.head_ptr.as_ptr() }
    }

    /// The current maximum height of the skip list.
    fn height(&self) -> usize {
        self.head().levels.len()
    }

    /// Generates a random height according to a geometric distribution.
    fn random_height(&self) -> usize {
        // 0x6261746d616e6e => Batmann for my dog :)
        let mut rng = StdRng::seed_from_u64(0x6261746d616e6e);
        let distribution = Geometric::new(self.probability).unwrap();
        let sample = distribution.sample(&mut rng);

        if sample == 0 || sample > (self.height() + 3).try_into().unwrap() {
            // Avoid zero height and only increase the height by one if the number drawn is much
            // more than the current maximum height. This is just an arbitrary cap on the growth in
            // height of the skip list.
            self.height() + 1
        } else {
            sample as usize
        }
    }

    /// Insert key-value with and optional approximated size of the key-value pair.
    unsafe fn insert_internal(&self, key: K, value: V, maybe_kv_size_bytes: Option<usize>) {
        let new_node_height = self.random_height();
        if new_node_height > self.height() {
            self.adjust_head(new_node_height);
        }

        // Track where we end on each level
        let mut nodes_to_update: Vec<Option<*mut SkipNode<K, V>>> = vec![None; self.height()];
        let list_height = self.height();
        let mut current_node_ptr: *mut _ = self.head_mut();

        // Start iteration at the top of the skip list "towers" and find the insert position at each
        // level
        for level_idx in (0..list_height).rev() {
            // Get an optional of the next node
            // SAFETY: It is safe to dereference the raw pointer because we have a lock
            let mut maybe_next_node = (*current_node_ptr).next_at_level_mut(level_idx);

            while let Some(next_node) = maybe_next_node {
                match next_node.key.as_ref().unwrap().cmp(&key) {
                    std::cmp::Ordering::Less => {
                        current_node_ptr = next_node;
                        maybe_next_node = next_node.next_at_level_mut(level_idx);
                    }
                    _ => break,
                }
            }

            // Keep track of the node we stopped at. This is either the node right before our new
            // node or head node of the level if no lesser node was found.
            //
            // We are effectively giving out multiple mutable pointers right here. This seems ok
            // since we are the only writer (it is part of the contract that callers have
            // a lock). The bottom loop also ensures that only one cast of a potentially duplicate
            // pointer is active at a time. Explicitly, two mutable pointers that point to the same
            // memory location are never casted to mutable references at the same time.
            nodes_to_update[level_idx] = Some(current_node_ptr);
        }

        let mut new_node = Box::new(SkipNode::new(key, value, new_node_height));
        let new_node_ptr = new_node.as_mut() as *mut SkipNode<K, V>;
        for level_idx in (0..new_node_height).rev() {
            // verification copy: a scheduling point before the node is linked into each level
            parking_lot::verif_rt::switch_point("memtable.link");
            /*
            SAFETY:
            Dereferencing the *mut is ok here because we have exclusive access to modifying the
            node pointers and we casted into a *mut above. The node we casted is from a pointer
            that we got via an acquire load which also ensure validity.
            */
            let previous_node = &mut **(nodes_to_update[level_idx].as_mut().unwrap());

            // Set the new node's next pointer for this level. Specifically, `previous_node`'s next
            // node at this level becomes `new_node`'s next node at this level
            new_node.levels[level_idx] =
                previous_node.levels[level_idx]
                    .as_ref()
                    .map(|next_node_atomic_ptr| {
                        let underlying_ptr = next_node_atomic_ptr.load(atomic::Ordering::Acquire);
                        Arc::new(AtomicPtr::from(underlying_ptr))
                    });

            // Set the next pointer of the previous node to the new node
            match previous_node.levels[level_idx].as_ref() {
                Some(prev_node_next_ptr) => {
                    // If there was an existing pointer at this level, atomically replace the
                    // pointer
                    prev_node_next_ptr.store(new_node_ptr, atomic::Ordering::Release);
                }
                None => {
                    // There was not an existing pointer at this level
                    previous_node.levels[level_idx] = Some(Arc::new(AtomicPtr::new(new_node_ptr)));
                }
            }
        }

        // Book keeping for size
        // The additional usage should be from the size of the new node and the size of references
        // to this new node. This is multiplied by 2 to approximate the storage in the `levels`
        // vector. `mem::size_of` and `mem::size_of_val` does not actually get the size of vectors
        // since vectors are allocated to the heap and only a pointer is stored in the field.
        let approx_usage = mem::size_of::<SkipNode<K, V>>()
            + (2 * mem::size_of::<Link<K, V>>() * new_node_height)
            + maybe_kv_size_bytes.unwrap_or(0);
        self.approximate_mem_usage
            .fetch_add(approx_usage, atomic::Ordering::AcqRel);
        self.inc_length();

        /*
        `Box::leak` is called so that the node does not get deallocated at the end of the function.
        The `SkipList::remove` method will ensure to reform the box from the pointer so that the
        node is de-allocated on removal.
        */
        Box::leak(new_node);
    }

    /// Adjust the levels stored in head to match a new height.
    fn adjust_head(&self, new_height: usize) {
        if self.height() >= new_height {
            return;
        }

        let height_difference = new_height - self.height();
        for _ in 0..height_difference {
            self.head_mut().levels.push(None);
        }
    }

    /// Increment length by 1.
    fn inc_length(&self) {
        self.length.fetch_add(1, atomic::Ordering::AcqRel);
    }
}

/// An iterator adapter over the nodes of a `SkipList`.
///
/// This `struct` is created by the [`iter`] method.
///
/// [`iter`]: SkipList::iter
pub struct NodeIterHelper<'a, K, V>
where
    K: Ord + Debug,
    V: Clone,
{
    next: Option<&'a SkipNode<K, V>>,
}

impl<'a, K, V> Iterator for NodeIterHelper<'a, K, V>
where
    K: Ord + Debug,
    V: Clone,
{
    type Item = (&'a K, &'a V);

    fn next(&mut self) -> Option<Self::Item> {
        let wrapped_current_node = self.next;

        // Short-circuit return `None`
        wrapped_current_node?;

        let current_node = wrapped_current_node.unwrap();
        self.next = current_node.next();

        Some((
            current_node.key.as_ref().unwrap(),
            current_node.value.as_ref().unwrap(),
        ))
    }
}

impl<'a, K, V> IntoIterator for &'a ConcurrentSkipList<K, V>
where
    K: Ord + Debug,
    V: Clone,
{
    type Item = (&'a K, &'a V);
    type IntoIter = NodeIterHelper<'a, K, V>;

    fn into_iter(self) -> NodeIterHelper<'a, K, V> {
        self.iter()
    }
}

impl<K, V> FusedIterator for NodeIterHelper<'_, K, V>
where
    K: Ord + Debug,
    V: Clone,
{
}

/// SAFETY: This is safe for because atomic operations are used when changing pointers.
unsafe impl<K, V> Send for ConcurrentSkipList<K, V>
where
    K: Ord + Debug,
    V: Clone,
{
}

/// SAFETY: This is safe for because atomic operations are used when changing pointers.
unsafe impl<K, V> Sync for ConcurrentSkipList<K, V>
where
    K: Ord + Debug,
    V: Clone,
{
}

impl<K, V> Drop for ConcurrentSkipList<K, V>
where
    K: Ord + Debug,
    V: Clone,
{
    fn drop(&mut self) {
        if self.is_empty() {
            return;
        }

        // SAFETY: This is safe be cause the head is guaranteed to always exist.
        let head = unsafe { Box::from_raw(self.head_ptr.as_ptr()) };

        let mut maybe_node_ptr = head.levels[0]
            .as_ref()
            .map(|node_ptr| node_ptr.load(atomic::Ordering::Acquire));

        while maybe_node_ptr.is_some() {
            let current_node_ptr = maybe_node_ptr.unwrap();

            if current_node_ptr.is_null() {
                break;
            }

            /*
            Re-box the allocation the pointer represents so that it can get dropped. Insert's
            leak the boxed node when it is created.

            It is ok to leave pointers in the dropped node's levels vector dangling because all
            nodes are getting dropped.
            */
            let current_node = unsafe {
                /*
                SAFETY:
                We check that there is a pointer in the option before entering the loop which
                guarantees that the node was initialized. We also check that the pointer is not
                null.
                */
                Box::from_raw(current_node_ptr)
            };

            maybe_node_ptr = current_node.levels[0]
                .as_ref()
                .map(|node_ptr| node_ptr.load(atomic::Ordering::Acquire));
        }
    }
}

#[cfg(test)]
mod tests {
    use super::*;
    use pretty_assertions::assert_eq;

    #[test]
    fn with_an_empty_skiplist_get_returns_none() {
        let skiplist = ConcurrentSkipList::<i32, String>::new(None);
        assert_eq!(skiplist.get(&10), None);
    }

    #[test]
    fn with_an_empty_skiplist_is_empty_returns_true() {
        let skiplist = ConcurrentSkipList::<i32, String>::new(None);
        assert_eq!(skiplist.is_empty(), true);
    }

    #[test]
    fn with_an_empty_skiplist_len_returns_zero() {
        let skiplist = ConcurrentSkipList::<i32, String>::new(None);
        assert_eq!(skiplist.len(), 0);
    }

    #[test]
    fn with_an_empty_skiplist_insert_can_add_an_element() {
        let skiplist = ConcurrentSkipList::<i32, String>::new(None);

        // SAFETY: Single thread insert
        unsafe { skiplist.insert(1, "apple".to_string()) };

        assert_eq!(skiplist.len(), 1);
    }

    #[test]
    fn insert_can_add_an_element_after_an_existing_element() {
        // SAFETY: Single thread insert
        unsafe {
            let skiplist = ConcurrentSkipList::<i32, String>::new(None);
            skiplist.insert(1, "apple".to_string());

            skiplist.insert(2, "banana".to_string());

            assert_eq!(skiplist.len(), 2);
        }
    }

    #[test]
    fn insert_can_add_an_element_before_an_existing_element() {
        // SAFETY: Single thread insert
        unsafe {
            let skiplist = ConcurrentSkipList::<i32, String>::new(None);
            skiplist.insert(2, "banana".to_string());

            skiplist.insert(1, "apple".to_string());

            assert_eq!(skiplist.len(), 2);
        }
    }

    #[test]
    fn insert_can_add_an_element_between_existing_elements() {
        // SAFETY: Single thread insert
        unsafe {
            let skiplist = ConcurrentSkipList::<i32, String>::new(None);
            skiplist.insert(3, "orange".to_string());
            skiplist.insert(1, "apple".to_string());

            skiplist.insert(2, "banana".to_string());

            assert_eq!(skiplist.len(), 3);
        }
    }

    #[test]
    fn get_an_element_at_the_head() {
        // SAFETY: Single thread insert
        unsafe {
            let skiplist = ConcurrentSkipList::<i32, String>::new(None);
            skiplist.insert(1, "apple".to_string());
            skiplist.insert(3, "orange".to_string());
            skiplist.insert(2, "banana".to_string());
            let expected_value = "apple".to_string();

            let actual_value = skiplist.get(&1).unwrap();

            assert_eq!(&expected_value, actual_value);
        }
    }

    #[test]
    fn get_an_element_in_the_middle() {
        // SAFETY: Single thread insert
        unsafe {
            let skiplist = ConcurrentSkipList::<i32, String>::new(None);
            skiplist.insert(2, "banana".to_string());
            skiplist.insert(1, "apple".to_string());
            skiplist.insert(3, "orange".to_string());
            let expected_value = "banana".to_string();

            let actual_value = skiplist.get(&2).unwrap();

            assert_eq!(&expected_value, actual_value);
        }
    }

    #[test]
    fn get_an_element_at_the_tail() {
        // SAFETY: Single thread insert
        unsafe {
            let skiplist = ConcurrentSkipList::<i32, String>::new(None);
            skiplist.insert(2, "banana".to_string());
            skiplist.insert(3, "orange".to_string());
            skiplist.insert(1, "apple".to_string());
            let expected_value = "orange".to_string();

            let actual_value = skiplist.get(&3).unwrap();

            assert_eq!(&expected_value, actual_value);
        }
    }

    #[test]
    fn with_a_non_empty_skiplist_getting_a_non_existent_element_returns_none() {
        // SAFETY: Single thread insert
        unsafe {
            let skiplist = ConcurrentSkipList::<i32, String>::new(None);
            skiplist.insert(2, "banana".to_string());
            skiplist.insert(3, "orange".to_string());
            skiplist.insert(1, "apple".to_string());

            let actual_value = skiplist.get(&0);

            assert_eq!(None, actual_value);
        }
    }

    #[test]
    fn with_a_non_empty_skiplist_is_empty_returns_false() {
        // SAFETY: Single thread insert
        unsafe {
            let skiplist = ConcurrentSkipList::<i32, String>::new(None);
            skiplist.insert(2, "banana".to_string());
            skiplist.insert(3, "orange".to_string());
            skiplist.insert(1, "apple".to_string());

            assert_eq!(skiplist.is_empty(), false);
        }
    }

    #[test]
    fn with_an_empty_skiplist_collect_returns_an_empty_vec() {
        let skiplist = ConcurrentSkipList::<i32, String>::new(None);

        let actual_value = skiplist.entries();

        assert_eq!(actual_value.len(), 0);
        assert_eq!(actual_value, []);
    }

    #[test]
    fn entries_returns_a_vec_with_the_key_value_pairs_of_elements() {
        // SAFETY: Single thread insert
        unsafe {
            let skiplist = ConcurrentSkipList::<i32, String>::new(None);
            skiplist.insert(2, "banana".to_string());
            skiplist.insert(3, "orange".to_string());
            skiplist.insert(1, "apple".to_string());

            let actual_value = skiplist.entries();

            assert_eq!(actual_value.len(), 3);
            assert_eq!(
                actual_value,
                [
                    (1, "apple".to_string()),
                    (2, "banana".to_string()),
                    (3, "orange".to_string())
                ]
            );
        }
    }

    #[test]
    fn get_approx_mem_usage_provides_decent_estimates() {
        // SAFETY: Single thread insert
        unsafe {
            // Note that these estimates have only just some basis in reality. We do not attempt to get
            // too crazy with the estimates. Just make sure the numbers are somewhat sane.

            // Approximated initial usage
            // size of head node
            //   = 1 (None) + 1 (None) + 3 (vec pointer) + 0 (empty vec actual size) = 26
            // size of SkipList = 8 (length) + 8 (probability) + 8 (approx_mem_usage)  = 24
            let approx_initial_usage: usize = 50;

            // Approximate node size
            // size of `levels` actually = height of the skiplist * size of `Link`
            let base_node_usage: usize = mem::size_of::<SkipNode<u16, Vec<u8>>>();
            let link_size = mem::size_of::<Link<u16, Vec<u8>>>();

            let mut usage_approximation = approx_initial_usage;

            let skiplist = ConcurrentSkipList::<u16, Vec<u8>>::new(None);
            assert!(skiplist.get_approx_mem_usage() >= usage_approximation);

            skiplist.insert_with_size(1, "apple".into());
            usage_approximation += base_node_usage
                + mem::size_of::<u16>()
                + "apple".len()
                + skiplist.height() * link_size;
            assert!(
                skiplist.get_approx_mem_usage() > usage_approximation,
                "Expected the actual memory usage approximation ({}) to be greater than {}",
                skiplist.get_approx_mem_usage(),
                usage_approximation
            );

            skiplist.insert_with_size(2, "banana".into());
            usage_approximation += base_node_usage
                + mem::size_of::<u16>()
                + "banana".len()
                + skiplist.height() * link_size;
            assert!(
                skiplist.get_approx_mem_usage() > usage_approximation,
                "Expected the actual memory usage approximation ({}) to be greater than {}",
                skiplist.get_approx_mem_usage(),
                usage_approximation
            );

            skiplist.insert_with_size(3, [b'c'; 3000].to_vec());
            usage_approximation += base_node_usage
                + mem::size_of::<u16>()
                + mem::size_of_val(&[b'c'; 3000])
                + skiplist.height() * link_size;
            assert!(
                skiplist.get_approx_mem_usage() > usage_approximation,
                "Expected the actual memory usage approximation ({}) to be greater than {}",
                skiplist.get_approx_mem_usage(),
                usage_approximation
            );
        }
    }

    #[test]
    fn with_a_non_empty_skiplist_first_returns_references_to_the_first_key_value_pair() {
        // SAFETY: Single thread insert
        unsafe {
            let skiplist = ConcurrentSkipList::<i32, String>::new(None);
            skiplist.insert(2, "banana".to_string());
            skiplist.insert(3, "orange".to_string());
            skiplist.insert(1, "apple".to_string());
            skiplist.insert(4, "strawberry".to_string());
            skiplist.insert(5, "watermelon".to_string());

            assert_eq!(skiplist.first(), Some((&1, &"apple".to_string())));
        }
    }

    #[test]
    fn with_an_empty_skiplist_first_returns_none() {
        let skiplist = ConcurrentSkipList::<i32, String>::new(None);

        assert_eq!(skiplist.first(), None);
    }

    #[test]
    fn with_a_non_empty_skiplist_last_returns_references_to_the_last_key_value_pair() {
        // SAFETY: Single thread insert
        unsafe {
            let skiplist = ConcurrentSkipList::<i32, String>::new(None);
            skiplist.insert(2, "banana".to_string());
            skiplist.insert(3, "orange".to_string());
            skiplist.insert(1, "apple".to_string());
            skiplist.insert(4, "strawberry".to_string());
            skiplist.insert(5, "watermelon".to_string());

            assert_eq!(skiplist.last(), Some((&5, &"watermelon".to_string())));
        }
    }

    #[test]
    fn with_an_empty_skiplist_last_returns_none() {
        let skiplist = ConcurrentSkipList::<i32, String>::new(None);

        assert_eq!(skiplist.last(), None);
    }

    #[test]
    fn with_a_non_empty_skiplist_find_greater_or_equal_returns_correct_responses() {
        // SAFETY: Single thread insert
        unsafe {
            let skiplist = ConcurrentSkipList::<i32, String>::new(None);
            skiplist.insert(2, "banana".to_string());
            skiplist.insert(3, "orange".to_string());
            skiplist.insert(1, "apple".to_string());
            skiplist.insert(4, "strawberry".to_string());
            skiplist.insert(5, "watermelon".to_string());
            skiplist.insert(11, "grapefruit".to_string());
            skiplist.insert(12, "mango".to_string());

            assert_eq!(
                skiplist.find_greater_or_equal(&1),
                Some((&1, &"apple".to_string())),
                "The target is the first element so it should be found"
            );

            assert_eq!(
                skiplist.find_greater_or_equal(&3),
                Some((&3, &"orange".to_string())),
                "The middle element exists so it should be found"
            );

            assert_eq!(
                skiplist.find_greater_or_equal(&7),
                Some((&11, &"grapefruit".to_string())),
                "The target does not exist but there is a greater node so it should return that node"
            );

            assert_eq!(
                skiplist.find_greater_or_equal(&12),
                Some((&12, &"mango".to_string())),
                "THe last element exists so it should be found"
            );

            assert_eq!(
                skiplist.find_greater_or_equal(&20),
                None,
                "The target is greater than every element in the list so `None` should be returned"
            );
        }
    }

    #[test]
    fn with_a_non_empty_skiplist_find_less_than_returns_correct_responses() {
        // SAFETY: Single thread insert
        unsafe {
            let skiplist = ConcurrentSkipList::<i32, String>::new(None);
            skiplist.insert(2, "banana".to_string());
            skiplist.insert(3, "orange".to_string());
            skiplist.insert(1, "apple".to_string());
            skiplist.insert(4, "strawberry".to_string());
            skiplist.insert(5, "watermelon".to_string());
            skiplist.insert(11, "grapefruit".to_string());
            skiplist.insert(12, "mango".to_string());

            assert_eq!(
                skiplist.find_less_than(&0),
                None,
                "Finding a target less than every element in the list returns `None`"
            );

            assert_eq!(
                skiplist.find_less_than(&1),
                None,
                "Finding a target less than the first element returns `None`"
            );

            assert_eq!(
                skiplist.find_less_than(&3),
                Some((&2, &"banana".to_string())),
                "Finding a target less than an existing middle element"
            );

            assert_eq!(
                skiplist.find_less_than(&7),
                Some((&5, &"watermelon".to_string())),
                "Finding a target less than a non-existent middle element"
            );

            assert_eq!(
                skiplist.find_less_than(&20),
                Some((&12, &"mango".to_string())),
                "Finding a target greater than all elements returns the last element"
            );
        }
    }
}

#[cfg(test)]
mod concurrency_tests {
    use super::*;
    use rand::RngCore;
    use std::iter;
    use std::sync::atomic::AtomicBool;
    use std::sync::Arc;
    use std::thread;
    use std::time::Duration;

    const NUM_KEYS: usize = 4;

    /**
    This test attempts to mimic the [concurrent test] used for the skip list in LevelDB.

    We want to make sure that with a single writer and multiple concurrent readers, the readers
    always observe all data that was present in the skip list when a reader was spawned. Because
    insertions happen concurrently, we may observe new values.

    Keys will be a tuple of (key: usize, generation: usize) where key will be in a range [0...K-1]
    and generation is some monotonically increasing number.

    Insertions will pick a random key and set the generation to 1 + the last generation number
    inserted for that key.

    At the beginning of a read, a snapshot of last inserted generation numbers for each key is
    taken. Read activities are then commenced. For every key encountered, we check that it is
    either expected given the initial snapshot or has been added since the reader started reading.

    [concurrent test]: https://github.com/google/leveldb/blob/e426c83e88c4babc785098d905c2dcb4f4e884af/db/skiplist_test.cc#L128
    */
    #[test]
    fn with_concurrent_threads_readers_see_correct_values() {
        let num_runs = 1000;
        let num_writes = 1000;
        for run in 0..1000 {
            if run % 100 == 0 {
                println!("Run {} of {}", run, num_runs);
            }

            let harness = Arc::new(TestHarness::new());
            let cloned_harness = Arc::clone(&harness);
            let handle = thread::spawn(move || {
                TestHarness::concurrent_reader(cloned_harness);
            });

            // Give some time for the reader thread to spin up
            thread::sleep(Duration::from_millis(50));

            // Perform writes
            for _ in 0..num_writes {
                harness.write_step();
            }

            harness.stop_flag.store(true, atomic::Ordering::Release);
            handle.join().unwrap();
        }
    }

    /// A snapshot of the current state of keys in the test.
    struct Snapshot {
        generations: [Arc<AtomicUsize>; NUM_KEYS],
    }

    impl Snapshot {
        /// Create a new instance of [`Snapshot`].
        fn new() -> Self {
            let generations: [Arc<AtomicUsize>; NUM_KEYS] =
                iter::repeat_with(|| Arc::new(AtomicUsize::new(0)))
                    .take(4)
                    .collect::<Vec<Arc<AtomicUsize>>>()
                    .try_into()
                    .unwrap();

            Self { generations }
        }

        /// Set the generation number of a key.
        fn set(&self, k: usize, generation: usize) {
            self.generations[k].store(generation, atomic::Ordering::Release);
        }

        /// Get the generation number of a key.
        fn get(&self, k: usize) -> usize {
            self.generations[k].load(atomic::Ordering::Acquire)
        }
    }

    /// A harness that holds test state information.
    struct TestHarness {
        /// Flag to signal reader threads to stop.
        stop_flag: Arc<AtomicBool>,

        /// Seed for random number generators.
        random_seed: u64,

        /// The skip list under test.
        skiplist: Arc<ConcurrentSkipList<(usize, usize), String>>,

        /// A snapshot of the current generation of keys.
        current_snapshot: Snapshot,
    }

    impl TestHarness {
        /// Create a new instance of [`TestHarness`].
        fn new() -> Self {
            let stop_flag = Arc::new(AtomicBool::new(false));
            // 0x726f62696e => Robin, Batmann's real life companion :)
            let random_seed = 0x726f62696e;
            let skiplist = Arc::new(ConcurrentSkipList::<(usize, usize), String>::new(None));
            let current_snapshot = Snapshot::new();

            Self {
                stop_flag,
                random_seed,
                skiplist,
                current_snapshot,
            }
        }

        /// The main task for reader threads.
        fn concurrent_reader(harness: Arc<TestHarness>) {
            while !harness.stop_flag.load(atomic::Ordering::Acquire) {
                harness.read_step(harness.random_seed);
            }
        }

        /// Random reading logic to be performed by reader threads.
        fn read_step(&self, seed: u64) {
            let mut rng = StdRng::seed_from_u64(seed);

            // Remember the initial state of the skip list
            let snapshot = Snapshot::new();
            for key in 0..NUM_KEYS {
                snapshot.set(key, self.current_snapshot.get(key));
            }

            let zero_gen = 0.to_string();
            let mut start_read_range = TestHarness::get_random_start_position(&mut rng);
            let mut iterator = self.skiplist.iter().peekable();
            let mut end_of_read_range: &(usize, usize);

            // Move iterator to the start of the read range
            iterator.position(|(key, _)| key >= &start_read_range);

            loop {
                // Set end of read range to the last element if our starting position is at the last
                // element.
                end_of_read_range = self
                    .skiplist
                    .find_greater_or_equal(&start_read_range)
                    .unwrap_or((&(NUM_KEYS, 0), &zero_gen))
                    .0;

                assert!(
                    &start_read_range <= end_of_read_range,
                    "The end of the range cannot go backwards. The start was {:?} and the end was {:?}.",
                    &start_read_range,
                    end_of_read_range
                );

                /*
                Verify that every thing from [start_read_range, end_of_read_range) was not
                present in the initial state. Generation number 0 is never inserted so the end of
                the range was the greatest at the point in time. Anything within the range was
                added by a concurrent writer so must have a generation number greater than what is
                in the initial state.
                */
                while &start_read_range < end_of_read_range {
                    assert!(
                        start_read_range.0 < NUM_KEYS,
                        "This should be trivially true because we take a modulo when determining keys to insert."
                    );

                    // The zero generation is never inserted so it is ok to be missing.
                    let initial_generation = self.current_snapshot.get(start_read_range.0);
                    assert!(
                        start_read_range.1 == 0 || start_read_range.1 > initial_generation,
                        "Expected to have a generation of 0 or a generation greater than the initial generation ({}) but got {}.",
                        initial_generation,
                        start_read_range.1
                    );

                    // Advance to next key in the valid key space
                    if start_read_range.0 < end_of_read_range.0 {
                        /*
                        If the key of the start of the range is less than the key of end of the
                        range, it means that our random start point did not yet exist in the
                        list. The next valid key would be a jump in key.
                        */
                        start_read_range = (start_read_range.0 + 1, 0);
                    } else {
                        // The end range key cannot be larger than the start range key, so they are
                        // equal. The only valid advance is through the generation numbers.
                        start_read_range = (start_read_range.0, start_read_range.1 + 1);
                    }
                }

                if iterator.peek().is_none() {
                    break;
                }

                // Move the iterator forward by some arbitrary amount
                if rng.next_u32() % 2 == 0 {
                    // Just increase the generation we do reads from or set it to the last element
                    start_read_range = (start_read_range.0, start_read_range.1 + 1);
                    iterator.next();
                } else {
                    let new_target = TestHarness::get_random_start_position(&mut rng);
                    if new_target > start_read_range {
                        // Move forward by some random new target
                        start_read_range = new_target;

                        // Move iterator to the start of the read range
                        iterator.position(|(key, _)| key >= &start_read_range);
                    }
                }
            }
        }

        // Action for inserting a node with a random key at its next generation number.
        fn write_step(&self) {
            let mut rng = StdRng::seed_from_u64(self.random_seed);
            let key: usize = (rng.next_u64() % (NUM_KEYS as u64)) as usize;
            let generation_number = self.current_snapshot.get(key) + 1;

            // SAFETY: Only one thread is writing
            unsafe {
                self.skiplist
                    .insert((key, generation_number), generation_number.to_string());
            }

            self.current_snapshot.set(key, generation_number);
        }

        /// Get a random position to start reads from.
        fn get_random_start_position(rng: &mut StdRng) -> (usize, usize) {
            match rng.next_u32() % 10 {
                0 => {
                    // Start at the beginning
                    (0, 0)
                }
                1 => {
                    // Start at the end
                    (NUM_KEYS, 0)
                }
                _ => {
                    // Start somewhere in the middle
                    ((rng.next_u64() % (NUM_KEYS as u64)) as usize, 0)
                }
            }
        }
    }
}
