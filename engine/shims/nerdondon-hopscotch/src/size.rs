use std::mem;

/// Trait indicating that an implementer can produce values about it's size.
pub trait Sizeable {
    /// Returns the approximate size of the object in bytes.
    fn get_approx_size(&self) -> usize;
}

impl Sizeable for Vec<u8> {
    fn get_approx_size(&self) -> usize {
        self.len()
    }
}

impl Sizeable for Vec<String> {
    fn get_approx_size(&self) -> usize {
        mem::size_of::<Vec<String>>() + self.iter().map(|s| s.len()).sum::<usize>()
    }
}

#[macro_export]
macro_rules! impl_sizeable {
    ($t:ty) => {
        impl Sizeable for $t {
            fn get_approx_size(&self) -> usize {
                mem::size_of::<$t>()
            }
        }
    };
}

impl_sizeable!(bool);

impl_sizeable!(u8);
impl_sizeable!(u16);
impl_sizeable!(u32);
impl_sizeable!(u64);
impl_sizeable!(u128);
impl_sizeable!(usize);

impl_sizeable!(i8);
impl_sizeable!(i16);
impl_sizeable!(i32);
impl_sizeable!(i64);
impl_sizeable!(i128);
impl_sizeable!(isize);

impl_sizeable!(f32);
impl_sizeable!(f64);

impl_sizeable!(char);
