//! Runtime glue shared by the shim, by RainDB's `cfg(raindb_verif)` hooks and by the checker.
//!
//! * `thread`, `mpsc`: the shuttle versions of the three `std` concurrency items RainDB uses.
//! * `switch_point(name)`: a named scheduling point (expands from `verif_point!` in RainDB).
//! * "last point" bookkeeping so the scheduler can report at which kind of point it preempted.
//! * a recorder for panics of RainDB's background thread.

use std::cell::Cell;
use std::sync::atomic::{AtomicBool, AtomicU64, Ordering};

pub use shuttle::thread;

pub mod mpsc {
    pub use shuttle::sync::mpsc::*;
}

thread_local! {
    static LAST_POINT: Cell<&'static str> = const { Cell::new("") };
}

/// Issue a switch after every mutex release (default on).
static SWITCH_AFTER_UNLOCK: AtomicBool = AtomicBool::new(true);
/// Which named points yield: 0 = none, 1 = the `quick` set, 2 = all.
static NAMED_LEVEL: AtomicU64 = AtomicU64::new(0);
/// Counter of named points passed (whether or not they yielded) — evidence only.
static NAMED_PASSED: AtomicU64 = AtomicU64::new(0);

/// While set, the exploring scheduler takes its default choice at every decision and records no
/// node: the harness's own oracle work (recoveries of crash images, final compaction) is executed
/// under the runtime but is not part of the explored schedule space.
static ORACLE_MODE: AtomicBool = AtomicBool::new(false);

pub fn set_oracle_mode(on: bool) {
    ORACLE_MODE.store(on, Ordering::SeqCst);
}

pub fn oracle_mode() -> bool {
    ORACLE_MODE.load(Ordering::SeqCst)
}

pub fn set_switch_after_unlock(on: bool) {
    SWITCH_AFTER_UNLOCK.store(on, Ordering::SeqCst);
}

pub fn set_named_level(level: u64) {
    NAMED_LEVEL.store(level, Ordering::SeqCst);
}

pub fn named_points_passed() -> u64 {
    NAMED_PASSED.load(Ordering::SeqCst)
}

/// Record what kind of operation is about to reach the scheduler.
#[inline]
pub fn note(kind: &'static str) {
    LAST_POINT.with(|c| c.set(kind));
}

/// Read and clear the kind of the operation that led to the current scheduling decision.
#[inline]
pub fn take_last_point() -> &'static str {
    LAST_POINT.with(|c| c.replace(""))
}

#[inline]
pub fn in_execution() -> bool {
    matches!(
        shuttle_engine::runtime::execution::ExecutionState::try_with(|s| s.try_current().is_some()),
        Ok(true)
    )
}

#[inline]
fn plain_switch(kind: &'static str) {
    if std::thread::panicking() || !in_execution() {
        return;
    }
    note(kind);
    shuttle_engine::runtime::thread::continuation::switch();
}

pub(crate) fn after_unlock() {
    if SWITCH_AFTER_UNLOCK.load(Ordering::Relaxed) {
        plain_switch("after_unlock");
    }
}

pub(crate) fn contended_yield(kind: &'static str) {
    if !in_execution() {
        panic!("parking_lot shim: {kind} would block outside of a controlled execution");
    }
    note(kind);
    shuttle::thread::yield_now();
}

/// Named points that belong to the `quick` set (level 1); all others need level 2.
fn is_quick_point(name: &str) -> bool {
    name.starts_with("get.")
        || name.starts_with("write.")
        || name.starts_with("gc.")
        || name.starts_with("iter.")
        || name.starts_with("compact.")
        || name.starts_with("flush.")
        || name.starts_with("memtable.")
}

/// A named scheduling point inside RainDB (hook 2).
#[inline]
pub fn switch_point(name: &'static str) {
    NAMED_PASSED.fetch_add(1, Ordering::Relaxed);
    let level = NAMED_LEVEL.load(Ordering::Relaxed);
    if level == 0 || (level == 1 && !is_quick_point(name)) {
        return;
    }
    plain_switch(name);
}

/// A scheduling point issued by the harness itself (e.g. at filesystem calls).
#[inline]
pub fn harness_switch(kind: &'static str) {
    plain_switch(kind);
}

// ---- background-thread panic recorder ------------------------------------------------------

static BG_PANICS: std::sync::Mutex<Vec<String>> = std::sync::Mutex::new(Vec::new());

pub fn record_background_panic(msg: String) {
    let mut g = match BG_PANICS.lock() {
        Ok(g) => g,
        Err(p) => p.into_inner(),
    };
    g.push(msg);
}

pub fn background_panics() -> Vec<String> {
    match BG_PANICS.lock() {
        Ok(g) => g.clone(),
        Err(p) => p.into_inner().clone(),
    }
}

pub fn clear_background_panics() {
    match BG_PANICS.lock() {
        Ok(mut g) => g.clear(),
        Err(p) => p.into_inner().clear(),
    }
}

pub fn panic_message(payload: &(dyn std::any::Any + Send)) -> String {
    if let Some(s) = payload.downcast_ref::<&str>() {
        s.to_string()
    } else if let Some(s) = payload.downcast_ref::<String>() {
        s.clone()
    } else {
        "<non-string panic payload>".to_string()
    }
}

// ---- orphan background workers (a DB::open that failed before the worker got a command) ------

static ORPHAN_EXITS: AtomicU64 = AtomicU64::new(0);

pub fn note_orphan_worker_exit() {
    ORPHAN_EXITS.fetch_add(1, Ordering::SeqCst);
}

pub fn orphan_worker_exits() -> u64 {
    ORPHAN_EXITS.load(Ordering::SeqCst)
}
