//! Verification shim for `parking_lot` 0.12: exactly the API subset RainDB uses, implemented on
//! the shuttle runtime so that every lock / unlock / wait / notify is a scheduling point of the
//! controlled scheduler in `rdbcheck`.
//!
//! Differences from real `parking_lot` that matter to the harness (and why they are sound):
//!
//! * after **every** mutex release (guard drop, `unlock_fair`, the release inside `unlocked_fair`)
//!   an explicit switch point is issued: "the mutex was just released" is a window for every
//!   call site (shuttle's own release is a yield point *before* the release only);
//! * `RwLock` is the shim's own: never a scheduling point when uncontended (RainDB uses it as an
//!   interior-mutability cell below the database mutex and inside caches); when contended the
//!   task blocks on a condition variable of the runtime until an unlock notifies it; recursive reads are allowed like parking_lot's when no writer waits;
//! * no poisoning (parking_lot has none).

pub mod verif_rt;

use std::cell::UnsafeCell;
use std::fmt;
use std::ops::{Deref, DerefMut};

use shuttle::sync as ss;

// ------------------------------------------------------------------------------------------------
// Mutex
// ------------------------------------------------------------------------------------------------

pub struct Mutex<T: ?Sized> {
    inner: ss::Mutex<T>,
}

pub struct MutexGuard<'a, T: ?Sized> {
    mutex: &'a Mutex<T>,
    inner: Option<ss::MutexGuard<'a, T>>,
}

impl<T> Mutex<T> {
    pub fn new(value: T) -> Self {
        Mutex {
            inner: ss::Mutex::new(value),
        }
    }

    pub fn into_inner(self) -> T {
        match self.inner.into_inner() {
            Ok(v) => v,
            Err(p) => p.into_inner(),
        }
    }
}

impl<T: ?Sized> Mutex<T> {
    pub fn lock(&self) -> MutexGuard<'_, T> {
        verif_rt::note("lock");
        let g = match self.inner.lock() {
            Ok(g) => g,
            Err(p) => p.into_inner(),
        };
        MutexGuard {
            mutex: self,
            inner: Some(g),
        }
    }

    /// Non-blocking attempt; a scheduling point like `lock`.
    pub fn try_lock(&self) -> Option<MutexGuard<'_, T>> {
        verif_rt::note("lock");
        match self.inner.try_lock() {
            Ok(g) => Some(MutexGuard {
                mutex: self,
                inner: Some(g),
            }),
            Err(std::sync::TryLockError::Poisoned(p)) => Some(MutexGuard {
                mutex: self,
                inner: Some(p.into_inner()),
            }),
            Err(std::sync::TryLockError::WouldBlock) => None,
        }
    }

    pub fn is_locked(&self) -> bool {
        match self.inner.try_lock() {
            Ok(_) | Err(std::sync::TryLockError::Poisoned(_)) => false,
            Err(std::sync::TryLockError::WouldBlock) => true,
        }
    }

    pub fn get_mut(&mut self) -> &mut T {
        match self.inner.get_mut() {
            Ok(v) => v,
            Err(p) => p.into_inner(),
        }
    }
}

impl<T: Default> Default for Mutex<T> {
    fn default() -> Self {
        Mutex::new(T::default())
    }
}

impl<T: ?Sized> fmt::Debug for Mutex<T> {
    fn fmt(&self, f: &mut fmt::Formatter<'_>) -> fmt::Result {
        f.write_str("Mutex { .. }")
    }
}

impl<'a, T: ?Sized> MutexGuard<'a, T> {
    fn release(&mut self) {
        if let Some(g) = self.inner.take() {
            verif_rt::note("unlock");
            drop(g);
            verif_rt::after_unlock();
        }
    }

    fn reacquire(&mut self) {
        verif_rt::note("lock");
        let g = match self.mutex.inner.lock() {
            Ok(g) => g,
            Err(p) => p.into_inner(),
        };
        self.inner = Some(g);
    }

    /// Temporarily unlocks the mutex to execute the given function.
    pub fn unlocked_fair<F, U>(s: &mut Self, f: F) -> U
    where
        F: FnOnce() -> U,
    {
        s.release();
        // Re-lock also when `f` unwinds, like parking_lot does.
        struct Relock<'g, 'a, T: ?Sized>(&'g mut MutexGuard<'a, T>);
        impl<T: ?Sized> Drop for Relock<'_, '_, T> {
            fn drop(&mut self) {
                self.0.reacquire();
            }
        }
        let _relock = Relock(s);
        f()
    }

    pub fn unlocked<F, U>(s: &mut Self, f: F) -> U
    where
        F: FnOnce() -> U,
    {
        Self::unlocked_fair(s, f)
    }

    pub fn unlock_fair(mut s: Self) {
        s.release();
    }

    pub fn bump(s: &mut Self) {
        s.release();
        s.reacquire();
    }
}

impl<T: ?Sized> Drop for MutexGuard<'_, T> {
    fn drop(&mut self) {
        self.release();
    }
}

impl<T: ?Sized> Deref for MutexGuard<'_, T> {
    type Target = T;
    fn deref(&self) -> &T {
        self.inner.as_ref().expect("mutex guard used while unlocked")
    }
}

impl<T: ?Sized> DerefMut for MutexGuard<'_, T> {
    fn deref_mut(&mut self) -> &mut T {
        self.inner.as_mut().expect("mutex guard used while unlocked")
    }
}

impl<T: ?Sized + fmt::Debug> fmt::Debug for MutexGuard<'_, T> {
    fn fmt(&self, f: &mut fmt::Formatter<'_>) -> fmt::Result {
        fmt::Debug::fmt(&**self, f)
    }
}

// ------------------------------------------------------------------------------------------------
// Condvar
// ------------------------------------------------------------------------------------------------

pub struct Condvar {
    inner: ss::Condvar,
}

impl Condvar {
    pub fn new() -> Self {
        Condvar {
            inner: ss::Condvar::new(),
        }
    }

    pub fn wait<T>(&self, guard: &mut MutexGuard<'_, T>) {
        verif_rt::note("cv.wait");
        let g = guard.inner.take().expect("condvar wait on unlocked guard");
        let g = match self.inner.wait(g) {
            Ok(g) => g,
            Err(p) => p.into_inner(),
        };
        guard.inner = Some(g);
    }

    /// Timed wait. Time does not pass under the controlled runtime: the wait behaves like an
    /// untimed wait that is always notified (never reports a timeout), so a caller that relies
    /// on the timeout to make progress shows up as a deadlock.
    pub fn wait_for<T>(&self, guard: &mut MutexGuard<'_, T>, _timeout: std::time::Duration) -> WaitTimeoutResult {
        self.wait(guard);
        WaitTimeoutResult(false)
    }

    pub fn wait_until<T>(&self, guard: &mut MutexGuard<'_, T>, _deadline: std::time::Instant) -> WaitTimeoutResult {
        self.wait(guard);
        WaitTimeoutResult(false)
    }

    pub fn wait_while<T, F>(&self, guard: &mut MutexGuard<'_, T>, mut condition: F)
    where
        F: FnMut(&mut T) -> bool,
    {
        while condition(&mut **guard) {
            self.wait(guard);
        }
    }

    pub fn notify_one(&self) -> bool {
        verif_rt::note("cv.notify");
        self.inner.notify_one();
        true
    }

    pub fn notify_all(&self) -> usize {
        verif_rt::note("cv.notify");
        self.inner.notify_all();
        0
    }
}

/// Result of a timed wait (never a timeout under the controlled runtime).
#[derive(Clone, Copy, Debug, PartialEq, Eq)]
pub struct WaitTimeoutResult(bool);

impl WaitTimeoutResult {
    pub fn timed_out(&self) -> bool {
        self.0
    }
}

impl Default for Condvar {
    fn default() -> Self {
        Condvar::new()
    }
}

impl fmt::Debug for Condvar {
    fn fmt(&self, f: &mut fmt::Formatter<'_>) -> fmt::Result {
        f.write_str("Condvar { .. }")
    }
}

// ------------------------------------------------------------------------------------------------
// RwLock (the shim's own)
// ------------------------------------------------------------------------------------------------

struct RawRw {
    // (number of readers, writer present, number of tasks waiting). Never contended: all tasks
    // run on one OS thread and the std mutex is never held across a switch.
    st: std::sync::Mutex<(usize, bool, usize)>,
    // Only used when the lock is contended: waiting tasks block on the condition variable (they
    // are not runnable, so the explorer does not branch on a spinning waiter) and the unlocking
    // task notifies them.
    gate: ss::Mutex<()>,
    cv: ss::Condvar,
    // tasks of the controlled runtime that hold a shared guard (one entry per guard): a shared
    // acquisition by a task that already holds one is a scheduling point, so that the explorer can
    // let a writer announce itself in between (see `lock_exclusive`)
    holders: std::sync::Mutex<Vec<usize>>,
}

fn current_task() -> Option<usize> {
    if !verif_rt::in_execution() {
        return None;
    }
    shuttle::current::get_current_task().map(usize::from)
}

impl RawRw {
    fn new() -> Self {
        RawRw {
            st: std::sync::Mutex::new((0, false, 0)),
            gate: ss::Mutex::new(()),
            cv: ss::Condvar::new(),
            holders: std::sync::Mutex::new(Vec::new()),
        }
    }

    fn holders(&self) -> std::sync::MutexGuard<'_, Vec<usize>> {
        match self.holders.lock() {
            Ok(g) => g,
            Err(p) => p.into_inner(),
        }
    }

    fn st(&self) -> std::sync::MutexGuard<'_, (usize, bool, usize)> {
        match self.st.lock() {
            Ok(g) => g,
            Err(p) => p.into_inner(),
        }
    }

    fn try_shared(&self) -> bool {
        let mut st = self.st();
        if !st.1 {
            st.0 += 1;
            true
        } else {
            false
        }
    }

    fn try_exclusive(&self) -> bool {
        let mut st = self.st();
        if !st.1 && st.0 == 0 {
            st.1 = true;
            true
        } else {
            false
        }
    }

    /// Contended path: register as a waiter, then block until an unlock notifies. The state is
    /// re-examined under the gate, and an unlocking task needs the gate to notify, so a wake-up
    /// cannot be lost between the re-examination and the wait.
    fn wait_until(&self, kind: &'static str, try_acquire: impl Fn(&Self) -> bool) {
        if !verif_rt::in_execution() {
            panic!("parking_lot shim: {kind} would block outside of a controlled execution");
        }
        self.st().2 += 1;
        loop {
            verif_rt::note(kind);
            let g = match self.gate.lock() {
                Ok(g) => g,
                Err(p) => p.into_inner(),
            };
            if try_acquire(self) {
                self.st().2 -= 1;
                drop(g);
                return;
            }
            verif_rt::note(kind);
            let g = match self.cv.wait(g) {
                Ok(g) => g,
                Err(p) => p.into_inner(),
            };
            drop(g);
        }
    }

    fn lock_shared(&self) {
        let me = current_task();
        if let Some(t) = me {
            let recursive = self.holders().contains(&t);
            if recursive {
                verif_rt::harness_switch("rw.read.recursive");
            }
        }
        if !self.try_shared() {
            self.wait_until("rw.read", Self::try_shared);
        }
        if let Some(t) = me {
            self.holders().push(t);
        }
    }

    /// parking_lot's policy: a writer first announces itself (its WRITER bit) as soon as no other
    /// writer has done so - also while readers still hold the lock - and then waits for those
    /// readers to leave. From the announcement on `read()` blocks (`try_shared` looks at the same
    /// flag), which is why "attempts to recursively acquire a read lock within a single thread may
    /// result in a deadlock" (parking_lot's documentation): the second `read()` of a thread waits
    /// for the announced writer, which waits for the thread's first guard. A reader-preferring
    /// model would hide exactly that deadlock.
    fn lock_exclusive(&self) {
        if !self.try_announce_writer() {
            self.wait_until("rw.write", Self::try_announce_writer);
        }
        if !self.readers_gone() {
            self.wait_until("rw.write.drain", Self::readers_gone);
        }
    }

    fn try_announce_writer(&self) -> bool {
        let mut st = self.st();
        if !st.1 {
            st.1 = true;
            true
        } else {
            false
        }
    }

    fn readers_gone(&self) -> bool {
        self.st().0 == 0
    }

    fn wake(&self, waiters: usize) {
        if waiters > 0 && verif_rt::in_execution() && !std::thread::panicking() {
            verif_rt::note("rw.wake");
            let g = match self.gate.lock() {
                Ok(g) => g,
                Err(p) => p.into_inner(),
            };
            self.cv.notify_all();
            drop(g);
        }
    }

    fn unlock_shared(&self) {
        {
            let me = current_task();
            let mut h = self.holders();
            let pos = match me {
                Some(t) => h.iter().rposition(|x| *x == t),
                None => None,
            };
            match pos {
                Some(i) => {
                    h.remove(i);
                }
                None => {
                    h.pop();
                }
            }
        }
        let waiters = {
            let mut st = self.st();
            debug_assert!(st.0 > 0);
            st.0 -= 1;
            if st.0 == 0 {
                st.2
            } else {
                0
            }
        };
        self.wake(waiters);
    }

    fn unlock_exclusive(&self) {
        let waiters = {
            let mut st = self.st();
            debug_assert!(st.1);
            st.1 = false;
            st.2
        };
        self.wake(waiters);
    }
}

pub struct RwLock<T: ?Sized> {
    raw: RawRw,
    data: UnsafeCell<T>,
}

unsafe impl<T: ?Sized + Send> Send for RwLock<T> {}
unsafe impl<T: ?Sized + Send + Sync> Sync for RwLock<T> {}

impl<T> RwLock<T> {
    pub fn new(value: T) -> Self {
        RwLock {
            raw: RawRw::new(),
            data: UnsafeCell::new(value),
        }
    }

    pub fn into_inner(self) -> T {
        self.data.into_inner()
    }
}

impl<T: ?Sized> RwLock<T> {
    pub fn read(&self) -> RwLockReadGuard<'_, T> {
        self.raw.lock_shared();
        RwLockReadGuard { lock: self }
    }

    pub fn write(&self) -> RwLockWriteGuard<'_, T> {
        self.raw.lock_exclusive();
        RwLockWriteGuard { lock: self }
    }

    pub fn try_read(&self) -> Option<RwLockReadGuard<'_, T>> {
        if self.raw.try_shared() {
            if let Some(t) = current_task() {
                self.raw.holders().push(t);
            }
            Some(RwLockReadGuard { lock: self })
        } else {
            None
        }
    }

    pub fn try_write(&self) -> Option<RwLockWriteGuard<'_, T>> {
        if self.raw.try_exclusive() {
            Some(RwLockWriteGuard { lock: self })
        } else {
            None
        }
    }

    pub fn is_locked(&self) -> bool {
        let st = self.raw.st();
        st.0 > 0 || st.1
    }

    pub fn get_mut(&mut self) -> &mut T {
        self.data.get_mut()
    }
}

impl<T: Default> Default for RwLock<T> {
    fn default() -> Self {
        RwLock::new(T::default())
    }
}

impl<T: ?Sized> fmt::Debug for RwLock<T> {
    fn fmt(&self, f: &mut fmt::Formatter<'_>) -> fmt::Result {
        f.write_str("RwLock { .. }")
    }
}

pub struct RwLockReadGuard<'a, T: ?Sized> {
    lock: &'a RwLock<T>,
}

unsafe impl<T: ?Sized + Sync> Sync for RwLockReadGuard<'_, T> {}

impl<'a, T: ?Sized> RwLockReadGuard<'a, T> {
    pub fn map<U: ?Sized, F>(s: Self, f: F) -> MappedRwLockReadGuard<'a, U>
    where
        F: FnOnce(&T) -> &U,
    {
        let raw = &s.lock.raw;
        let data: *const U = f(unsafe { &*s.lock.data.get() });
        std::mem::forget(s);
        MappedRwLockReadGuard { raw, data }
    }
}

impl<T: ?Sized> Deref for RwLockReadGuard<'_, T> {
    type Target = T;
    fn deref(&self) -> &T {
        unsafe { &*self.lock.data.get() }
    }
}

impl<T: ?Sized> Drop for RwLockReadGuard<'_, T> {
    fn drop(&mut self) {
        self.lock.raw.unlock_shared();
    }
}

impl<T: ?Sized + fmt::Debug> fmt::Debug for RwLockReadGuard<'_, T> {
    fn fmt(&self, f: &mut fmt::Formatter<'_>) -> fmt::Result {
        fmt::Debug::fmt(&**self, f)
    }
}

pub struct RwLockWriteGuard<'a, T: ?Sized> {
    lock: &'a RwLock<T>,
}

unsafe impl<T: ?Sized + Sync> Sync for RwLockWriteGuard<'_, T> {}

impl<'a, T: ?Sized> RwLockWriteGuard<'a, T> {
    /// Atomically turn the exclusive lock into a shared one.
    pub fn downgrade(s: Self) -> RwLockReadGuard<'a, T> {
        let lock = s.lock;
        std::mem::forget(s);
        let waiters = {
            let mut st = lock.raw.st();
            st.1 = false;
            st.0 += 1;
            st.2
        };
        if let Some(t) = current_task() {
            lock.raw.holders().push(t);
        }
        lock.raw.wake(waiters);
        RwLockReadGuard { lock }
    }
}

impl<T: ?Sized> Deref for RwLockWriteGuard<'_, T> {
    type Target = T;
    fn deref(&self) -> &T {
        unsafe { &*self.lock.data.get() }
    }
}

impl<T: ?Sized> DerefMut for RwLockWriteGuard<'_, T> {
    fn deref_mut(&mut self) -> &mut T {
        unsafe { &mut *self.lock.data.get() }
    }
}

impl<T: ?Sized> Drop for RwLockWriteGuard<'_, T> {
    fn drop(&mut self) {
        self.lock.raw.unlock_exclusive();
    }
}

impl<T: ?Sized + fmt::Debug> fmt::Debug for RwLockWriteGuard<'_, T> {
    fn fmt(&self, f: &mut fmt::Formatter<'_>) -> fmt::Result {
        fmt::Debug::fmt(&**self, f)
    }
}

pub struct MappedRwLockReadGuard<'a, T: ?Sized> {
    raw: &'a RawRw,
    data: *const T,
}

unsafe impl<T: ?Sized + Sync> Sync for MappedRwLockReadGuard<'_, T> {}

impl<T: ?Sized> Deref for MappedRwLockReadGuard<'_, T> {
    type Target = T;
    fn deref(&self) -> &T {
        unsafe { &*self.data }
    }
}

impl<T: ?Sized> Drop for MappedRwLockReadGuard<'_, T> {
    fn drop(&mut self) {
        self.raw.unlock_shared();
    }
}

impl<T: ?Sized + fmt::Debug> fmt::Debug for MappedRwLockReadGuard<'_, T> {
    fn fmt(&self, f: &mut fmt::Formatter<'_>) -> fmt::Result {
        fmt::Debug::fmt(&**self, f)
    }
}
