//! Verification shim for `parking_lot` 0.12: exactly the API subset RainDB uses, implemented on
//! the shuttle runtime so that every lock / unlock / wait / notify is a scheduling point of the
//! controlled scheduler in `rdbcheck`.
//!
//! Differences from real `parking_lot` that matter to the harness (and why they are sound):
//!
//! * after **every** mutex release (guard drop, `unlock_fair`, the release inside `unlocked_fair`)
//!   an explicit switch point is issued: "the mutex was just released" is a window for every
//!   call site (shuttle's own release is a yield point *before* the release only);
//! * `RwLock` is the shim's own: never a scheduling point when uncontended (RainDB uses it as an
//!   interior-mutability cell below the database mutex and inside caches), yields until
//!   available when contended; recursive reads are allowed like parking_lot's when no writer waits;
//! * no poisoning (parking_lot has none).

pub mod verif_rt;

use std::cell::UnsafeCell;
use std::fmt;
use std::ops::{Deref, DerefMut};

use shuttle::sync as ss;

// ------------------------------------------------------------------------------------------------
// Mutex
// ------------------------------------------------------------------------------------------------

pub struct Mutex<T: ?Sized> {
    inner: ss::Mutex<T>,
}

pub struct MutexGuard<'a, T: ?Sized> {
    mutex: &'a Mutex<T>,
    inner: Option<ss::MutexGuard<'a, T>>,
}

impl<T> Mutex<T> {
    pub fn new(value: T) -> Self {
        Mutex {
            inner: ss::Mutex::new(value),
        }
    }

    pub fn into_inner(self) -> T {
        match self.inner.into_inner() {
            Ok(v) => v,
            Err(p) => p.into_inner(),
        }
    }
}

impl<T: ?Sized> Mutex<T> {
    pub fn lock(&self) -> MutexGuard<'_, T> {
        verif_rt::note("lock");
        let g = match self.inner.lock() {
            Ok(g) => g,
            Err(p) => p.into_inner(),
        };
        MutexGuard {
            mutex: self,
            inner: Some(g),
        }
    }

    pub fn get_mut(&mut self) -> &mut T {
        match self.inner.get_mut() {
            Ok(v) => v,
            Err(p) => p.into_inner(),
        }
    }
}

impl<T: Default> Default for Mutex<T> {
    fn default() -> Self {
        Mutex::new(T::default())
    }
}

impl<T: ?Sized> fmt::Debug for Mutex<T> {
    fn fmt(&self, f: &mut fmt::Formatter<'_>) -> fmt::Result {
        f.write_str("Mutex { .. }")
    }
}

impl<'a, T: ?Sized> MutexGuard<'a, T> {
    fn release(&mut self) {
        if let Some(g) = self.inner.take() {
            verif_rt::note("unlock");
            drop(g);
            verif_rt::after_unlock();
        }
    }

    fn reacquire(&mut self) {
        verif_rt::note("lock");
        let g = match self.mutex.inner.lock() {
            Ok(g) => g,
            Err(p) => p.into_inner(),
        };
        self.inner = Some(g);
    }

    /// Temporarily unlocks the mutex to execute the given function.
    pub fn unlocked_fair<F, U>(s: &mut Self, f: F) -> U
    where
        F: FnOnce() -> U,
    {
        s.release();
        // Re-lock also when `f` unwinds, like parking_lot does.
        struct Relock<'g, 'a, T: ?Sized>(&'g mut MutexGuard<'a, T>);
        impl<T: ?Sized> Drop for Relock<'_, '_, T> {
            fn drop(&mut self) {
                self.0.reacquire();
            }
        }
        let _relock = Relock(s);
        f()
    }

    pub fn unlocked<F, U>(s: &mut Self, f: F) -> U
    where
        F: FnOnce() -> U,
    {
        Self::unlocked_fair(s, f)
    }

    pub fn unlock_fair(mut s: Self) {
        s.release();
    }

    pub fn bump(s: &mut Self) {
        s.release();
        s.reacquire();
    }
}

impl<T: ?Sized> Drop for MutexGuard<'_, T> {
    fn drop(&mut self) {
        self.release();
    }
}

impl<T: ?Sized> Deref for MutexGuard<'_, T> {
    type Target = T;
    fn deref(&self) -> &T {
        self.inner.as_ref().expect("mutex guard used while unlocked")
    }
}

impl<T: ?Sized> DerefMut for MutexGuard<'_, T> {
    fn deref_mut(&mut self) -> &mut T {
        self.inner.as_mut().expect("mutex guard used while unlocked")
    }
}

impl<T: ?Sized + fmt::Debug> fmt::Debug for MutexGuard<'_, T> {
    fn fmt(&self, f: &mut fmt::Formatter<'_>) -> fmt::Result {
        fmt::Debug::fmt(&**self, f)
    }
}

// ------------------------------------------------------------------------------------------------
// Condvar
// ------------------------------------------------------------------------------------------------

pub struct Condvar {
    inner: ss::Condvar,
}

impl Condvar {
    pub fn new() -> Self {
        Condvar {
            inner: ss::Condvar::new(),
        }
    }

    pub fn wait<T>(&self, guard: &mut MutexGuard<'_, T>) {
        verif_rt::note("cv.wait");
        let g = guard.inner.take().expect("condvar wait on unlocked guard");
        let g = match self.inner.wait(g) {
            Ok(g) => g,
            Err(p) => p.into_inner(),
        };
        guard.inner = Some(g);
    }

    pub fn notify_one(&self) -> bool {
        verif_rt::note("cv.notify");
        self.inner.notify_one();
        true
    }

    pub fn notify_all(&self) -> usize {
        verif_rt::note("cv.notify");
        self.inner.notify_all();
        0
    }
}

impl Default for Condvar {
    fn default() -> Self {
        Condvar::new()
    }
}

impl fmt::Debug for Condvar {
    fn fmt(&self, f: &mut fmt::Formatter<'_>) -> fmt::Result {
        f.write_str("Condvar { .. }")
    }
}

// ------------------------------------------------------------------------------------------------
// RwLock (the shim's own)
// ------------------------------------------------------------------------------------------------

struct RawRw {
    // (number of readers, writer present). Never contended: all tasks run on one OS thread and
    // the std mutex is never held across a switch.
    st: std::sync::Mutex<(usize, bool)>,
}

impl RawRw {
    const fn new() -> Self {
        RawRw {
            st: std::sync::Mutex::new((0, false)),
        }
    }

    fn st(&self) -> std::sync::MutexGuard<'_, (usize, bool)> {
        match self.st.lock() {
            Ok(g) => g,
            Err(p) => p.into_inner(),
        }
    }

    fn lock_shared(&self) {
        loop {
            {
                let mut st = self.st();
                if !st.1 {
                    st.0 += 1;
                    return;
                }
            }
            verif_rt::contended_yield("rw.read");
        }
    }

    fn lock_exclusive(&self) {
        loop {
            {
                let mut st = self.st();
                if !st.1 && st.0 == 0 {
                    st.1 = true;
                    return;
                }
            }
            verif_rt::contended_yield("rw.write");
        }
    }

    fn unlock_shared(&self) {
        let mut st = self.st();
        debug_assert!(st.0 > 0);
        st.0 -= 1;
    }

    fn unlock_exclusive(&self) {
        let mut st = self.st();
        debug_assert!(st.1);
        st.1 = false;
    }
}

pub struct RwLock<T: ?Sized> {
    raw: RawRw,
    data: UnsafeCell<T>,
}

unsafe impl<T: ?Sized + Send> Send for RwLock<T> {}
unsafe impl<T: ?Sized + Send + Sync> Sync for RwLock<T> {}

impl<T> RwLock<T> {
    pub const fn new(value: T) -> Self {
        RwLock {
            raw: RawRw::new(),
            data: UnsafeCell::new(value),
        }
    }

    pub fn into_inner(self) -> T {
        self.data.into_inner()
    }
}

impl<T: ?Sized> RwLock<T> {
    pub fn read(&self) -> RwLockReadGuard<'_, T> {
        self.raw.lock_shared();
        RwLockReadGuard { lock: self }
    }

    pub fn write(&self) -> RwLockWriteGuard<'_, T> {
        self.raw.lock_exclusive();
        RwLockWriteGuard { lock: self }
    }

    pub fn get_mut(&mut self) -> &mut T {
        self.data.get_mut()
    }
}

impl<T: Default> Default for RwLock<T> {
    fn default() -> Self {
        RwLock::new(T::default())
    }
}

impl<T: ?Sized> fmt::Debug for RwLock<T> {
    fn fmt(&self, f: &mut fmt::Formatter<'_>) -> fmt::Result {
        f.write_str("RwLock { .. }")
    }
}

pub struct RwLockReadGuard<'a, T: ?Sized> {
    lock: &'a RwLock<T>,
}

unsafe impl<T: ?Sized + Sync> Sync for RwLockReadGuard<'_, T> {}

impl<'a, T: ?Sized> RwLockReadGuard<'a, T> {
    pub fn map<U: ?Sized, F>(s: Self, f: F) -> MappedRwLockReadGuard<'a, U>
    where
        F: FnOnce(&T) -> &U,
    {
        let raw = &s.lock.raw;
        let data: *const U = f(unsafe { &*s.lock.data.get() });
        std::mem::forget(s);
        MappedRwLockReadGuard { raw, data }
    }
}

impl<T: ?Sized> Deref for RwLockReadGuard<'_, T> {
    type Target = T;
    fn deref(&self) -> &T {
        unsafe { &*self.lock.data.get() }
    }
}

impl<T: ?Sized> Drop for RwLockReadGuard<'_, T> {
    fn drop(&mut self) {
        self.lock.raw.unlock_shared();
    }
}

impl<T: ?Sized + fmt::Debug> fmt::Debug for RwLockReadGuard<'_, T> {
    fn fmt(&self, f: &mut fmt::Formatter<'_>) -> fmt::Result {
        fmt::Debug::fmt(&**self, f)
    }
}

pub struct RwLockWriteGuard<'a, T: ?Sized> {
    lock: &'a RwLock<T>,
}

unsafe impl<T: ?Sized + Sync> Sync for RwLockWriteGuard<'_, T> {}

impl<T: ?Sized> Deref for RwLockWriteGuard<'_, T> {
    type Target = T;
    fn deref(&self) -> &T {
        unsafe { &*self.lock.data.get() }
    }
}

impl<T: ?Sized> DerefMut for RwLockWriteGuard<'_, T> {
    fn deref_mut(&mut self) -> &mut T {
        unsafe { &mut *self.lock.data.get() }
    }
}

impl<T: ?Sized> Drop for RwLockWriteGuard<'_, T> {
    fn drop(&mut self) {
        self.lock.raw.unlock_exclusive();
    }
}

impl<T: ?Sized + fmt::Debug> fmt::Debug for RwLockWriteGuard<'_, T> {
    fn fmt(&self, f: &mut fmt::Formatter<'_>) -> fmt::Result {
        fmt::Debug::fmt(&**self, f)
    }
}

pub struct MappedRwLockReadGuard<'a, T: ?Sized> {
    raw: &'a RawRw,
    data: *const T,
}

unsafe impl<T: ?Sized + Sync> Sync for MappedRwLockReadGuard<'_, T> {}

impl<T: ?Sized> Deref for MappedRwLockReadGuard<'_, T> {
    type Target = T;
    fn deref(&self) -> &T {
        unsafe { &*self.data }
    }
}

impl<T: ?Sized> Drop for MappedRwLockReadGuard<'_, T> {
    fn drop(&mut self) {
        self.raw.unlock_shared();
    }
}

impl<T: ?Sized + fmt::Debug> fmt::Debug for MappedRwLockReadGuard<'_, T> {
    fn fmt(&self, f: &mut fmt::Formatter<'_>) -> fmt::Result {
        fmt::Debug::fmt(&**self, f)
    }
}
