//! `schedx`: all schedules with at most k preemptions of small multi-threaded programs on the real
//! database, with a brute-force linearizability oracle over the recorded call/return history.

use std::collections::BTreeMap;
use std::sync::atomic::{AtomicU64, Ordering};
use std::sync::{Arc, Mutex};

use serde_json::{json, Value};

use raindb::{Batch, ReadOptions, WriteOptions, DB};

use crate::run::{run_many, run_once, Outcome};
use crate::sched::{Mode, Sched};
use crate::shm::*;
use crate::vfs::VerifFs;
use crate::world::*;

#[derive(Clone, Debug, PartialEq, Eq)]
pub enum TOp {
    /// put key, value id, value size
    Put(u8, u16, u32),
    Del(u8),
    /// (key, Some(value id) = put | None = delete)
    Batch(Vec<(u8, Option<u16>)>),
    Get(u8),
    /// take a snapshot, read every listed key at it, release: one observation
    SnapRead(Vec<u8>),
    /// new iterator, full forward scan: one observation
    IterScan,
    Flush,
    Compact(Option<u8>, Option<u8>),
    /// n plain gets of one key (each judged separately)
    GetMany(u8, u16),
    /// a fresh iterator, `seek(key)`: the value if the iterator lands on exactly that key (judged
    /// like a get)
    IterSeek(u8),
}

#[derive(Clone, Debug, PartialEq, Eq, Hash)]
pub enum Res {
    Ok,
    Err(String),
    Val(Option<Vec<u8>>),
    Multi(Vec<Option<Vec<u8>>>),
    Scan(Vec<(Vec<u8>, Vec<u8>)>),
}

#[derive(Clone, Debug)]
pub struct Event {
    pub thread: usize,
    pub op: TOp,
    pub invoke: u64,
    pub ret: u64,
    pub res: Res,
}

#[derive(Clone, Debug)]
pub struct Prog {
    pub name: String,
    pub cfg: Cfg,
    pub keys: Vec<Vec<u8>>,
    /// operations committed by the main thread before the threads start
    pub setup: Vec<TOp>,
    pub threads: Vec<Vec<TOp>>,
    pub strict_unlink: bool,
    pub fs_switch: bool,
    /// C11: at every file removal take the image and check afterwards that a crash at that
    /// moment recovers every acknowledged write (single-writer programs only)
    pub recover_at_removals: bool,
    /// additionally recover from the image after every manifest write and every rename
    pub recover_at_meta: bool,
    /// additionally after every write to any file (WAL appends, table blocks, temp files)
    pub recover_at_all_writes: bool,
    /// sticky fault by file kind, armed after the setup: (call classes, file-name suffix)
    pub fault: Option<(u32, &'static str)>,
    /// if set, the fault only hits filesystem calls made by this thread (index into `threads`)
    pub fault_thread: Option<usize>,
    /// after the threads have joined: disarm the fault, compact everything, wait for the
    /// background work to go idle and require the directory to hold exactly the needed files
    pub final_directory: bool,
    /// the fault fires only this many times (None = sticky)
    pub fault_budget: Option<u32>,
    /// matching calls that pass before the fault starts to fire
    pub fault_skip: u32,
    /// before the program proper: a session with a 4 MiB memtable writes this many values that stay
    /// in the WAL; the database is then opened with `cfg`, so that recovery cuts the WAL into
    /// many level-0 tables (the only way to reach the level-0 slow-down / stop triggers in a short
    /// program)
    pub pre_wal_puts: usize,
    /// C08 under concurrency: judge the history as linearizable with failed calls optional, and
    /// after the run disarm the fault, reopen and require every acknowledged write to be there
    pub judge_under_fault: bool,
    /// what a failing *write* of the fault leaves in the file before it reports its error
    /// (`vfs::Fault::partial`: 0 nothing, 1 half, 2 all but one byte, 3 one log header)
    pub fault_partial: u8,
}

/// value size that marks a synchronous put in thread programs
pub const SYNC_SIZE: u32 = 9;

/// values of exactly this size are incompressible
pub const INCOMPRESSIBLE_SIZE: u32 = 351;

pub fn val(id: u16, size: u32) -> Vec<u8> {
    let base = format!("val{:05}", id).into_bytes();
    if size == INCOMPRESSIBLE_SIZE {
        // bytes that the block compression cannot shrink: the table really grows by this much
        let mut v = base.clone();
        let mut x: u64 = 0x9E37_79B9_7F4A_7C15 ^ ((id as u64) << 20);
        while v.len() < size as usize {
            x ^= x << 13;
            x ^= x >> 7;
            x ^= x << 17;
            v.push((x >> 24) as u8);
        }
        return v;
    }
    let mut v = Vec::with_capacity(size.max(8) as usize);
    let mut i = 0usize;
    while v.len() < size.max(8) as usize {
        v.push(base[i % base.len()]);
        i += 1;
    }
    v
}

impl Prog {
    pub fn describe(&self) -> Value {
        let f = |ops: &Vec<TOp>| ops.iter().map(|o| top_str(o, &self.keys)).collect::<Vec<_>>();
        json!({
            "program": self.name,
            "config": self.cfg.name(),
            "setup": f(&self.setup),
            "threads": self.threads.iter().map(f).collect::<Vec<_>>(),
            "strict_unlink": self.strict_unlink,
            "fs_calls_are_switch_points": self.fs_switch,
            "crash_recovery_checked_at_every_file_removal": self.recover_at_removals,
            "crash_recovery_checked_at_every_manifest_write_and_rename": self.recover_at_meta,
            "crash_recovery_checked_at_every_write_to_any_file": self.recover_at_all_writes,
            "sticky_fault_after_setup": self.fault.map(|(c, s)| format!("classes {:#x} on *{}", c, s)),
            "fault_only_hits_thread": self.fault_thread.map(|t| t + 1),
            "directory_checked_after_final_compaction": self.final_directory,
            "fault_fires_at_most": self.fault_budget,
            "matching_calls_passing_before_the_fault": self.fault_skip,
            "writes_left_in_the_wal_by_an_earlier_session_with_a_large_memtable": self.pre_wal_puts,
            "judged_under_fault_linearizable_and_durable_after_reopen": self.judge_under_fault,
        })
    }
}

pub fn top_str(o: &TOp, keys: &[Vec<u8>]) -> String {
    let k = |i: &u8| esc(&keys[*i as usize]);
    match o {
        TOp::Put(i, v, s) => {
            if *s == SYNC_SIZE {
                format!("put-sync {}=v{}", k(i), v)
            } else if *s > 8 {
                format!("put {}=v{}({}B)", k(i), v, s)
            } else {
                format!("put {}=v{}", k(i), v)
            }
        }
        TOp::Del(i) => format!("del {}", k(i)),
        TOp::Batch(items) => format!(
            "batch[{}]",
            items
                .iter()
                .map(|(i, v)| match v {
                    Some(v) => format!("{}=v{}", k(i), v),
                    None => format!("-{}", k(i)),
                })
                .collect::<Vec<_>>()
                .join(",")
        ),
        TOp::Get(i) => format!("get {}", k(i)),
        TOp::SnapRead(ks) => format!("snapread[{}]", ks.iter().map(|i| k(i)).collect::<Vec<_>>().join(",")),
        TOp::IterScan => "iterscan".into(),
        TOp::Flush => "flush".into(),
        TOp::Compact(a, b) => format!(
            "compact({}..{})",
            a.as_ref().map(k).unwrap_or_default(),
            b.as_ref().map(k).unwrap_or_default()
        ),
        TOp::GetMany(i, n) => format!("get*{} {}", n, k(i)),
        TOp::IterSeek(i) => format!("iterseek {}", k(i)),
    }
}

static CLOCK: AtomicU64 = AtomicU64::new(0);

fn tick() -> u64 {
    CLOCK.fetch_add(1, Ordering::SeqCst)
}

fn exec_op(db: &DB, keys: &[Vec<u8>], thread: usize, op: &TOp, log: &Mutex<Vec<Event>>) {
    let push = |invoke: u64, ret: u64, op: TOp, res: Res| {
        log.lock().unwrap().push(Event {
            thread,
            op,
            invoke,
            ret,
            res,
        });
    };
    let to_res = |r: Result<(), raindb::RainDBError>| match r {
        Ok(()) => Res::Ok,
        Err(e) => Res::Err(e.to_string()),
    };
    match op {
        TOp::Put(k, v, s) => {
            let i = tick();
            // a value size of SYNC_SIZE marks a write with WriteOptions::synchronous (it is not
            // merged into the group commit of a non-synchronous leader)
            let r = db.put(WriteOptions { synchronous: *s == SYNC_SIZE }, keys[*k as usize].clone(), val(*v, *s));
            push(i, tick(), op.clone(), to_res(r));
        }
        TOp::Del(k) => {
            let i = tick();
            let r = db.delete(WriteOptions::default(), keys[*k as usize].clone());
            push(i, tick(), op.clone(), to_res(r));
        }
        TOp::Batch(items) => {
            let mut b = Batch::new();
            for (k, v) in items {
                match v {
                    Some(v) => {
                        b.add_put(keys[*k as usize].clone(), val(*v, 8));
                    }
                    None => {
                        b.add_delete(keys[*k as usize].clone());
                    }
                }
            }
            let i = tick();
            let r = db.apply(WriteOptions::default(), b);
            push(i, tick(), op.clone(), to_res(r));
        }
        TOp::Get(k) => {
            let i = tick();
            let r = db_get(db, &keys[*k as usize], None);
            let t = tick();
            push(
                i,
                t,
                op.clone(),
                match r {
                    Ok(v) => Res::Val(v),
                    Err(e) => Res::Err(e),
                },
            );
        }
        TOp::IterSeek(k) => {
            let i = tick();
            let it = db.new_iterator(ReadOptions::default());
            let t = tick();
            let res = match it {
                Ok(it) => {
                    let mut it: DbIter = Box::new(it);
                    match it.seek(&keys[*k as usize]) {
                        Ok(()) => {
                            if it.is_valid() && it.current().map(|(kk, _)| *kk == keys[*k as usize]).unwrap_or(false) {
                                Res::Val(it.current().map(|(_, v)| v.clone()))
                            } else {
                                match it.take_error() {
                                    Some(e) => Res::Err(e.to_string()),
                                    None => Res::Val(None),
                                }
                            }
                        }
                        Err(e) => Res::Err(e.to_string()),
                    }
                }
                Err(e) => Res::Err(e.to_string()),
            };
            push(i, t, op.clone(), res);
        }
        TOp::GetMany(k, n) => {
            for _ in 0..*n {
                let i = tick();
                let r = db_get(db, &keys[*k as usize], None);
                let t = tick();
                push(
                    i,
                    t,
                    TOp::Get(*k),
                    match r {
                        Ok(v) => Res::Val(v),
                        Err(e) => Res::Err(e),
                    },
                );
            }
        }
        TOp::SnapRead(ks) => {
            let i = tick();
            let snap = db.get_snapshot();
            let t = tick();
            let mut vals = vec![];
            let mut err = None;
            for k in ks {
                match db_get(db, &keys[*k as usize], Some(&snap)) {
                    Ok(v) => vals.push(v),
                    Err(e) => {
                        err = Some(e);
                        break;
                    }
                }
            }
            // a snapshot is frozen: reading the keys once more through it gives the same answers,
            // whatever has been written in between
            if err.is_none() {
                let mut again = vec![];
                for k in ks {
                    match db_get(db, &keys[*k as usize], Some(&snap)) {
                        Ok(v) => again.push(v),
                        Err(e) => {
                            err = Some(e);
                            break;
                        }
                    }
                }
                if err.is_none() && again != vals {
                    let sh = |v: &Vec<Option<Vec<u8>>>| v.iter().map(|x| x.as_ref().map(|b| show_val(b)).unwrap_or_else(|| "NotFound".into())).collect::<Vec<_>>().join(",");
                    err = Some(format!("C03 snapshot changed its answer: first [{}], read again through the same snapshot [{}]", sh(&vals), sh(&again)));
                }
            }
            db.release_snapshot(snap);
            push(
                i,
                t,
                op.clone(),
                match err {
                    Some(e) => Res::Err(e),
                    None => Res::Multi(vals),
                },
            );
        }
        TOp::IterScan => {
            let i = tick();
            let it = db.new_iterator(ReadOptions::default());
            let t = tick();
            let res = match it {
                Ok(it) => {
                    let mut it: DbIter = Box::new(it);
                    // one iterator is one snapshot: its backward scan must give what its forward
                    // scan gave, whatever was committed in between
                    match scan_forward(&mut it) {
                        Ok(kv) => match scan_backward(&mut it) {
                            Ok(back) if back == kv => Res::Scan(kv),
                            Ok(back) => {
                                let sh = |v: &Vec<(Vec<u8>, Vec<u8>)>| v.iter().map(|(k, v)| format!("{}={}", esc(k), show_val(v))).collect::<Vec<_>>().join(" ");
                                Res::Err(format!("C03 one iterator, two answers: forward scan [{}], backward scan [{}]", sh(&kv), sh(&back)))
                            }
                            Err(e) => Res::Err(e),
                        },
                        Err(e) => Res::Err(e),
                    }
                }
                Err(e) => Res::Err(e.to_string()),
            };
            push(i, t, op.clone(), res);
        }
        TOp::Flush => {
            let i = tick();
            let z = flush_key();
            db.compact_range(Some(&z[..])..Some(&z[..]));
            push(i, tick(), op.clone(), Res::Ok);
        }
        TOp::Compact(a, b) => {
            let ka = a.map(|i| keys[i as usize].clone());
            let kb = b.map(|i| keys[i as usize].clone());
            let i = tick();
            db.compact_range(ka.as_deref()..kb.as_deref());
            push(i, tick(), op.clone(), Res::Ok);
        }
    }
}

/// The body of one execution. Returns the history through `log`.
fn prog_body(prog: &Prog, log: &Arc<Mutex<Vec<Event>>>, stale: &Arc<AtomicU64>) {
    parking_lot::verif_rt::set_oracle_mode(false);
    CLOCK.store(0, Ordering::SeqCst);
    log.lock().unwrap().clear();
    stale.store(0, Ordering::SeqCst);
    let log2 = log;
    let fs = VerifFs::new();
    fs.set_strict_unlink(prog.strict_unlink);
    if prog.recover_at_removals {
        fs.state().removal_clock = Some(&CLOCK);
        fs.state().snap_meta = prog.recover_at_meta;
        fs.state().snap_all = prog.recover_at_all_writes;
    }
    if prog.pre_wal_puts > 0 {
        let big = crate::world::Cfg::new(4 << 20, prog.cfg.file, prog.cfg.block, false);
        match DB::open(db_options(&fs, &big)) {
            Ok(db0) => {
                for i in 0..prog.pre_wal_puts {
                    let k = prog.keys[i % prog.keys.len()].clone();
                    let _ = db0.put(WriteOptions::default(), k, val(9000 + i as u16, 60));
                }
                drop(db0);
            }
            Err(e) => panic!("harness: pre-session open failed: {}", e),
        }
    }
    let opts = db_options(&fs, &prog.cfg);
    let db = match DB::open(opts) {
        Ok(db) => Arc::new(db),
        Err(e) => {
            log2.lock().unwrap().push(Event {
                thread: 99,
                op: TOp::Flush,
                invoke: 0,
                ret: 0,
                res: Res::Err(format!("open failed: {}", e)),
            });
            return;
        }
    };
    for op in prog.setup.iter() {
        exec_op(&db, &prog.keys, 0, op, log2);
    }
    fs.set_fs_switch(prog.fs_switch);
    if let Some((classes, suffix)) = prog.fault {
        fs.state().fail_by_suffix = Some((classes, suffix.to_string()));
        fs.state().fail_by_suffix_budget = prog.fault_budget;
        fs.state().fail_by_suffix_skip = prog.fault_skip;
        fs.state().fail_by_suffix_partial = prog.fault_partial;
    }
    let mut handles = vec![];
    for (ti, ops) in prog.threads.iter().enumerate() {
        let db = Arc::clone(&db);
        let ops = ops.clone();
        let keys = prog.keys.clone();
        let log = Arc::clone(log2);
        let fs2 = fs.clone();
        let faulty = prog.fault_thread == Some(ti);
        handles.push(shuttle::thread::spawn(move || {
            if faulty {
                fs2.state().fail_only_task = shuttle::current::get_current_task().map(usize::from);
            }
            for op in ops.iter() {
                exec_op(&db, &keys, ti + 1, op, &log);
            }
        }));
    }
    for h in handles {
        let _ = h.join();
    }
    fs.set_fs_switch(false);
    if prog.final_directory {
        fs.state().fail_by_suffix = None;
    }
    // final observation by the main thread
    let all: Vec<u8> = (0..prog.keys.len() as u8).collect();
    exec_op(&db, &prog.keys, 0, &TOp::SnapRead(all), log2);
    stale.store(fs.state().stale_uses, Ordering::SeqCst);
    if prog.recover_at_removals {
        // one more crash image: everything has been acknowledged, nothing has been closed
        fs.state().snapshot("the last call of the program returned".to_string());
    }
    if prog.final_directory {
        parking_lot::verif_rt::set_oracle_mode(true);
        db.compact_range(None..None);
        let probe = db.verif_probe();
        let mut spins = 0u32;
        while probe.background_work_pending() {
            spins += 1;
            if spins > 100_000 {
                panic!("harness: background work never went idle after the final compaction");
            }
            shuttle::thread::yield_now();
        }
        if let Err(v) = crate::world::check_directory(&db, &fs) {
            log2.lock().unwrap().push(Event {
                thread: 97,
                op: TOp::Flush,
                invoke: u64::MAX - 3,
                ret: u64::MAX - 2,
                res: Res::Err(format!("C11 directory after quiescence: {} {}", v.clause, v.detail)),
            });
        }
    }
    match Arc::try_unwrap(db) {
        Ok(db) => drop(db),
        Err(_) => panic!("harness: database handle still shared at the end"),
    }
    parking_lot::verif_rt::set_oracle_mode(true);
    if prog.judge_under_fault {
        // once a failure of the write path is recorded the background thread must stop producing
        // files: a flush or compaction that is already past its check may finish one more table
        // (and a compaction's output), not one per remaining entry of a merge loop
        let creates = fs.state().table_creates_after_fault;
        if prog.fault.map(|(c, sfx)| c & crate::vfs::class::WRITE != 0 && sfx == ".manifest").unwrap_or(false) && prog.fault_budget == Some(1) && creates > 2 {
            log2.lock().unwrap().push(Event {
                thread: 96,
                op: TOp::Flush,
                invoke: u64::MAX - 7,
                ret: u64::MAX - 6,
                res: Res::Err(format!("C08 background work after a recorded failure: {} table files were created after the single injected failure of a manifest write (the database is in its error state from then on)", creates)),
            });
        }
    }
    if prog.judge_under_fault {
        fs.state().fail_by_suffix = None;
        let events = log2.lock().unwrap().clone();
        if let Some(msg) = check_durable_after_reopen(prog, &fs, &events) {
            log2.lock().unwrap().push(Event {
                thread: 96,
                op: TOp::Flush,
                invoke: u64::MAX - 5,
                ret: u64::MAX - 4,
                res: Res::Err(msg),
            });
        }
    }
    if prog.recover_at_removals {
        let snaps = std::mem::take(&mut fs.state().removal_snaps);
        let events = log2.lock().unwrap().clone();
        if let Some(msg) = check_removal_snapshots(prog, &fs, &events, &snaps) {
            log2.lock().unwrap().push(Event {
                thread: 98,
                op: TOp::Flush,
                invoke: u64::MAX - 1,
                ret: u64::MAX,
                res: Res::Err(msg),
            });
        }
    }
}

/// After a run with an injected fault: the fault is gone, the database is reopened. For every key
/// the value found must come from a write (acknowledged or failed — a failed write may or may not
/// have taken effect) that no *acknowledged* write to the same key definitely followed; "absent"
/// without a delete is only possible if no write to the key was acknowledged.
fn check_durable_after_reopen(prog: &Prog, fs: &VerifFs, events: &[Event]) -> Option<String> {
    let r = check_durable_after_reopen_inner(prog, fs, events);
    if prog.fault.is_none() {
        // no fault in the program: the database was simply closed while background work could
        // still be running, and reopened
        return r.map(|m| m.replacen("C08 after the fault", "C07 after close and reopen", 1));
    }
    r
}

fn check_durable_after_reopen_inner(prog: &Prog, fs: &VerifFs, events: &[Event]) -> Option<String> {
    let db = match DB::open(db_options(fs, &prog.cfg)) {
        Ok(db) => db,
        Err(e) => return Some(format!("C08 after the fault: the database cannot be reopened once the fault is gone: {}", e)),
    };
    let effect = |e: &Event, k: u8| -> Option<Option<Vec<u8>>> {
        match &e.op {
            TOp::Put(kk, v, s) if *kk == k => Some(Some(val(*v, *s))),
            TOp::Del(kk) if *kk == k => Some(None),
            TOp::Batch(items) => items.iter().rev().find(|(kk, _)| *kk == k).map(|(_, v)| v.map(|v| val(v, 8))),
            _ => None,
        }
    };
    let mut bad = None;
    for k in 0..prog.keys.len() as u8 {
        let got = match db_get(&db, &prog.keys[k as usize], None) {
            Ok(v) => v,
            Err(e) => {
                bad = Some(format!("C08 after the fault: get {} fails after a clean reopen: {}", esc(&prog.keys[k as usize]), e));
                break;
            }
        };
        let writes: Vec<(&Event, Option<Vec<u8>>)> = events.iter().filter(|e| e.thread < 90).filter_map(|e| effect(e, k).map(|v| (e, v))).collect();
        let acked: Vec<&Event> = writes.iter().filter(|(e, _)| matches!(e.res, Res::Ok)).map(|(e, _)| *e).collect();
        let mut allowed: Vec<Option<Vec<u8>>> = vec![];
        if acked.is_empty() {
            allowed.push(None);
        }
        for (w, v) in writes.iter() {
            if !acked.iter().any(|a| a.invoke > w.ret) {
                allowed.push(v.clone());
            }
        }
        if !allowed.contains(&got) {
            let sh = |v: &Option<Vec<u8>>| v.as_ref().map(|v| show_val(v)).unwrap_or_else(|| "NotFound".into());
            bad = Some(format!(
                "C08 after the fault: after a clean reopen {} = {} but the acknowledged writes allow only {}",
                esc(&prog.keys[k as usize]),
                sh(&got),
                allowed.iter().map(sh).collect::<Vec<_>>().join(" / ")
            ));
            break;
        }
    }
    drop(db);
    bad
}

/// For every removal: recover from the image right after it; the contents must be the model of
/// the writes acknowledged by then, or that plus the one write in flight.
fn check_removal_snapshots(prog: &Prog, fs: &VerifFs, events: &[Event], snaps: &[(u64, String, crate::vfs::Image)]) -> Option<String> {
    let mut writes: Vec<&Event> = events.iter().filter(|e| matches!(e.op, TOp::Put(..) | TOp::Del(..) | TOp::Batch(..))).collect();
    writes.sort_by_key(|e| e.invoke);
    // single-writer discipline (no two writes overlap in time): whole-state candidates; otherwise
    // the per-key oracle
    let single_writer = writes.windows(2).all(|w| w[1].invoke >= w[0].ret);
    let dirs = fs.dirs();
    let sh = |m: &M| format!("{{{}}}", m.iter().map(|(k, v)| format!("{}={}", esc(&prog.keys[*k as usize]), show_val(v))).collect::<Vec<_>>().join(", "));
    let effect = |e: &Event, k: u8| -> Option<Option<Vec<u8>>> {
        match &e.op {
            TOp::Put(kk, v, s) if *kk == k => Some(Some(val(*v, *s))),
            TOp::Del(kk) if *kk == k => Some(None),
            TOp::Batch(items) => items.iter().rev().find(|(kk, _)| *kk == k).map(|(_, v)| v.map(|v| val(v, 8))),
            _ => None,
        }
    };
    for (tick, label, image) in snaps {
        let head = if label.starts_with("the removal") { "C11 needed file removed" } else { "C02 crash under concurrency" };
        // recover (memoised by image content: the same image recurs in many schedules)
        let got: M = {
            use std::hash::{Hash, Hasher};
            let mut h = std::collections::hash_map::DefaultHasher::new();
            prog.name.hash(&mut h);
            for (p, b) in image.iter() {
                p.hash(&mut h);
                b.hash(&mut h);
            }
            let key = h.finish();
            let cached = RECOVERY_CACHE.with(|c| c.borrow().get(&key).cloned());
            match cached {
                Some(Ok(m)) => m,
                Some(Err(e)) => return Some(format!("{}: after {} a crash image cannot be opened: {}", head, label, e)),
                None => {
                    let rfs = VerifFs::from_image(image, &dirs);
                    let res: Result<M, String> = match DB::open(db_options(&rfs, &prog.cfg)) {
                        Ok(db) => {
                            let mut got = M::new();
                            let mut err = None;
                            for (i, k) in prog.keys.iter().enumerate() {
                                match db_get(&db, k, None) {
                                    Ok(Some(v)) => {
                                        got.insert(i as u8, v);
                                    }
                                    Ok(None) => {}
                                    Err(e) => err = Some(format!("get {} fails after recovery: {}", esc(k), e)),
                                }
                            }
                            drop(db);
                            match err {
                                Some(e) => Err(e),
                                None => Ok(got),
                            }
                        }
                        Err(e) => Err(e.to_string()),
                    };
                    RECOVERY_CACHE.with(|c| {
                        let mut c = c.borrow_mut();
                        if c.len() > 200_000 {
                            c.clear();
                        }
                        c.insert(key, res.clone());
                    });
                    match res {
                        Ok(m) => m,
                        Err(e) => return Some(format!("{}: after {} a crash image cannot be opened: {}", head, label, e)),
                    }
                }
            }
        };
        if single_writer {
            let mut m = M::new();
            let mut cands: Vec<M> = vec![];
            let mut in_flight_done = false;
            for w in writes.iter() {
                // `tick` is the value of the clock at the snapshot = the number the *next* event
                // boundary will get: a write has returned iff its return stamp is smaller
                if w.ret < *tick {
                    apply_model(&mut m, &w.op, prog.keys.len());
                } else if w.invoke < *tick && !in_flight_done {
                    cands.push(m.clone());
                    let mut m2 = m.clone();
                    apply_model(&mut m2, &w.op, prog.keys.len());
                    cands.push(m2);
                    in_flight_done = true;
                }
            }
            if cands.is_empty() {
                cands.push(m.clone());
            }
            if !cands.contains(&got) {
                return Some(format!(
                    "{}: a crash right after {} recovers {} but the writes acknowledged by then give {}",
                    head,
                    label,
                    sh(&got),
                    cands.iter().map(sh).collect::<Vec<_>>().join(" or ")
                ));
            }
            continue;
        }
        // several writers: per key, the recovered value must come from a write that had started
        // and that no write acknowledged before the crash definitely followed
        for k in 0..prog.keys.len() as u8 {
            let kw: Vec<(&Event, Option<Vec<u8>>)> = writes.iter().filter_map(|e| effect(e, k).map(|v| (*e, v))).collect();
            let mut allowed: Vec<Option<Vec<u8>>> = vec![];
            if !kw.iter().any(|(w, _)| w.ret < *tick) {
                allowed.push(None);
            }
            for (w, v) in kw.iter() {
                if w.invoke < *tick && !kw.iter().any(|(w2, _)| w2.ret < *tick && w2.invoke > w.ret) {
                    allowed.push(v.clone());
                }
            }
            let g = got.get(&k).cloned();
            if !allowed.contains(&g) {
                let shv = |v: &Option<Vec<u8>>| v.as_ref().map(|v| show_val(v)).unwrap_or_else(|| "NotFound".into());
                return Some(format!(
                    "{}: a crash right after {} recovers {} = {} but the writes started / acknowledged by then allow only {} (recovered state {})",
                    head,
                    label,
                    esc(&prog.keys[k as usize]),
                    shv(&g),
                    allowed.iter().map(shv).collect::<Vec<_>>().join(" / "),
                    sh(&got)
                ));
            }
        }
        // a batch is recovered completely or not at all: a key of the batch that shows another
        // value needs another write that could follow the batch
        for b in writes.iter() {
            if let TOp::Batch(items) = &b.op {
                let ks: Vec<u8> = items.iter().map(|(k, _)| *k).collect();
                let shows = |k: u8| effect(b, k).map(|v| v == got.get(&k).cloned()).unwrap_or(false);
                let n_seen = ks.iter().filter(|k| shows(**k)).count();
                // only judge batches whose values are unique puts
                if items.iter().any(|(_, v)| v.is_none()) || n_seen == 0 || n_seen == ks.len() {
                    continue;
                }
                for k in ks.iter().filter(|k| !shows(**k)) {
                    let g = got.get(k).cloned();
                    let explained = writes.iter().any(|w| !std::ptr::eq(*w, *b) && w.ret > b.invoke && effect(w, *k) == Some(g.clone()));
                    if !explained {
                        return Some(format!(
                            "{}: a crash right after {} recovers only part of the batch {}: state {}",
                            head,
                            label,
                            top_str(&b.op, &prog.keys),
                            sh(&got)
                        ));
                    }
                }
            }
        }
    }
    None
}

thread_local! {
    static RECOVERY_CACHE: std::cell::RefCell<std::collections::HashMap<u64, Result<M, String>>> = std::cell::RefCell::new(std::collections::HashMap::new());
}

/// One execution of the program; returns the history (only meaningful if the outcome is Ok).
fn run_prog(prog: &Arc<Prog>, sched: &Sched) -> Option<(Outcome, Vec<Event>, u64)> {
    let log: Arc<Mutex<Vec<Event>>> = Arc::new(Mutex::new(vec![]));
    let stale: Arc<AtomicU64> = Arc::new(AtomicU64::new(0));
    let log2 = Arc::clone(&log);
    let stale2 = Arc::clone(&stale);
    let prog2 = Arc::clone(prog);
    let out = run_once(sched, move || prog_body(&prog2, &log2, &stale2))?;
    let h = log.lock().unwrap().clone();
    Some((out, h, stale.load(Ordering::SeqCst)))
}

// ---- linearizability ---------------------------------------------------------------------------

type M = BTreeMap<u8, Vec<u8>>;

fn apply_model(m: &mut M, op: &TOp, keys_n: usize) -> Res {
    match op {
        TOp::Put(k, v, s) => {
            m.insert(*k, val(*v, *s));
            Res::Ok
        }
        TOp::Del(k) => {
            m.remove(k);
            Res::Ok
        }
        TOp::Batch(items) => {
            for (k, v) in items {
                match v {
                    Some(v) => {
                        m.insert(*k, val(*v, 8));
                    }
                    None => {
                        m.remove(k);
                    }
                }
            }
            Res::Ok
        }
        TOp::Get(k) | TOp::IterSeek(k) => Res::Val(m.get(k).cloned()),
        TOp::SnapRead(ks) => Res::Multi(ks.iter().map(|k| m.get(k).cloned()).collect()),
        TOp::IterScan => {
            let _ = keys_n;
            Res::Scan(vec![]) // filled by caller (needs key bytes)
        }
        TOp::Flush | TOp::Compact(..) | TOp::GetMany(..) => Res::Ok,
    }
}

fn model_result(m: &mut M, ev: &Event, keys: &[Vec<u8>]) -> Res {
    match &ev.op {
        TOp::IterScan => {
            let mut kv: Vec<(Vec<u8>, Vec<u8>)> = m.iter().map(|(k, v)| (keys[*k as usize].clone(), v.clone())).collect();
            kv.sort();
            Res::Scan(kv)
        }
        op => apply_model(m, op, keys.len()),
    }
}

/// Brute force: is there a total order of the events that respects real time and explains every
/// result on the map model?
pub fn linearizable(events: &[Event], keys: &[Vec<u8>]) -> bool {
    fn rec(events: &[Event], keys: &[Vec<u8>], done: &mut Vec<bool>, m: &M, left: usize) -> bool {
        if left == 0 {
            return true;
        }
        // an event may go next if no other pending event returned before it was invoked
        let min_ret = events
            .iter()
            .enumerate()
            .filter(|(i, _)| !done[*i])
            .map(|(_, e)| e.ret)
            .min()
            .unwrap();
        for i in 0..events.len() {
            if done[i] || events[i].invoke > min_ret {
                continue;
            }
            let mut m2 = m.clone();
            let r = model_result(&mut m2, &events[i], keys);
            if r == events[i].res {
                done[i] = true;
                if rec(events, keys, done, &m2, left - 1) {
                    done[i] = false;
                    return true;
                }
                done[i] = false;
            }
        }
        false
    }
    let mut done = vec![false; events.len()];
    rec(events, keys, &mut done, &M::new(), events.len())
}

/// The same with failed calls: a failed read constrains nothing, a failed write may or may not
/// have taken effect (once, somewhere inside its interval); calls that returned Ok are judged as
/// usual — in particular a write that returned Ok must be visible to every later successful read.
pub fn linearizable_with_failures(events: &[Event], keys: &[Vec<u8>]) -> bool {
    fn rec(events: &[Event], keys: &[Vec<u8>], done: &mut Vec<bool>, m: &M, left: usize) -> bool {
        if left == 0 {
            return true;
        }
        let min_ret = events.iter().enumerate().filter(|(i, _)| !done[*i]).map(|(_, e)| e.ret).min().unwrap();
        for i in 0..events.len() {
            if done[i] || events[i].invoke > min_ret {
                continue;
            }
            let failed = matches!(events[i].res, Res::Err(_));
            let mut m2 = m.clone();
            let r = model_result(&mut m2, &events[i], keys);
            if failed || r == events[i].res {
                done[i] = true;
                if rec(events, keys, done, &m2, left - 1) {
                    done[i] = false;
                    return true;
                }
                // a failed write that did not take effect
                if failed && m2 != *m && rec(events, keys, done, m, left - 1) {
                    done[i] = false;
                    return true;
                }
                done[i] = false;
            }
        }
        false
    }
    let mut done = vec![false; events.len()];
    rec(events, keys, &mut done, &M::new(), events.len())
}

fn show_res(r: &Res) -> String {
    match r {
        Res::Ok => "ok".into(),
        Res::Err(e) => format!("ERR({})", e.chars().take(80).collect::<String>()),
        Res::Val(v) => match v {
            Some(v) => show_val(v),
            None => "NotFound".into(),
        },
        Res::Multi(vs) => format!(
            "[{}]",
            vs.iter()
                .map(|v| match v {
                    Some(v) => show_val(v),
                    None => "NotFound".into(),
                })
                .collect::<Vec<_>>()
                .join(",")
        ),
        Res::Scan(kv) => format!("[{}]", kv.iter().map(|(k, v)| format!("{}={}", esc(k), show_val(v))).collect::<Vec<_>>().join(",")),
    }
}

pub fn history_str(events: &[Event], keys: &[Vec<u8>]) -> Vec<String> {
    let mut ev: Vec<&Event> = events.iter().collect();
    ev.sort_by_key(|e| e.invoke);
    ev.iter()
        .map(|e| format!("T{} [{}..{}] {} -> {}", e.thread, e.invoke, e.ret, top_str(&e.op, keys), show_res(&e.res)))
        .collect()
}

/// Judge one completed execution. Returns (clause, detail) on violation.
pub fn judge(prog: &Prog, out: &Outcome, events: &[Event], stale_uses: u64, atomic_batches: bool) -> Option<(String, String)> {
    match out {
        Outcome::Ok => {}
        Outcome::Panic { msg, bg: true } => return Some(("C09.bg_panic".into(), format!("background thread panicked: {}", msg))),
        Outcome::Panic { msg, bg: false } => return Some(("C09.panic".into(), format!("a database call panicked: {}", msg))),
        Outcome::Deadlock(m) => return Some(("C09.deadlock".into(), m.clone())),
        Outcome::StepBound => return Some(("C09.livelock".into(), "step bound exceeded".into())),
        Outcome::Divergence(m) => return Some(("machinery.divergence".into(), m.clone())),
    }
    for e in events {
        // an injected fault makes errors of the calls legitimate; what is judged then is that
        // every call returned (no deadlock / panic above) and the harness's own final oracles
        if prog.fault.is_some() && e.thread < 90 {
            continue;
        }
        if let Res::Err(m) = &e.res {
            let clause = if m.starts_with("C11 directory after quiescence") {
                "C11.dead_file_kept"
            } else if m.starts_with("C03 snapshot changed its answer") {
                "C03.snapshot_not_stable"
            } else if m.starts_with("C08 background work after a recorded failure") {
                "C08.background_work_goes_on_after_a_recorded_failure"
            } else if m.starts_with("C08 after the fault") {
                "C08.concurrent_acknowledged_write_lost"
            } else if m.starts_with("C07 after close and reopen") {
                "C07.lost_by_close_during_background_work"
            } else if m.starts_with("C11 needed file removed") {
                "C11.needed_file_removed"
            } else if m.starts_with("C02 crash under concurrency") {
                "C02.concurrent_crash"
            } else if m.contains("removed file") || m.contains("Could not find the file") {
                "C11.live_deleted"
            } else if matches!(e.op, TOp::Get(_) | TOp::IterSeek(_) | TOp::SnapRead(_) | TOp::IterScan) {
                "C05.read_err"
            } else {
                "C05.write_err"
            };
            return Some((
                clause.into(),
                format!("T{} {} failed with no fault injected: {}", e.thread, top_str(&e.op, &prog.keys), m),
            ));
        }
    }
    if prog.fault.is_some() {
        if prog.judge_under_fault {
            let real: Vec<Event> = events.iter().filter(|e| e.thread < 90).cloned().collect();
            if !linearizable_with_failures(&real, &prog.keys) {
                return Some((
                    "C08.concurrent_not_explainable".into(),
                    format!(
                        "with failed calls optional (a failed write may or may not have taken effect) no order explains the successful results — a write that returned Ok is not visible to a later successful read, or a read returned something never written: {}",
                        history_str(events, &prog.keys).join(" | ")
                    ),
                ));
            }
        }
        return None;
    }
    if stale_uses > 0 {
        return Some(("C11.live_deleted".into(), format!("{} uses of a handle to a removed file", stale_uses)));
    }
    if atomic_batches {
        // C06: a sequence-consistent observation never mixes a batch
        for e in events {
            let obs: Option<Vec<(u8, Option<Vec<u8>>)>> = match (&e.op, &e.res) {
                (TOp::SnapRead(ks), Res::Multi(vs)) => Some(ks.iter().copied().zip(vs.iter().cloned()).collect()),
                (TOp::IterScan, Res::Scan(kv)) => Some(
                    (0..prog.keys.len() as u8)
                        .map(|k| (k, kv.iter().find(|(kk, _)| *kk == prog.keys[k as usize]).map(|(_, v)| v.clone())))
                        .collect(),
                ),
                _ => None,
            };
            if let Some(obs) = obs {
                for b in events.iter().chain(std::iter::empty()) {
                    if let TOp::Batch(items) = &b.op {
                        // which of the batch's effects are visible?
                        let mut seen = 0;
                        let mut judged = 0;
                        for (k, v) in items {
                            if let Some((_, got)) = obs.iter().find(|(kk, _)| kk == k) {
                                // only judge keys whose batch value is unique in the program
                                let want = v.map(|v| val(v, 8));
                                judged += 1;
                                if *got == want && want.is_some() {
                                    seen += 1;
                                }
                            }
                        }
                        let puts = items.iter().filter(|(_, v)| v.is_some()).count();
                        if judged == items.len() && puts == items.len() && seen != 0 && seen != puts {
                            // could still be explained by a later overwrite: leave the verdict to
                            // the linearizability check below unless nothing else writes these keys
                            let others_write = events.iter().any(|o| {
                                !std::ptr::eq(o, b)
                                    && o.ret > b.invoke
                                    && match &o.op {
                                        TOp::Put(k, ..) | TOp::Del(k) => items.iter().any(|(kk, _)| kk == k),
                                        TOp::Batch(it2) => it2.iter().any(|(k, _)| items.iter().any(|(kk, _)| kk == k)),
                                        _ => false,
                                    }
                            });
                            if !others_write {
                                return Some((
                                    "C06.partial_batch".into(),
                                    format!(
                                        "T{} {} observed {} of the {} effects of {}: {}",
                                        e.thread,
                                        top_str(&e.op, &prog.keys),
                                        seen,
                                        puts,
                                        top_str(&b.op, &prog.keys),
                                        show_res(&e.res)
                                    ),
                                ));
                            }
                        }
                    }
                }
            }
        }
    }
    if !linearizable(events, &prog.keys) {
        return Some((
            "C05.not_linearizable".into(),
            format!("no linearization explains the history: {}", history_str(events, &prog.keys).join(" | ")),
        ));
    }
    None
}

#[derive(Clone, Debug)]
pub struct SFound {
    pub prog: String,
    pub clause: String,
    pub detail: String,
    pub choices: Vec<usize>,
    pub preempts: Vec<String>,
    pub history: Vec<String>,
}

pub struct SchedResult {
    pub executions: u64,
    pub steps: u64,
    pub nodes: u64,
    pub max_depth: u64,
    pub distinct_outcomes: u64,
    pub found: Vec<SFound>,
    pub violations_total: u64,
    pub machinery: Vec<String>,
    pub preempt_points: BTreeMap<String, u64>,
    pub per_prog: Vec<Value>,
    pub capped: bool,
    pub wall_s: f64,
}

fn hash_history(events: &[Event]) -> u64 {
    use std::hash::{Hash, Hasher};
    let mut h = std::collections::hash_map::DefaultHasher::new();
    let mut ev: Vec<&Event> = events.iter().collect();
    ev.sort_by_key(|e| (e.thread, e.invoke));
    for e in ev {
        e.thread.hash(&mut h);
        e.res.hash(&mut h);
    }
    h.finish()
}

fn record_finding(shm: &Shm, prog: &Prog, sched: &Sched, clause: &str, detail: &str, events: &[Event]) {
    shm.add(C_VIOLATIONS, 1);
    let core = sched.core();
    let v = json!({
        "prog": prog.name,
        "clause": clause,
        "detail": detail,
        "choices": core.current_choices(),
        "preempts": core.cur_preempts.iter().map(|(d, p)| format!("{}@{}", p, d)).collect::<Vec<_>>(),
        "history": history_str(events, &prog.keys),
    });
    drop(core);
    shm.push_record(b'V', v.to_string().as_bytes());
}

/// Explore one (program, partition) job in the current process.
fn explore_job(prog: &Arc<Prog>, bound: (usize, usize), part: (usize, usize), atomic_batches: bool, shm: &Arc<Shm>, deadline: Option<std::time::Instant>, slot: usize) -> bool {
    let sched = Sched::new(Mode::Dfs { bound: bound.0, max_dev: bound.1 });
    sched.core().partition = Some(part);
    sched.core().deadline = deadline;
    let log: Arc<Mutex<Vec<Event>>> = Arc::new(Mutex::new(vec![]));
    let stale: Arc<AtomicU64> = Arc::new(AtomicU64::new(0));
    let mut complete = true;
    loop {
        let prog2 = Arc::clone(prog);
        let log2 = Arc::clone(&log);
        let stale2 = Arc::clone(&stale);
        let shm2 = Arc::clone(shm);
        let sched2 = sched.clone();
        // many executions per Runner; each completed execution is judged at its end
        let failed = run_many(&sched, move || {
            prog_body(&prog2, &log2, &stale2);
            if sched2.core().first_is_foreign {
                return; // the deviation-free schedule belongs to partition 0
            }
            shm2.add(C_EXECUTIONS, 1);
            shm2.add(C_USER + slot, 1);
            let events = log2.lock().unwrap().clone();
            let is_new = shm2.insert_state(hash_history(&events) ^ (slot as u64).wrapping_mul(0x9E3779B97F4A7C15));
            if is_new {
                // development aid: RDBCHECK_DUMP=<file> appends every newly observed history
                if let Ok(f) = std::env::var("RDBCHECK_DUMP") {
                    use std::io::Write;
                    if let Ok(mut fh) = std::fs::OpenOptions::new().create(true).append(true).open(f) {
                        let _ = writeln!(fh, "{} :: {}", prog2.name, history_str(&events, &prog2.keys).join(" | "));
                    }
                }
            }
            if let Some((clause, detail)) = judge(&prog2, &Outcome::Ok, &events, stale2.load(Ordering::SeqCst), atomic_batches) {
                record_finding(&shm2, &prog2, &sched2, &clause, &detail, &events);
            }
        });
        match failed {
            None => break,
            Some(Outcome::Divergence(m)) => {
                shm.add(C_MACHINERY, 1);
                shm.push_record(b'M', format!("{}: {}", prog.name, m).as_bytes());
                complete = false;
                break;
            }
            Some(out) => {
                if sched.core().first_is_foreign {
                    continue;
                }
                shm.add(C_EXECUTIONS, 1);
                shm.add(C_USER + slot, 1);
                let events = log.lock().unwrap().clone();
                if let Some((clause, detail)) = judge(prog, &out, &events, 0, atomic_batches) {
                    record_finding(shm, prog, &sched, &clause, &detail, &events);
                }
            }
        }
    }
    let core = sched.core();
    if core.stopped_by_deadline {
        complete = false;
    }
    shm.add(C_STEPS, core.steps);
    shm.add(C_NODES, core.nodes_created);
    shm.max(C_MAX_FILE_ENTRIES, core.max_depth as u64);
    let pp = json!({"prog": prog.name, "points": core.preempt_points});
    shm.push_record(b'P', pp.to_string().as_bytes());
    complete
}

/// Replay one recorded schedule of a program (isolated process, since a replay may abort).
pub fn replay_isolated(prog: &Arc<Prog>, choices: &[usize], atomic_batches: bool) -> Option<(String, String)> {
    let shm = Shm::new(1024, 1 << 18);
    let pid = unsafe { libc::fork() };
    if pid == 0 {
        crate::watchdog::arm();
        let sched = Sched::new(Mode::Fixed);
        sched.core().forced = choices.to_vec();
        let r = run_prog(prog, &sched);
        let v = match r {
            Some((out, events, stale)) => match judge(prog, &out, &events, stale, atomic_batches) {
                Some((c, d)) => json!({"clause": c, "detail": d}),
                None => json!({}),
            },
            None => json!({"clause": "machinery.no_execution", "detail": ""}),
        };
        shm.push_record(b'R', v.to_string().as_bytes());
        unsafe { libc::_exit(0) };
    }
    let mut st: libc::c_int = 0;
    unsafe { libc::waitpid(pid, &mut st, 0) };
    if !(libc::WIFEXITED(st) && libc::WEXITSTATUS(st) == 0) {
        return Some(("crash.abort".into(), format!("process died (wait status {})", st)));
    }
    for (tag, data) in shm.records() {
        if tag == b'R' {
            let v: Value = serde_json::from_slice(&data).unwrap_or(json!({}));
            if let Some(c) = v.get("clause").and_then(|c| c.as_str()) {
                return Some((c.to_string(), v["detail"].as_str().unwrap_or("").to_string()));
            }
            return None;
        }
    }
    Some(("machinery.no_result".into(), "replay child wrote no result".into()))
}

/// Explore all programs with up to `bound` preemptions, `workers` processes, `parts` partitions
/// per program.
pub fn explore(progs: &[Arc<Prog>], bound: (usize, usize), parts: usize, workers: usize, atomic_batches: bool, named_level: u64, deadline: Option<std::time::Instant>) -> SchedResult {
    let t0 = std::time::Instant::now();
    parking_lot::verif_rt::set_named_level(named_level);
    let shm = Arc::new(Shm::new(1 << 20, 16 << 20));
    assert!(progs.len() <= N_COUNTERS - C_USER, "too many programs for the counter slots");
    // partition-major order: when the budget runs out every program has had part of its schedules
    // explored (program-major order starved the programs at the end of a list on a loaded machine)
    let nprogs = progs.len();
    let jobs: Vec<(usize, usize)> = (0..parts).flat_map(|i| (0..nprogs).map(move |p| (p, i))).collect();
    let mut pids = vec![];
    for _ in 0..workers.max(1) {
        let pid = unsafe { libc::fork() };
        if pid == 0 {
            crate::watchdog::arm();
            loop {
                let j = shm.add(C_NEXT_TASK, 1) as usize;
                if j >= jobs.len() {
                    break;
                }
                let (p, i) = jobs[j];
                if explore_job(&progs[p], bound, (i, parts), atomic_batches, &shm, deadline, p) {
                    shm.add(C_TASKS_DONE, 1);
                }
            }
            unsafe { libc::_exit(0) };
        }
        pids.push(pid);
    }
    let mut machinery = vec![];
    for pid in pids {
        let mut st: libc::c_int = 0;
        unsafe { libc::waitpid(pid, &mut st, 0) };
        if !(libc::WIFEXITED(st) && libc::WEXITSTATUS(st) == 0) {
            machinery.push(match crate::watchdog::describe_exit(st) {
                Some(m) => format!("schedx worker: {}", m),
                None => format!("schedx worker died (wait status {})", st),
            });
        }
    }
    let capped = (shm.get(C_TASKS_DONE) as usize) < jobs.len();
    let mut found = vec![];
    let mut preempt_points: BTreeMap<String, u64> = BTreeMap::new();
    for (tag, data) in shm.records() {
        match tag {
            b'V' => {
                if let Ok(v) = serde_json::from_slice::<Value>(&data) {
                    let strs = |x: &Value| x.as_array().map(|a| a.iter().map(|s| s.as_str().unwrap_or("").to_string()).collect::<Vec<_>>()).unwrap_or_default();
                    found.push(SFound {
                        prog: v["prog"].as_str().unwrap_or("").to_string(),
                        clause: v["clause"].as_str().unwrap_or("").to_string(),
                        detail: v["detail"].as_str().unwrap_or("").to_string(),
                        choices: v["choices"].as_array().map(|a| a.iter().map(|x| x.as_u64().unwrap_or(0) as usize).collect()).unwrap_or_default(),
                        preempts: strs(&v["preempts"]),
                        history: strs(&v["history"]),
                    });
                }
            }
            b'M' => machinery.push(String::from_utf8_lossy(&data).to_string()),
            b'P' => {
                if let Ok(v) = serde_json::from_slice::<Value>(&data) {
                    if let Some(o) = v["points"].as_object() {
                        for (k, n) in o {
                            *preempt_points.entry(k.clone()).or_default() += n.as_u64().unwrap_or(0);
                        }
                    }
                }
            }
            _ => {}
        }
    }
    let per_prog = progs
        .iter()
        .enumerate()
        .map(|(i, p)| {
            let mut d = p.describe();
            d["schedules_explored"] = json!(shm.get(C_USER + i));
            d["findings"] = json!(found.iter().filter(|f| f.prog == p.name).count());
            d
        })
        .collect();
    SchedResult {
        executions: shm.get(C_EXECUTIONS),
        steps: shm.get(C_STEPS),
        nodes: shm.get(C_NODES),
        max_depth: shm.get(C_MAX_FILE_ENTRIES),
        distinct_outcomes: shm.get(C_STATES),
        violations_total: shm.get(C_VIOLATIONS),
        found,
        machinery,
        preempt_points,
        per_prog,
        capped,
        wall_s: t0.elapsed().as_secs_f64(),
    }
}
