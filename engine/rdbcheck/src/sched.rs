//! The controlled scheduler: iterative context bounding (preemption-bounded exhaustive DFS),
//! single deterministic schedules (`Seq`) and replay, all on one choice-stack core.
//!
//! At every scheduling step shuttle hands us the runnable tasks and the current task. Canonical
//! order of choices: the current task first if it is still runnable and not yielding, then the
//! others by ascending id (with `prefer_high` by descending id); if the current task yields it
//! goes last. Taking choice 0 is free; taking another choice while the current task is runnable
//! and not yielding costs one preemption. Executions always run to completion.

use std::collections::BTreeMap;
use std::sync::{Arc, Mutex};

use shuttle::scheduler::{Schedule, Scheduler, Task, TaskId};

#[derive(Clone, Debug)]
pub struct Node {
    pub choices: Vec<usize>,
    pub idx: usize,
    pub used_before: usize,
    /// number of non-default choices (preemptions or free switches) taken before this node
    pub devs_before: usize,
    pub default_is_current: bool,
    pub point: &'static str,
}

#[derive(Clone, Copy, Debug, PartialEq, Eq)]
pub enum Mode {
    /// Exhaustive DFS over all schedules with at most `bound` preemptions and at most
    /// `max_dev` deviations from the default schedule in total (a deviation is any non-default
    /// choice: a preemption, or picking another than the lowest-id task when the current task
    /// blocked, finished or yielded).
    Dfs { bound: usize, max_dev: usize },
    /// Follow the pre-loaded choice list (indices into the canonical choice order), then take
    /// choice 0 for ever. With an empty list this is the single `Seq` schedule.
    Fixed,
}

#[derive(Debug)]
pub struct Core {
    pub mode: Mode,
    /// Prefer the highest task id among the non-current tasks (the "background first" flavour
    /// of the deterministic schedules); canonical order otherwise ascending.
    pub prefer_high: bool,
    pub stack: Vec<Node>,
    pub depth: usize,
    pub used: usize,
    pub devs: usize,
    pub started: bool,
    pub done: bool,
    /// For `Fixed`: forced choice indices for the first decisions.
    pub forced: Vec<usize>,
    /// Work partitioning: `(i, n)` restricts this explorer to the schedules whose *first*
    /// deviation (shallowest decision with a non-default choice) is at a decision index d with
    /// d % n == i; the deviation-free schedule belongs to partition 0.
    pub partition: Option<(usize, usize)>,
    /// true while running the deviation-free schedule in a partition that does not own it
    pub first_is_foreign: bool,
    pub oracle_steps: u64,
    pub deadline: Option<std::time::Instant>,
    pub stopped_by_deadline: bool,
    // statistics
    pub executions: u64,
    pub steps: u64,
    pub nodes_created: u64,
    pub max_depth: usize,
    pub preempt_points: BTreeMap<&'static str, u64>,
    pub divergence: Option<String>,
    /// trace of (point kind) at which a non-default choice was taken in the current execution
    pub cur_preempts: Vec<(usize, &'static str)>,
}

impl Core {
    pub fn new(mode: Mode) -> Self {
        Core {
            mode,
            prefer_high: false,
            stack: Vec::new(),
            depth: 0,
            used: 0,
            devs: 0,
            started: false,
            done: false,
            forced: Vec::new(),
            partition: None,
            first_is_foreign: false,
            oracle_steps: 0,
            deadline: None,
            stopped_by_deadline: false,
            executions: 0,
            steps: 0,
            nodes_created: 0,
            max_depth: 0,
            preempt_points: BTreeMap::new(),
            divergence: None,
            cur_preempts: Vec::new(),
        }
    }

    /// The choice list (index per decision) of the execution that just ran / is running.
    pub fn current_choices(&self) -> Vec<usize> {
        self.stack[..self.depth.min(self.stack.len())]
            .iter()
            .map(|n| n.idx)
            .collect()
    }

    /// Compact form: only the decisions where a non-default choice was taken: (decision#, idx).
    pub fn current_deviations(&self) -> Vec<(usize, usize)> {
        self.stack[..self.depth.min(self.stack.len())]
            .iter()
            .enumerate()
            .filter(|(_, n)| n.idx != 0)
            .map(|(i, n)| (i, n.idx))
            .collect()
    }

    fn admissible(&self, pos: usize) -> bool {
        let n = &self.stack[pos];
        match self.mode {
            Mode::Fixed => false,
            Mode::Dfs { bound, max_dev } => {
                if !(n.idx + 1 < n.choices.len() && (!n.default_is_current || n.used_before + 1 <= bound)) {
                    return false;
                }
                if n.devs_before + 1 > max_dev {
                    return false;
                }
                if let Some((i, parts)) = self.partition {
                    let is_first_deviation = n.idx == 0 && self.stack[..pos].iter().all(|m| m.idx == 0);
                    if is_first_deviation && pos % parts != i {
                        return false;
                    }
                }
                true
            }
        }
    }

    fn begin(&mut self) -> bool {
        parking_lot::verif_rt::set_oracle_mode(false);
        crate::watchdog::new_execution();
        if self.done {
            return false;
        }
        if let Some(d) = self.deadline {
            if std::time::Instant::now() > d {
                self.stopped_by_deadline = true;
                return false;
            }
        }
        if self.started {
            // backtrack
            self.stack.truncate(self.depth);
            loop {
                if self.stack.is_empty() {
                    self.done = true;
                    return false;
                }
                if self.admissible(self.stack.len() - 1) {
                    break;
                }
                self.stack.pop();
            }
            let n = self.stack.last_mut().unwrap();
            n.idx += 1;
        }
        if !self.started {
            // the deviation-free schedule is explored by partition 0 only; the others still run
            // it once (to build the stack) but do not count it
            self.first_is_foreign = matches!(self.partition, Some((i, _)) if i != 0);
        } else {
            self.first_is_foreign = false;
        }
        self.started = true;
        self.depth = 0;
        self.used = 0;
        self.devs = 0;
        self.cur_preempts.clear();
        self.executions += 1;
        true
    }

    fn decide(&mut self, runnable: &[&Task], current: Option<TaskId>, is_yielding: bool) -> Option<TaskId> {
        let point = parking_lot::verif_rt::take_last_point();
        crate::watchdog::beat();
        self.steps += 1;
        let mut ids: Vec<usize> = runnable.iter().map(|t| usize::from(t.id())).collect();
        ids.sort_unstable();
        if self.prefer_high {
            ids.reverse();
        }
        if parking_lot::verif_rt::oracle_mode() || self.divergence.is_some() {
            // default choice, no node: oracle work is not explored
            self.oracle_steps += 1;
            let cur = current.map(usize::from);
            let cur_ok = cur.map(|c| ids.contains(&c)).unwrap_or(false);
            let pick = if cur_ok && !is_yielding {
                cur.unwrap()
            } else if cur_ok {
                ids.iter().copied().find(|&i| i != cur.unwrap()).unwrap_or(cur.unwrap())
            } else {
                ids[0]
            };
            return Some(TaskId::from(pick));
        }
        if self.depth == self.stack.len() {
            let cur = current.map(usize::from);
            let cur_ok = cur.map(|c| ids.contains(&c)).unwrap_or(false);
            let choices: Vec<usize> = if cur_ok && !is_yielding {
                let c = cur.unwrap();
                std::iter::once(c).chain(ids.iter().copied().filter(|&i| i != c)).collect()
            } else if cur_ok {
                let c = cur.unwrap();
                ids.iter().copied().filter(|&i| i != c).chain(std::iter::once(c)).collect()
            } else {
                ids.clone()
            };
            let mut idx = 0;
            if self.depth < self.forced.len() {
                idx = self.forced[self.depth];
                if idx >= choices.len() {
                    self.divergence = Some(format!(
                        "replay divergence at decision {}: forced choice index {} but only {} choices",
                        self.depth,
                        idx,
                        choices.len()
                    ));
                    // do not abandon the execution (destructors of the subject would run outside
                    // the runtime and abort the process): finish it with default choices
                    return Some(TaskId::from(choices[0]));
                }
            }
            self.nodes_created += 1;
            self.stack.push(Node {
                choices,
                idx,
                used_before: self.used,
                devs_before: self.devs,
                default_is_current: cur_ok && !is_yielding,
                point,
            });
        }
        let n = &self.stack[self.depth];
        let choice = n.choices[n.idx];
        if !ids.contains(&choice) {
            self.divergence = Some(format!(
                "replay divergence at decision {}: task {} not runnable (runnable {:?})",
                self.depth, choice, ids
            ));
            return Some(TaskId::from(ids[0]));
        }
        if n.idx > 0 {
            self.devs += 1;
            if n.default_is_current {
                self.used += 1;
            }
            let p = n.point;
            self.cur_preempts.push((self.depth, p));
            *self.preempt_points.entry(p).or_insert(0) += 1;
        }
        if let Ok(f) = std::env::var("RDBCHECK_SCHED_TRACE") {
            // development aid: one line per decision of the first execution of a job
            use std::io::Write;
            if self.executions <= 1 {
                if let Ok(mut fh) = std::fs::OpenOptions::new().create(true).append(true).open(f) {
                    let line = format!("p{} d{} runnable {:?} current {:?} yielding {} -> {} ({})\n", std::process::id(), self.depth, ids, current.map(usize::from), is_yielding, choice, n.point);
                    let _ = fh.write_all(line.as_bytes());
                }
            }
        }
        self.depth += 1;
        if self.depth > self.max_depth {
            self.max_depth = self.depth;
        }
        Some(TaskId::from(choice))
    }
}

/// The `Scheduler` handed to shuttle; the core lives outside so exploration survives an
/// execution that ended in a panic (a new `Runner` is created around the same core).
#[derive(Clone, Debug)]
pub struct Sched(pub Arc<Mutex<Core>>);

impl Sched {
    pub fn new(mode: Mode) -> Self {
        Sched(Arc::new(Mutex::new(Core::new(mode))))
    }
    pub fn core(&self) -> std::sync::MutexGuard<'_, Core> {
        match self.0.lock() {
            Ok(g) => g,
            Err(p) => p.into_inner(),
        }
    }
}

impl Scheduler for Sched {
    fn new_execution(&mut self) -> Option<Schedule> {
        if self.core().begin() {
            Some(Schedule::new(0))
        } else {
            None
        }
    }

    fn next_task(&mut self, runnable: &[&Task], current: Option<TaskId>, is_yielding: bool) -> Option<TaskId> {
        self.core().decide(runnable, current, is_yielding)
    }

    fn next_u64(&mut self) -> u64 {
        0
    }
}

/// One-shot scheduler wrapper: lets exactly one execution through per `Runner`, so that the
/// caller regains control (and can classify panics) between executions.
#[derive(Debug)]
pub struct OneShot {
    pub inner: Sched,
    pub fired: bool,
}

impl Scheduler for OneShot {
    fn new_execution(&mut self) -> Option<Schedule> {
        if self.fired {
            return None;
        }
        self.fired = true;
        self.inner.new_execution()
    }
    fn next_task(&mut self, runnable: &[&Task], current: Option<TaskId>, is_yielding: bool) -> Option<TaskId> {
        self.inner.next_task(runnable, current, is_yielding)
    }
    fn next_u64(&mut self) -> u64 {
        0
    }
}
