//! Property checks decided by the schedule explorer (`schedx`): C05 C06 and the schedule parts
//! of C03 C09 C11.

use std::sync::Arc;
use std::time::{Duration, Instant};

use serde_json::json;

use crate::props_seq::workers;
use crate::report::{Finding, Report};
use crate::schedx::{self, Prog, TOp, SYNC_SIZE};
use crate::world::Cfg;

fn kab() -> Vec<Vec<u8>> {
    vec![b"a".to_vec(), b"b".to_vec()]
}

/// memtable budget such that the second small write of a program rotates the memtable
pub fn rot_cfg() -> Cfg {
    Cfg::new(ROT_MEMTABLE, 300, 16, true)
}

pub const ROT_MEMTABLE: usize = 200;

fn prog(name: &str, setup: Vec<TOp>, threads: Vec<Vec<TOp>>) -> Arc<Prog> {
    Arc::new(Prog {
        name: name.to_string(),
        cfg: rot_cfg(),
        keys: kab(),
        setup,
        threads,
        strict_unlink: true,
        fs_switch: false,
        recover_at_removals: false,
        recover_at_meta: false,
        recover_at_all_writes: false,
        fault: None,
        fault_thread: None,
        final_directory: false,
        fault_budget: None,
        fault_skip: 0,
        pre_wal_puts: 0,
        judge_under_fault: false,
        fault_partial: 0,
    })
}

/// the same with a memtable that never rotates
fn prog_big(name: &str, setup: Vec<TOp>, threads: Vec<Vec<TOp>>) -> Arc<Prog> {
    let mut p = (*prog(name, setup, threads)).clone();
    p.cfg = Cfg::new(4 << 20, 300, 16, true);
    Arc::new(p)
}

use TOp::*;

/// A table compaction with several output files (351-byte incompressible values, 300-byte files:
/// an output closes when the entry after its second one is added) while a writer fills the
/// memtable: the compaction thread flushes the rotated memtable between two of its outputs, and
/// that flush's file garbage collection runs in the middle of the compaction (finished outputs
/// are in no version yet).
pub fn multi_output_compaction_program() -> Arc<Prog> {
    let mut p = (*prog(
        "compact-multi-output||put+put+put+put-rotating",
        vec![Put(0, 1, 351), Put(1, 2, 351), Put(2, 3, 351), Put(3, 8, 351), Flush, Put(0, 4, 351), Flush],
        vec![vec![Compact(None, None)], vec![Put(4, 5, 700), Put(5, 6, 700), Put(4, 9, 700), Put(5, 7, 8)]],
    ))
    .clone();
    p.cfg = Cfg::new(2000, 300, 16, true);
    // (the writer uses keys of its own, so the final reads of a..d go to the compaction's outputs)
    p.keys = vec![b"a".to_vec(), b"b".to_vec(), b"c".to_vec(), b"d".to_vec(), b"e".to_vec(), b"f".to_vec()];
    Arc::new(p)
}

/// The sharp programs: one per unlocked window named by the property's anchors.
pub fn c05_sharp() -> Vec<Arc<Prog>> {
    vec![
        // reader vs rotating writer (H4 window: get released the mutex, memtable rotates + flushes)
        prog("get||put-rotating", vec![Put(0, 1, 8)], vec![vec![Get(0)], vec![Put(1, 2, 8)]]),
        prog("get||put-same-key", vec![Put(0, 1, 8)], vec![vec![Get(0), Get(0)], vec![Put(0, 2, 8)]]),
        // group commit: leader + two followers
        prog("put||put||put", vec![], vec![vec![Put(0, 1, 8)], vec![Put(0, 2, 8)], vec![Put(1, 3, 8)]]),
        prog("get||put||put", vec![Put(0, 1, 8)], vec![vec![Get(0)], vec![Put(0, 2, 8)], vec![Put(1, 3, 8)]]),
        // synchronous and plain writers queued behind one leader: the synchronous one is left out
        // of a plain leader's group and has to be woken as the next leader
        prog("put||put-sync||put", vec![], vec![vec![Put(0, 1, 8)], vec![Put(1, 2, SYNC_SIZE)], vec![Put(0, 3, 8)]]),
        // four writers: while the first one writes the log with the mutex released, a plain, a
        // synchronous and another plain writer queue up behind it; the plain one becomes the next
        // leader with the synchronous writer in the middle of its queue
        prog_big("put||put||put-sync||put", vec![], vec![vec![Put(0, 1, 8)], vec![Put(1, 2, 8)], vec![Put(0, 3, SYNC_SIZE)], vec![Put(1, 4, 8)]]),
        prog("put-sync||put||put-sync+get", vec![Put(0, 1, 8)], vec![vec![Put(0, 2, SYNC_SIZE)], vec![Put(1, 3, 8)], vec![Put(1, 4, SYNC_SIZE), Get(0)]]),
        // a follower whose batch is too large to join the group of the small write in front of it
        // (a small leader's group may grow by 128 KiB only): it has to be left for the next round
        prog_big("put||put||put-140k", vec![Put(0, 1, 8)], vec![vec![Put(0, 2, 8)], vec![Put(1, 3, 8)], vec![Put(0, 4, 140_000), Get(1)]]),
        // writers vs manual compaction
        prog("put||put||compact", vec![Put(0, 1, 8)], vec![vec![Put(0, 2, 8)], vec![Put(1, 3, 8)], vec![Compact(None, None)]]),
        // reader vs delete + flush
        prog("get||del+flush", vec![Put(0, 1, 8)], vec![vec![Get(0)], vec![Del(0), Flush]]),
        // two readers vs writer
        prog("get||get||put+put", vec![Put(0, 1, 8)], vec![vec![Get(0)], vec![Get(1)], vec![Put(1, 2, 8), Put(0, 3, 8)]]),
        // batch vs reader
        prog("get+get||batch", vec![Put(0, 1, 8)], vec![vec![Get(0), Get(1)], vec![Batch(vec![(0, Some(2)), (1, Some(3))])]]),
        // two operations per writer: monotonic reads
        prog("get+get||put+put", vec![], vec![vec![Get(0), Get(0)], vec![Put(0, 1, 8), Put(0, 2, 8)]]),
        // delete vs put on one key
        prog("put||del||get", vec![Put(0, 1, 8)], vec![vec![Put(0, 2, 8)], vec![Del(0)], vec![Get(0)]]),
        // iterator creation vs rotating writer
        prog("iterscan||put+put", vec![Put(0, 1, 8)], vec![vec![IterScan], vec![Put(1, 2, 8), Put(0, 3, 8)]]),
        // reader of a later key while an earlier key is being linked into the memtable skip list
        // (scheduling points of the verification copy of the skip-list crate: memtable.link)
        prog_big("get-b||put-a", vec![Put(1, 1, 8)], vec![vec![Get(1)], vec![Put(0, 2, 8)]]),
        prog_big("iterseek-b||put-a", vec![Put(1, 1, 8)], vec![vec![IterSeek(1)], vec![Put(0, 2, 8)]]),
        prog_big("iterseek-b+iterseek-a||put-a+put-b", vec![Put(0, 1, 8), Put(1, 2, 8)], vec![vec![IterSeek(1), IterSeek(0)], vec![Put(0, 3, 8), Put(1, 4, 8)]]),
        prog_big("iterscan||put-a", vec![Put(1, 1, 8)], vec![vec![IterScan], vec![Put(0, 2, 8)]]),
        prog_big("get-b+get-b||put-a+put-a", vec![Put(0, 1, 8), Put(1, 2, 8)], vec![vec![Get(1), Get(1)], vec![Put(0, 3, 8), Put(0, 4, 8)]]),
        // snapshot read vs writer + flush
        prog("snapread||put+flush", vec![Put(0, 1, 8)], vec![vec![SnapRead(vec![0, 1])], vec![Put(0, 2, 8), Flush]]),
        multi_output_compaction_program(),
    ]
}

/// The generated family: 2 threads x 1..2 operations over {put, delete, get, batch} on keys a,b
/// after 0..1 pre-committed writes (symmetry-reduced).
pub fn c05_generated() -> Vec<Arc<Prog>> {
    let mut out = vec![];
    let writes = vec![Put(0, 0, 8), Del(0), Put(1, 0, 8), Batch(vec![(0, Some(0)), (1, Some(0))])];
    let reads = vec![Get(0), Get(1)];
    let mut vid = 10u16;
    let mut fresh = |op: &TOp| -> TOp {
        vid += 1;
        match op {
            Put(k, _, s) => Put(*k, vid, *s),
            Batch(items) => Batch(items.iter().map(|(k, v)| (*k, v.map(|_| { vid += 1; vid }))).collect()),
            o => o.clone(),
        }
    };
    for pre in 0..2 {
        let setup = if pre == 1 { vec![Put(0, 1, 8)] } else { vec![] };
        // writer thread with 1..2 writes vs reader thread with 1..2 reads
        for w1 in writes.iter() {
            for r1 in reads.iter() {
                out.push(prog(&format!("gen{}", out.len()), setup.clone(), vec![vec![fresh(w1)], vec![r1.clone()]]));
                for r2 in reads.iter() {
                    out.push(prog(&format!("gen{}", out.len()), setup.clone(), vec![vec![fresh(w1)], vec![r1.clone(), r2.clone()]]));
                }
                for w2 in writes.iter() {
                    out.push(prog(&format!("gen{}", out.len()), setup.clone(), vec![vec![fresh(w1), fresh(w2)], vec![r1.clone()]]));
                }
            }
        }
        // writer vs writer (+ final read by the main thread)
        for (i, w1) in writes.iter().enumerate() {
            for w2 in writes.iter().skip(i) {
                out.push(prog(&format!("gen{}", out.len()), setup.clone(), vec![vec![fresh(w1)], vec![fresh(w2)]]));
            }
        }
    }
    out
}

pub fn c06_programs() -> Vec<Arc<Prog>> {
    let kabc = vec![b"a".to_vec(), b"b".to_vec(), b"c".to_vec()];
    let p3 = |name: &str, setup: Vec<TOp>, threads: Vec<Vec<TOp>>, cfg: Cfg| {
        Arc::new(Prog {
            name: name.to_string(),
            cfg,
            keys: kabc.clone(),
            setup,
            threads,
            strict_unlink: true,
            fs_switch: false,
            recover_at_removals: false,
            recover_at_meta: false,
            recover_at_all_writes: false,
            fault: None,
            fault_thread: None,
            final_directory: false,
            fault_budget: None,
            fault_skip: 0,
            pre_wal_puts: 0,
            judge_under_fault: false,
            fault_partial: 0,
        })
    };
    let pre = vec![Batch(vec![(0, Some(1)), (1, Some(2))])];
    let big = Cfg::new(4 << 20, 300, 16, true);
    vec![
        p3("batch2||snapread", pre.clone(), vec![vec![Batch(vec![(0, Some(3)), (1, Some(4))])], vec![SnapRead(vec![0, 1])]], big),
        p3("batch2||iterscan", pre.clone(), vec![vec![Batch(vec![(0, Some(3)), (1, Some(4))])], vec![IterScan]], big),
        p3("batch3||snapread", pre.clone(), vec![vec![Batch(vec![(0, Some(3)), (1, Some(4)), (2, Some(5))])], vec![SnapRead(vec![0, 1, 2])]], big),
        // batch that triggers a rotation (memtable budget exceeded by the pre-state)
        p3("batch2-rotating||snapread", pre.clone(), vec![vec![Batch(vec![(0, Some(3)), (1, Some(4))])], vec![SnapRead(vec![0, 1])]], rot_cfg()),
        p3("batch2-rotating||iterscan", pre.clone(), vec![vec![Batch(vec![(0, Some(3)), (1, Some(4))])], vec![IterScan]], rot_cfg()),
        // two writers whose batches may merge into one group commit
        p3(
            "batch2||batch2||snapread",
            pre.clone(),
            vec![vec![Batch(vec![(0, Some(3)), (1, Some(4))])], vec![Batch(vec![(2, Some(5)), (0, Some(6))])], vec![SnapRead(vec![0, 1, 2])]],
            big,
        ),
        // delete + put in one batch
        p3("batch-del-put||snapread", pre.clone(), vec![vec![Batch(vec![(0, None), (2, Some(7))])], vec![SnapRead(vec![0, 2])]], big),
        // one key twice in a batch: only the batch's last word on the key may ever be seen
        p3("batch-put-del-same-key||get+get", pre.clone(), vec![vec![Batch(vec![(0, Some(3)), (1, Some(4)), (0, None)])], vec![Get(0), Get(1)]], big),
        p3("batch-del-put-same-key||snapread", pre.clone(), vec![vec![Batch(vec![(0, None), (1, Some(4)), (0, Some(5))])], vec![SnapRead(vec![0, 1])]], big),
        // deletes inside the batch, observed by an iterator that scans forwards and backwards
        p3("batch-del-put||iterscan", pre.clone(), vec![vec![Batch(vec![(0, None), (2, Some(7))])], vec![IterScan]], big),
        p3(
            "batch-put-del-put||iterscan",
            vec![Batch(vec![(0, Some(1)), (1, Some(2)), (2, Some(8))])],
            vec![vec![Batch(vec![(0, Some(3)), (1, None), (2, Some(5))])], vec![IterScan]],
            big,
        ),
        // plain gets are single-key observations, but the pair must still be linearizable with the
        // batch as one atomic write (first key new, then second key old = not explainable)
        p3("batch2||get+get", pre.clone(), vec![vec![Batch(vec![(0, Some(3)), (1, Some(4))])], vec![Get(0), Get(1)]], big),
        // the same through fresh iterators positioned with seek(key)
        p3("batch2||iterseek+iterseek", pre.clone(), vec![vec![Batch(vec![(0, Some(3)), (1, Some(4))])], vec![IterSeek(0), IterSeek(1)]], big),
        p3("batch3||get+get+get", pre.clone(), vec![vec![Batch(vec![(0, Some(3)), (1, Some(4)), (2, Some(5))])], vec![Get(2), Get(1), Get(0)]], big),
        p3("batch2-rotating||get+get", pre.clone(), vec![vec![Batch(vec![(0, Some(3)), (1, Some(4))])], vec![Get(1), Get(0)]], rot_cfg()),
        // two observations by one reader
        p3("batch2||snapread+iterscan", pre, vec![vec![Batch(vec![(0, Some(3)), (1, Some(4))])], vec![SnapRead(vec![0, 1]), IterScan]], big),
    ]
}

pub fn run_sched(
    rep: &mut Report,
    label: &str,
    progs: &[Arc<Prog>],
    bound: (usize, usize),
    parts: usize,
    atomic_batches: bool,
    named_level: u64,
    budget: Duration,
    own_clause: fn(&str) -> bool,
) {
    // budgets of 300 s and more are thorough-tier budgets: nominal, scaled globally
    let budget = match std::env::var("RDBCHECK_BUDGET_S").ok().and_then(|s| s.parse::<u64>().ok()) {
        Some(s) => Duration::from_secs(s),
        None if budget >= Duration::from_secs(300) => crate::report::scaled(budget),
        None => budget,
    };
    if let Some(req) = crate::report::replay_request("schedx") {
        let want = req["artefact"]["program"]["program"].as_str().unwrap_or("").to_string();
        if let Some(p) = progs.iter().find(|p| p.name == want) {
            let len = req["artefact"]["schedule_len"].as_u64().unwrap_or(0) as usize;
            let mut choices = vec![0usize; len];
            if let Some(devs) = req["artefact"]["deviations"].as_array() {
                for d in devs {
                    let i = d[0].as_u64().unwrap_or(0) as usize;
                    if i < len {
                        choices[i] = d[1].as_u64().unwrap_or(0) as usize;
                    }
                }
            }
            parking_lot::verif_rt::set_named_level(req["artefact"]["named_level"].as_u64().unwrap_or(named_level));
            let r = schedx::replay_isolated(p, &choices, req["artefact"]["atomic_batches"].as_bool().unwrap_or(atomic_batches));
            crate::report::replay_done(r);
        }
        return;
    }
    if crate::report::replay_active() {
        return;
    }
    let deadline = Instant::now() + budget;
    let bound = match std::env::var("RDBCHECK_BOUND").ok().and_then(|s| {
        let mut it = s.split(',').map(|x| x.parse::<usize>().ok());
        Some((it.next()??, it.next()??))
    }) {
        Some(b) => b,
        None => bound,
    };
    let only = std::env::var("RDBCHECK_ONLY").ok();
    let progs: Vec<Arc<Prog>> = progs
        .iter()
        .filter(|p| only.as_ref().map(|o| p.name.contains(o.as_str())).unwrap_or(true))
        .cloned()
        .collect();
    if progs.is_empty() {
        return;
    }
    let r = schedx::explore(&progs, bound, parts, workers(), atomic_batches, named_level, Some(deadline));
    for m in r.machinery.iter() {
        rep.machinery.push(format!("{}: {}", label, m));
    }
    // validate per clause the two findings with the fewest deviations: replay twice
    let mut per_clause: std::collections::BTreeMap<String, Vec<&schedx::SFound>> = Default::default();
    for f in r.found.iter() {
        per_clause.entry(format!("{}|{}", f.prog, f.clause)).or_default().push(f);
    }
    let mut validated = 0u64;
    for (_, fs) in per_clause.iter_mut() {
        fs.sort_by_key(|f| f.preempts.len());
        for f in fs.iter().take(1) {
            let p = progs.iter().find(|p| p.name == f.prog).unwrap();
            let a = schedx::replay_isolated(p, &f.choices, atomic_batches);
            let b = schedx::replay_isolated(p, &f.choices, atomic_batches);
            let ok = matches!((&a, &b), (Some((ca, _)), Some((cb, _))) if *ca == f.clause && *cb == f.clause);
            if ok {
                validated += 1;
                rep.validated_findings += 1;
            } else {
                rep.machinery.push(format!(
                    "{}: finding {} {} did not reproduce identically on replay: {:?} / {:?}",
                    label, f.prog, f.clause, a, b
                ));
            }
        }
    }
    let mut observations: std::collections::BTreeMap<String, u64> = Default::default();
    for f in r.found.iter() {
        if own_clause(&f.clause) || crate::report::is_fatal_clause(&f.clause) {
            if rep.findings.len() < 500 {
                let p = progs.iter().find(|p| p.name == f.prog).unwrap();
                let deviations: Vec<(usize, usize)> = f.choices.iter().enumerate().filter(|(_, &c)| c != 0).map(|(i, &c)| (i, c)).collect();
                rep.findings.push(Finding {
                    clause: f.clause.clone(),
                    detail: f.detail.clone(),
                    ops: std::iter::once(format!("program {}", f.prog)).chain(f.preempts.iter().map(|p| format!("preempt {}", p))).collect(),
                    artefact: json!({
                        "explorer": "schedx",
                        "program": p.describe(),
                        "atomic_batches": atomic_batches,
                        "named_level": named_level,
                        "schedule_len": f.choices.len(),
                        "deviations": deviations,
                        "history": f.history,
                    }),
                });
            } else {
                rep.extra_violations += 1;
            }
        } else {
            *observations.entry(f.clause.clone()).or_default() += 1;
        }
    }
    rep.cov_add("states", r.nodes);
    rep.cov_add("transitions", r.steps);
    rep.cov_add("traces_validated_against_impl", r.executions);
    let prev = rep.coverage.get("exhaustive").and_then(|v| v.as_bool()).unwrap_or(true);
    rep.cov("exhaustive", json!(prev && !r.capped));
    rep.cov_push(
        "schedule_exploration",
        json!({
            "label": label,
            "preemption_bound": bound.0,
            "deviation_bound": bound.1,
            "programs": r.per_prog.len(),
            "schedules_explored": r.executions,
            "scheduler_decision_nodes": r.nodes,
            "scheduling_steps": r.steps,
            "max_decisions_in_one_execution": r.max_depth,
            "distinct_observed_histories": r.distinct_outcomes,
            "completed": !r.capped,
            "findings": r.found.len(),
            "findings_revalidated_by_replay": validated,
            "preemptions_taken_at": r.preempt_points,
            "named_points_level": named_level,
            "wall_s": (r.wall_s * 10.0).round() / 10.0,
        }),
    );
    for p in r.per_prog.iter().take(200) {
        rep.cov_push("thread_programs", p.clone());
    }
    for p in r.per_prog.iter().take(3) {
        rep.cov_push("samples", p.clone());
    }
    if !observations.is_empty() {
        rep.cov("observations_belonging_to_other_properties", json!(observations));
    }
}

const SCHED_ASSUMPTIONS: &[&str] = &[
    "interleavings at synchronisation operations (every shim lock/unlock/after-unlock/wait/notify, channel, spawn/join) and at the named verif points, under sequential consistency; weak-memory reorderings of ArcSwap/atomics/skip list are out of reach",
    "all schedules with at most the stated number of preemptions and at most the stated total number of deviations from the default schedule (default: keep running the current task, otherwise the lowest-id runnable task; a deviation is a preemption or another pick at a blocking point); executions always run to completion",
    "bounds: thread programs as listed, 2 keys, memtable budget chosen so rotation + flush happen inside the run",
];

pub fn c05(tier: &str) -> ! {
    let mut rep = Report::new("C05", tier, "model_checking");
    let t = tier == "thorough";
    // (a read that fails because its table file is gone is a lost read)
    let own = |c: &str| c.starts_with("C05.") || c == "C11.live_deleted";
    if t {
        run_sched(&mut rep, "sharp/p2d4", &c05_sharp(), (2, 4), 16, false, 2, Duration::from_secs(2400), own);
        run_sched(&mut rep, "generated/p2d3", &c05_generated(), (2, 3), 2, false, 2, Duration::from_secs(1500), own);
        // one bound deeper, as far as the budget goes (reported as capped if it does not finish)
        run_sched(&mut rep, "sharp/p3d5", &c05_sharp(), (3, 5), 16, false, 2, Duration::from_secs(1500), own);
    } else {
        run_sched(&mut rep, "sharp/p1d4", &c05_sharp(), (1, 4), 4, false, 1, Duration::from_secs(30), own);
        run_sched(&mut rep, "generated/p1d4", &c05_generated(), (1, 4), 1, false, 1, Duration::from_secs(25), own);
    }
    // "its caller receives its own outcome": grouped / queued writers while a filesystem call fails
    let own_f = |c: &str| c.starts_with("C05.") || c.starts_with("C08.concurrent");
    if t {
        run_sched(&mut rep, "outcomes-under-fault/p2d4", &c08_concurrent_programs(), (2, 4), 16, false, 2, Duration::from_secs(900), own_f);
    } else {
        // (without the half-written-record variants: they are C08's, which runs the whole list)
        let progs: Vec<Arc<Prog>> = c08_concurrent_programs().into_iter().filter(|p| !p.name.contains("half-written") && !p.name.contains("rotating-T2")).collect();
        run_sched(&mut rep, "outcomes-under-fault/p1d3", &progs, (1, 3), 4, false, 1, Duration::from_secs(10), own_f);
    }
    for a in SCHED_ASSUMPTIONS {
        rep.assume(a);
    }
    rep.cov("oracle", json!("brute-force linearizability of the recorded call/return history (incl. a final read of all keys) against a map model; every call returns Ok; no panic, deadlock or livelock. Under an injected fault (once / sticky by file kind): linearizable with failed calls optional — every caller got its own outcome: a write that returned Ok is visible afterwards and still there after a reopen without the fault"));
    rep.finish()
}

pub fn c06(tier: &str) -> ! {
    let mut rep = Report::new("C06", tier, "model_checking");
    let t = tier == "thorough";
    let own = |c: &str| c.starts_with("C06.") || c.starts_with("C05.");
    if t {
        run_sched(&mut rep, "batches/p3d5", &c06_programs(), (3, 5), 16, true, 2, Duration::from_secs(2400), own);
    } else {
        run_sched(&mut rep, "batches/p2d4", &c06_programs(), (2, 4), 8, true, 1, Duration::from_secs(42), own);
    }
    // a pinned reader behind a long run of newer versions of one of a batch's keys (sequence
    // explorer; the snapshot oracle is C03's, its clauses count as this check's own here)
    {
        use crate::props_seq::{hot_batch_family, run_families};
        let fams = vec![hot_batch_family("C06-hot-batch/M2b", "M2b", if t { 4 } else { 2 }), hot_batch_family("C06-hot-batch/T300", "T300", if t { 4 } else { 2 })];
        run_families(&mut rep, fams, if t { crate::report::scaled(Duration::from_secs(600)) } else { Duration::from_secs(8) }, |c| c.starts_with("C03.") || c.starts_with("C01.") || c == "iter.err");
    }
    // across a crash: what a reader sees after the recovery - and after later writes have moved
    // the sequence number on - is a state the history went through, never part of a batch
    {
        use crate::crashx::{CrashMode, CrashSpec};
        use crate::props_crash::{covering_histories, generated_histories, run_crash, shrink_history};
        let spec = CrashSpec {
            mode: CrashMode::Prefixes,
            nested: false,
            check_directory: false,
            prefix: "C06",
            cross_cfg: false,
            atomicity_only: true,
        };
        let own6 = |c: &str| c.starts_with("C06.");
        let hs: Vec<_> = covering_histories(&["M2", "M2n", "T300"]).into_iter().chain(shrink_history()).collect();
        if t {
            run_crash(&mut rep, "batch-atomicity-across-recovery/covering", hs, spec.clone(), crate::report::scaled(Duration::from_secs(600)), own6);
            run_crash(&mut rep, "batch-atomicity-across-recovery/generated<=4", generated_histories(&["M2", "M2n"], 4), spec, crate::report::scaled(Duration::from_secs(900)), own6);
        } else {
            run_crash(&mut rep, "batch-atomicity-across-recovery/covering", hs, spec.clone(), Duration::from_secs(8), own6);
            run_crash(&mut rep, "batch-atomicity-across-recovery/generated<=2", generated_histories(&["M2", "M2n"], 2), spec, Duration::from_secs(6), own6);
        }
    }
    for a in SCHED_ASSUMPTIONS {
        rep.assume(a);
    }
    rep.cov("oracle", json!("every snapshot read / iterator scan returns all or none of each batch's effects (judged directly when no other writer touches the batch's keys, and through linearizability with batches as atomic multi-key writes otherwise); sequence part: from a state with a three-key batch, a live snapshot and 130 newer versions of the batch's middle key, every sequence over {130 more versions, another batch, delete, flush, compact, snapshot}: gets and forward/backward scans through every live snapshot equal the state frozen at its creation (the whole batch, never part of it); crash part: at every crash image (prefix of the filesystem-operation log) of the covering and generated histories the recovered contents of the history's keys equal the model after some prefix of the history's operations - never part of a batch - right after the recovery, after each of three later writes to other keys, and after a clean reopen; a snapshot taken right after the recovery keeps its state"));
    rep.finish()
}

// ------------------------------------------------------------------------------------------------
// C03 / C11 schedule part: a reader holding a snapshot / iterator while writer + flush +
// compaction + obsolete-file deletion run to completion (strict unlink: any use of a removed
// file fails)
// ------------------------------------------------------------------------------------------------

pub fn c03_programs() -> Vec<Arc<Prog>> {
    let cfg = Cfg::new(4 << 20, 300, 1, true);
    let p = |name: &str, setup: Vec<TOp>, threads: Vec<Vec<TOp>>, fs_switch: bool| {
        Arc::new(Prog {
            name: name.to_string(),
            cfg,
            keys: kab(),
            setup,
            threads,
            strict_unlink: true,
            fs_switch,
            recover_at_removals: false,
            recover_at_meta: false,
            recover_at_all_writes: false,
            fault: None,
            fault_thread: None,
            final_directory: false,
            fault_budget: None,
            fault_skip: 0,
            pre_wal_puts: 0,
            judge_under_fault: false,
            fault_partial: 0,
        })
    };
    let pre = vec![Put(0, 1, 8), Flush, Put(1, 2, 8), Flush];
    vec![
        p("snapread||overwrite+compact", pre.clone(), vec![vec![SnapRead(vec![0, 1])], vec![Put(0, 3, 8), Compact(None, None)]], true),
        p("snapread||delete+compact", pre.clone(), vec![vec![SnapRead(vec![0, 1])], vec![Del(0), Compact(None, None)]], true),
        p("iterscan||overwrite+compact", pre.clone(), vec![vec![IterScan], vec![Put(0, 3, 8), Compact(None, None)]], true),
        p("iterscan||delete+compact", pre.clone(), vec![vec![IterScan], vec![Del(1), Compact(None, None)]], true),
        p("get+get||overwrite+compact", pre.clone(), vec![vec![Get(0), Get(1)], vec![Put(1, 3, 8), Compact(None, None)]], true),
        p("snapread+iterscan||put+flush+compact", pre, vec![vec![SnapRead(vec![0, 1]), IterScan], vec![Put(0, 3, 8), Flush, Compact(None, None)]], false),
    ]
    .into_iter()
    .chain(levels_programs())
    .chain(std::iter::once(multi_output_compaction_program()))
    .collect()
}

/// A snapshot taken while a write is in flight must not change its answers when the write lands:
/// two preemptions (writer parked inside its unlocked section, reader parked between its two
/// reads through the snapshot) on tiny programs.
pub fn c03_stability_programs() -> Vec<Arc<Prog>> {
    vec![
        prog_big("snapread||put", vec![Put(0, 1, 8)], vec![vec![SnapRead(vec![0, 1])], vec![Put(0, 2, 8)]]),
        prog_big("snapread||batch", vec![Put(0, 1, 8)], vec![vec![SnapRead(vec![0, 1])], vec![Batch(vec![(0, Some(2)), (1, Some(2))])]]),
        prog_big("snapread||del", vec![Put(0, 1, 8)], vec![vec![SnapRead(vec![0])], vec![Del(0)]]),
        prog("snapread||put-rotating", vec![Put(0, 1, 8)], vec![vec![SnapRead(vec![0, 1])], vec![Put(1, 2, 8), Put(0, 3, 8)]]),
    ]
}

/// Readers against a cascade of size-triggered compactions and trivial moves through all levels
/// (levels 1..=5 limited to 250 bytes by the hook; the setup leaves files down to the last level).
pub fn levels_programs() -> Vec<Arc<Prog>> {
    let cfg = Cfg::new(4 << 20, 300, 1, true).with_level_limit(250);
    let p = |name: &str, threads: Vec<Vec<TOp>>| {
        Arc::new(Prog {
            name: name.to_string(),
            cfg,
            keys: kab(),
            setup: vec![
                Put(0, 1, 60), Flush, Put(1, 2, 60), Flush, Put(0, 3, 60), Flush, Put(1, 4, 60), Flush, Put(0, 5, 60), Flush, Put(1, 6, 60), Flush,
                Put(0, 7, 60), Flush, Del(1), Flush,
            ],
            threads,
            strict_unlink: true,
            fs_switch: false,
            recover_at_removals: false,
            recover_at_meta: false,
            recover_at_all_writes: false,
            fault: None,
            fault_thread: None,
            final_directory: true,
            fault_budget: None,
            fault_skip: 0,
            pre_wal_puts: 0,
            judge_under_fault: false,
            fault_partial: 0,
        })
    };
    vec![
        p("levels: snapread+iterscan||put+flush", vec![vec![SnapRead(vec![0, 1]), IterScan], vec![Put(1, 8, 60), Flush]]),
        p("levels: get+get||put+flush+del+flush", vec![vec![Get(0), Get(1)], vec![Put(1, 8, 60), Flush, Del(0), Flush]]),
    ]
}

/// Two manual compactions whose rounds are real work (one key on levels 2, 1 and 0): one caller's
/// request is registered and being worked on while the other caller finishes. Too many schedules
/// for the quick tier; explored at the thorough bound only (the schedule that a withdrawn request
/// needs has 4 deviations, 2 of them preemptions).
pub fn c09_manual_compaction_programs() -> Vec<Arc<Prog>> {
    let setup = vec![Put(0, 1, 8), Flush, Put(0, 2, 8), Flush, Put(0, 3, 8), Flush, Put(1, 4, 8)];
    vec![
        prog("compact||compact over three levels", setup.clone(), vec![vec![Compact(None, None)], vec![Compact(None, None)]]),
        prog("compact||compact||w over three levels", setup, vec![vec![Compact(None, None)], vec![Compact(Some(0), Some(0))], vec![Put(1, 5, 8)]]),
    ]
    .into_iter()
    .map(|p| {
        let mut q = (*p).clone();
        q.strict_unlink = false;
        Arc::new(q)
    })
    .collect()
}

pub fn c09_programs() -> Vec<Arc<Prog>> {
    let m2 = Cfg::new(ROT_MEMTABLE, 300, 16, true);
    let p = |name: &str, setup: Vec<TOp>, threads: Vec<Vec<TOp>>| {
        Arc::new(Prog {
            name: name.to_string(),
            cfg: m2,
            keys: kab(),
            setup,
            threads,
            strict_unlink: false,
            fs_switch: false,
            recover_at_removals: false,
            recover_at_meta: false,
            recover_at_all_writes: false,
            fault: None,
            fault_thread: None,
            final_directory: false,
            fault_budget: None,
            fault_skip: 0,
            pre_wal_puts: 0,
            judge_under_fault: false,
            fault_partial: 0,
        })
    };
    vec![
        p("w||w||compact", vec![Put(0, 1, 8)], vec![vec![Put(0, 2, 8), Put(1, 3, 8)], vec![Put(1, 4, 8), Put(0, 5, 8)], vec![Compact(None, None)]]),
        p("w||w-sync||w", vec![], vec![vec![Put(0, 1, 8)], vec![Put(1, 2, SYNC_SIZE)], vec![Put(0, 3, 8)]]),
        p("w3||w3", vec![], vec![vec![Put(0, 1, 8), Put(0, 2, 8), Put(0, 3, 8)], vec![Put(1, 4, 8), Put(1, 5, 8), Put(1, 6, 8)]]),
        p("flush||flush||w", vec![Put(0, 1, 8)], vec![vec![Flush], vec![Flush], vec![Put(1, 2, 8)]]),
        p("compact||compact", vec![Put(0, 1, 8), Flush, Put(1, 2, 8)], vec![vec![Compact(None, None)], vec![Compact(Some(0), Some(1))]]),
        p("reader||w+flush", vec![Put(0, 1, 8)], vec![vec![Get(0), IterScan], vec![Put(0, 2, 8), Flush]]),
        // an automatic (size-triggered) level-0 compaction racing with a manual compact_range:
        // the setup leaves one file in L2, one in L1, three in L0 and a full memtable; the put
        // rotates it, the flush makes the fourth L0 file and triggers the automatic compaction
        p(
            "auto-compaction||compact",
            vec![Put(0, 1, 8), Flush, Put(0, 2, 8), Flush, Put(0, 3, 8), Flush, Put(0, 4, 8), Flush, Put(0, 5, 8), Flush, Put(0, 6, 8)],
            vec![vec![Put(1, 7, 8)], vec![Compact(None, None)]],
        ),
        p(
            "auto-compaction||compact||get",
            vec![Put(0, 1, 8), Flush, Put(0, 2, 8), Flush, Put(0, 3, 8), Flush, Put(0, 4, 8), Flush, Put(0, 5, 8), Flush, Put(0, 6, 8)],
            vec![vec![Put(1, 7, 8)], vec![Compact(Some(0), Some(1))], vec![Get(0)]],
        ),
    ]
}

/// Small programs that are explored with two preemptions also in the quick tier: a reader that
/// creates an iterator (it holds the database mutex while it attaches to the memtable) against a
/// writer that is already in its unlocked section, about to insert into that memtable. The
/// memtable's reader-writer lock follows parking_lot's policy in the shim (an announced writer
/// blocks new readers), so a shared acquisition that is repeated on one thread - a scheduling
/// point of its own, `rw.read.recursive` - deadlocks when the writer announces itself in between.
pub fn c09_sharp_programs() -> Vec<Arc<Prog>> {
    let all = c09_programs();
    let template = &all[0];
    let p = |name: &str, setup: Vec<TOp>, threads: Vec<Vec<TOp>>| {
        Arc::new(Prog {
            name: name.to_string(),
            setup,
            threads,
            ..(**template).clone()
        })
    };
    // a memtable flushed in the middle of a table compaction whose inputs leave a key gap: level 1
    // holds [a] and [e] (above older [a] and [e] on level 2), the manual compaction merges them
    // into level 2; the writer's key c lies in the gap, overlaps nothing in the current version and
    // so may be placed on level 2 - where the compaction's output [a..e] is about to land
    let mut gap = (**template).clone();
    gap.name = "compact-over-a-key-gap||put-into-the-gap-rotating".to_string();
    gap.cfg = Cfg::new(2000, 300, 16, true);
    gap.keys = vec![b"a".to_vec(), b"b".to_vec(), b"c".to_vec(), b"d".to_vec(), b"e".to_vec(), b"f".to_vec()];
    gap.setup = vec![Put(0, 1, 8), Flush, Put(0, 2, 8), Flush, Put(4, 3, 8), Flush, Put(4, 4, 8), Flush];
    gap.threads = vec![vec![Compact(None, None)], vec![Put(2, 5, 1500), Put(2, 6, 700), Put(2, 7, 8)]];
    gap.fs_switch = true;
    let _ = gap;
    vec![
        p("iterscan||w", vec![Put(0, 1, 8)], vec![vec![IterScan], vec![Put(1, 2, 8)]]),
        p("get+iterscan||batch", vec![Put(0, 1, 8)], vec![vec![Get(1), IterScan], vec![Batch(vec![(0, Some(2)), (1, Some(3))])]]),
    ]
}

/// A memtable flushed in the middle of a table compaction whose inputs leave a key gap (explored on
/// its own: every filesystem call of the compaction is a scheduling point).
pub fn c09_gap_programs() -> Vec<Arc<Prog>> {
    let all = c09_programs();
    let mut gap = (*all[0]).clone();
    gap.name = "compact-over-a-key-gap||put-into-the-gap-rotating".to_string();
    gap.cfg = Cfg::new(2000, 300, 16, true);
    gap.keys = vec![b"a".to_vec(), b"b".to_vec(), b"c".to_vec(), b"d".to_vec(), b"e".to_vec(), b"f".to_vec()];
    gap.setup = vec![Put(0, 1, 8), Flush, Put(0, 2, 8), Flush, Put(4, 3, 8), Flush, Put(4, 4, 8), Flush];
    gap.threads = vec![vec![Compact(None, None)], vec![Put(2, 5, 1500), Put(2, 6, 700), Put(2, 7, 8)]];
    gap.fs_switch = true;
    vec![Arc::new(gap)]
}

pub fn sched_assumptions(rep: &mut Report) {
    for a in SCHED_ASSUMPTIONS {
        rep.assume(a);
    }
}

/// C11 schedule part (b): a single writer whose puts rotate the memtable while another thread
/// runs table compactions; at every file removal a crash image is recovered and must contain
/// the writes acknowledged by then.
pub fn c11_removal_programs() -> Vec<Arc<Prog>> {
    let p = |name: &str, setup: Vec<TOp>, threads: Vec<Vec<TOp>>| {
        Arc::new(Prog {
            name: name.to_string(),
            cfg: rot_cfg(),
            keys: kab(),
            setup,
            threads,
            strict_unlink: true,
            fs_switch: false,
            recover_at_removals: true,
            recover_at_meta: false,
            recover_at_all_writes: false,
            fault: None,
            fault_thread: None,
            final_directory: false,
            fault_budget: None,
            fault_skip: 0,
            pre_wal_puts: 0,
            judge_under_fault: false,
            fault_partial: 0,
        })
    };
    let l0 = vec![Put(0, 1, 8), Flush, Put(0, 2, 8), Flush, Put(0, 3, 8), Flush, Put(0, 4, 8)];
    vec![
        p("writer-rotating||compact", l0.clone(), vec![vec![Put(1, 5, 8), Put(0, 6, 8), Put(1, 7, 8)], vec![Compact(None, None)]]),
        p("writer-rotating||compact-range", l0.clone(), vec![vec![Put(1, 5, 8), Del(0), Put(1, 7, 8)], vec![Compact(Some(0), Some(0))]]),
        p(
            "writer-rotating||auto-compaction",
            vec![Put(0, 1, 8), Flush, Put(0, 2, 8), Flush, Put(0, 3, 8), Flush, Put(0, 4, 8), Flush, Put(0, 5, 8), Flush, Put(0, 6, 8)],
            vec![vec![Put(1, 7, 8), Put(0, 8, 8), Put(1, 9, 8)], vec![Get(0)]],
        ),
    ]
}

/// Closing while background work runs: level 0 holds four overlapping tables with both keys, the
/// writer's rotation adds a flush, an automatic compaction merges several entries — and the main
/// thread closes the database as soon as the writer and the reader have returned, wherever the
/// compaction thread is at that moment (Drop raises the shutdown flag and waits for it). After the
/// reopen every acknowledged write must be there.
pub fn close_during_compaction_programs() -> Vec<Arc<Prog>> {
    // (the threads write key c only: the newest versions of a and b live in the tables that the
    // compaction merges, so an entry the merge did not reach is visibly missing after the reopen)
    let setup = vec![
        Put(0, 1, 8), Put(1, 11, 8), Flush, Put(0, 2, 8), Put(1, 12, 8), Flush, Put(0, 3, 8), Put(1, 13, 8), Flush, Put(0, 4, 8), Put(1, 14, 8), Flush, Put(0, 5, 8), Put(1, 15, 8),
        Flush, Put(0, 6, 8),
    ];
    let keys = vec![b"a".to_vec(), b"b".to_vec(), b"c".to_vec()];
    let mut a = (*prog("close during auto-compaction: writer-rotating||get", setup.clone(), vec![vec![Put(2, 7, 8), Put(2, 8, 8), Put(2, 9, 8)], vec![Get(1)]])).clone();
    a.judge_under_fault = true;
    a.strict_unlink = false;
    a.keys = keys.clone();
    // (a memtable that holds two small writes: only the explicit flushes of the setup make tables,
    // the third write of the writer rotates)
    a.cfg = Cfg::new(crate::world::M2_MEMTABLE, 300, 16, true);
    let mut b = (*prog("close during manual compaction: compact||put", setup, vec![vec![Compact(None, None)], vec![Put(2, 7, 8)]])).clone();
    b.judge_under_fault = true;
    b.strict_unlink = false;
    b.keys = keys;
    b.cfg = Cfg::new(crate::world::M2_MEMTABLE, 300, 16, true);
    vec![Arc::new(a), Arc::new(b)]
}

/// C11 "nothing dead is kept", schedule x fault: one reader whose table reads fail runs against a
/// writer / flush / compaction that installs new versions meanwhile; only the reader's filesystem
/// calls fail, so the background work stays healthy. After the threads have joined the fault is
/// disarmed, everything is compacted and the directory must hold exactly the needed files.
pub fn c11_fault_programs() -> Vec<Arc<Prog>> {
    use crate::vfs::class;
    let p = |name: &str, cfg: Cfg, setup: Vec<TOp>, threads: Vec<Vec<TOp>>, fault: (u32, &'static str)| {
        Arc::new(Prog {
            name: name.to_string(),
            cfg,
            keys: kab(),
            setup,
            threads,
            strict_unlink: true,
            fs_switch: false,
            recover_at_removals: false,
            recover_at_meta: false,
            recover_at_all_writes: false,
            fault: Some(fault),
            fault_thread: Some(0),
            final_directory: true,
            fault_budget: None,
            fault_skip: 0,
            pre_wal_puts: 0,
            judge_under_fault: false,
            fault_partial: 0,
        })
    };
    let big = Cfg::new(4 << 20, 300, 16, true);
    let l0 = vec![Put(0, 1, 8), Flush, Put(1, 2, 8), Flush, Put(0, 3, 8)];
    vec![
        p("failing-get||flush", big, l0.clone(), vec![vec![Get(0), Get(1)], vec![Flush]], (class::READ, ".rdb")),
        p("failing-get||compact", big, l0.clone(), vec![vec![Get(1), Get(0)], vec![Compact(None, None)]], (class::READ, ".rdb")),
        p("failing-get||rotating-writer", rot_cfg(), l0.clone(), vec![vec![Get(1), Get(0)], vec![Put(1, 4, 8), Put(0, 5, 8), Put(1, 6, 8)]], (class::READ, ".rdb")),
        p("failing-scan||flush", big, l0.clone(), vec![vec![IterScan, Get(1)], vec![Flush, Put(1, 7, 8)]], (class::READ, ".rdb")),
        p("failing-open-of-table||compact", big, l0, vec![vec![Get(1), SnapRead(vec![0, 1])], vec![Compact(None, None)]], (class::OPEN, ".rdb")),
    ]
    .into_iter()
    .chain(c11_notfound_programs())
    .collect()
}

/// The same without a fault: readers whose answer is "not found" (a deleted key whose tombstone is
/// in a table, a key that was never written) while new versions are installed; afterwards
/// everything is overwritten and compacted and the directory must hold exactly the needed files
/// (a reader that keeps a version pinned for ever keeps its tables on disk).
pub fn c11_notfound_programs() -> Vec<Arc<Prog>> {
    let p = |name: &str, cfg: Cfg, setup: Vec<TOp>, threads: Vec<Vec<TOp>>| {
        Arc::new(Prog {
            name: name.to_string(),
            cfg,
            keys: vec![b"a".to_vec(), b"b".to_vec(), b"c".to_vec()],
            setup,
            threads,
            strict_unlink: true,
            fs_switch: false,
            recover_at_removals: false,
            recover_at_meta: false,
            recover_at_all_writes: false,
            fault: None,
            fault_thread: None,
            final_directory: true,
            fault_budget: None,
            fault_skip: 0,
            pre_wal_puts: 0,
            judge_under_fault: false,
            fault_partial: 0,
        })
    };
    let big = Cfg::new(4 << 20, 300, 16, true);
    // a: value in a table; b: tombstone in a table above an older value; c: never written
    let setup = vec![Put(0, 1, 8), Put(1, 2, 8), Flush, Del(1), Flush, Put(0, 3, 8)];
    vec![
        p("notfound-get||flush", big, setup.clone(), vec![vec![Get(1), Get(2)], vec![Flush]]),
        p("notfound-get||compact", big, setup.clone(), vec![vec![Get(2), Get(1)], vec![Compact(None, None)]]),
        p("notfound-get||put+flush+compact", big, setup, vec![vec![Get(1)], vec![Put(1, 4, 8), Flush, Compact(None, None)]]),
    ]
}

/// C02 under concurrency: the same programs, with a crash image recovered after every manifest
/// write and every rename as well
pub fn c02_meta_programs() -> Vec<Arc<Prog>> {
    c11_removal_programs()
        .into_iter()
        .map(|p| {
            let mut q = (*p).clone();
            q.recover_at_meta = true;
            Arc::new(q)
        })
        .collect()
}

/// C08 under concurrency (also C05's "its caller receives its own outcome"): writers that are
/// grouped into one commit, or queued behind a leader waiting for room, while one filesystem call
/// fails once or persistently. Judged by linearizability with failed calls optional, and by a
/// reopen once the fault is gone (every acknowledged write must be there).
pub fn c08_concurrent_programs() -> Vec<Arc<Prog>> {
    use crate::vfs::class;
    let pt = |name: &str, setup: Vec<TOp>, threads: Vec<Vec<TOp>>, fault: (u32, &'static str), budget: Option<u32>, fault_thread: Option<usize>| {
        Arc::new(Prog {
            name: name.to_string(),
            cfg: rot_cfg(),
            keys: kab(),
            setup,
            threads,
            strict_unlink: false,
            fs_switch: false,
            recover_at_removals: false,
            recover_at_meta: false,
            recover_at_all_writes: false,
            fault: Some(fault),
            fault_thread,
            final_directory: false,
            fault_budget: budget,
            fault_skip: 0,
            pre_wal_puts: 0,
            judge_under_fault: true,
            fault_partial: 0,
        })
    };
    let p = |name: &str, setup: Vec<TOp>, threads: Vec<Vec<TOp>>, fault: (u32, &'static str), budget: Option<u32>| pt(name, setup, threads, fault, budget, None);
    let mut v = vec![];
    // a table compaction is running while the writer rotates the memtable; the k-th manifest write
    // after the setup fails once (the flush done inside the compaction loop, the compaction's own
    // edit, ...); afterwards the database is reopened without the fault
    // (both keys alternate in the level-0 files, so the compaction keeps several entries and its
    // loop has filesystem calls — scheduling points — between its iterations)
    let l0 = vec![Put(0, 1, 8), Flush, Put(1, 2, 8), Flush, Put(0, 3, 8), Flush, Put(1, 4, 8), Flush, Put(0, 5, 8), Flush, Put(1, 6, 8)];
    for k in 0..4u32 {
        let mut q = (*pt(
            &format!("manifest-write-{}-fails-once: rotating w+w+w||compact", k),
            l0.clone(),
            vec![vec![Put(1, 7, 8), Put(0, 8, 8), Put(1, 9, 8)], vec![Compact(None, None)]],
            (class::WRITE, ".manifest"),
            Some(1),
            None,
        ))
        .clone();
        q.fault_skip = k;
        // the compaction loop takes no lock between two entries: filesystem calls are its only
        // scheduling points
        q.fs_switch = true;
        v.push(Arc::new(q.clone()));
        // the same, but the failing write has written the first half of its record: whatever is
        // appended to that manifest afterwards lies behind a torn record
        let mut h = q;
        h.name = format!("manifest-write-{}-fails-once-half-written: rotating w+w+w||compact", k);
        h.fault_partial = 1;
        v.push(Arc::new(h));
    }
    // a manual compaction is in flight when a writer's WAL append fails (the background error is
    // recorded and the thread waiting in compact_range is woken while the compaction thread works)
    v.push(pt(
        "wal-write-of-T2-fails once: compact||w",
        l0.clone(),
        vec![vec![Compact(None, None)], vec![Put(0, 7, 8)]],
        (class::WRITE, ".log"),
        Some(1),
        Some(1),
    ));
    // the same with a writer that rotates the memtable first: when the write-ahead-log append of
    // its k-th put fails, an immutable memtable is waiting for the compaction thread, which is
    // inside the manual compaction (whoever stops waiting for it now pulls the request away from
    // under the thread)
    for k in 1..=3u32 {
        let mut q = (*pt(
            &format!("wal-write-{}-of-rotating-T2-fails once: compact||w+w+w+w", k),
            l0.clone(),
            vec![vec![Compact(None, None)], vec![Put(1, 7, 8), Put(0, 8, 8), Put(1, 9, 8), Put(0, 10, 8)]],
            (class::WRITE, ".log"),
            Some(1),
            Some(1),
        ))
        .clone();
        q.fault_skip = k;
        v.push(Arc::new(q));
    }
    for (tag, budget) in [("once", Some(1u32)), ("sticky", None)] {
        let n = |s: &str| format!("{} {}", s, tag);
        v.push(p(&n("wal-write-fails: w||w||get+get"), vec![Put(0, 1, 8)], vec![vec![Put(0, 2, 8)], vec![Put(0, 3, 8)], vec![Get(0), Get(0)]], (class::WRITE, ".log"), budget));
        // three writers: while the first is in its WAL section the other two queue up and are
        // committed as one group by the second — the follower must get the group's outcome
        v.push(p(&n("wal-write-fails: w||w||w"), vec![Put(0, 1, 8)], vec![vec![Put(0, 2, 8)], vec![Put(1, 3, 8)], vec![Put(0, 4, 8)]], (class::WRITE, ".log"), budget));
        // only the second thread's calls fail: its WAL append fails exactly when it leads a group
        v.push(pt(
            &n("wal-write-of-T2-fails: w||w||w"),
            vec![Put(0, 1, 8)],
            vec![vec![Put(0, 2, 8)], vec![Put(1, 3, 8)], vec![Put(0, 4, 8)]],
            (class::WRITE, ".log"),
            budget,
            Some(1),
        ));
        v.push(pt(
            &n("wal-write-of-T2-fails: w||batch||w+get"),
            vec![Put(0, 1, 8)],
            vec![vec![Put(1, 2, 8)], vec![Batch(vec![(0, Some(3)), (1, Some(3))])], vec![Put(0, 4, 8), Get(1)]],
            (class::WRITE, ".log"),
            budget,
            Some(1),
        ));
        v.push(p(
            &n("wal-flush-fails: w||batch||del"),
            vec![Put(0, 1, 8)],
            vec![vec![Put(1, 2, 8)], vec![Batch(vec![(0, Some(3)), (1, Some(3))])], vec![Del(0)]],
            (class::FLUSH, ".log"),
            budget,
        ));
        v.push(p(&n("wal-flush-fails: w+get||w+get"), vec![Put(0, 1, 8)], vec![vec![Put(0, 2, 8), Get(1)], vec![Put(1, 3, 8), Get(0)]], (class::FLUSH, ".log"), budget));
        v.push(p(
            &n("wal-write-fails: batch||w||snapread"),
            vec![Put(0, 1, 8)],
            vec![vec![Batch(vec![(0, Some(2)), (1, Some(2))])], vec![Put(1, 3, 8)], vec![SnapRead(vec![0, 1])]],
            (class::WRITE, ".log"),
            budget,
        ));
        v.push(p(&n("table-create-fails: w+w||w+get"), vec![Put(0, 1, 8)], vec![vec![Put(1, 2, 8), Put(0, 3, 8)], vec![Put(1, 4, 8), Get(0)]], (class::CREATE, ".rdb"), budget));
        v.push(p(&n("manifest-write-fails: w+w||w+get"), vec![Put(0, 1, 8)], vec![vec![Put(1, 2, 8), Put(0, 3, 8)], vec![Put(1, 4, 8), Get(1)]], (class::WRITE, ".manifest"), budget));
        v.push(p(&n("wal-create-fails: w+w||w+get"), vec![Put(0, 1, 8)], vec![vec![Put(1, 2, 8), Put(0, 3, 8)], vec![Del(0), Get(0)]], (class::CREATE, ".log"), budget));
    }
    v
}

/// C02 under concurrency, several writers: group commits, queued writers and memtable rotation,
/// with a crash image recovered after *every* write to any file, rename and removal. Per key the
/// recovered value must come from a write that had started and that no write acknowledged before
/// the crash definitely followed; a batch is recovered completely or not at all.
pub fn c02_multiwriter_programs() -> Vec<Arc<Prog>> {
    let p = |name: &str, cfg: Cfg, setup: Vec<TOp>, threads: Vec<Vec<TOp>>| {
        Arc::new(Prog {
            name: name.to_string(),
            cfg,
            keys: kab(),
            setup,
            threads,
            strict_unlink: true,
            fs_switch: false,
            recover_at_removals: true,
            recover_at_meta: true,
            recover_at_all_writes: true,
            fault: None,
            fault_thread: None,
            final_directory: false,
            fault_budget: None,
            fault_skip: 0,
            pre_wal_puts: 0,
            judge_under_fault: false,
            fault_partial: 0,
        })
    };
    let big = Cfg::new(4 << 20, 300, 16, true);
    vec![
        p("crash: w||w||w", big, vec![Put(0, 1, 8)], vec![vec![Put(0, 2, 8)], vec![Put(1, 3, 8)], vec![Put(0, 4, 8)]]),
        p("crash: w+w||w+w", big, vec![], vec![vec![Put(0, 1, 8), Put(1, 2, 8)], vec![Put(1, 3, 8), Put(0, 4, 8)]]),
        // (crash images only at removals / manifest writes / renames and at the end: the images
        // hold a 140 kB WAL)
        {
            let mut q = (*p("crash: w||w||w-140k", big, vec![Put(0, 1, 8)], vec![vec![Put(0, 2, 8)], vec![Put(1, 3, 8)], vec![Put(1, 4, 140_000)]])).clone();
            q.recover_at_all_writes = false;
            Arc::new(q)
        },
        p("crash: batch||w||del", big, vec![Put(0, 1, 8)], vec![vec![Batch(vec![(0, Some(2)), (1, Some(2))])], vec![Put(1, 3, 8)], vec![Del(0)]]),
        p("crash: rotating w+w||w+w", rot_cfg(), vec![Put(0, 1, 8)], vec![vec![Put(1, 2, 8), Put(0, 3, 8)], vec![Put(1, 4, 8), Put(0, 5, 8)]]),
        p("crash: rotating w+w||batch||flush", rot_cfg(), vec![Put(0, 1, 8)], vec![vec![Put(1, 2, 8), Put(0, 3, 8)], vec![Batch(vec![(0, Some(4)), (1, Some(4))])], vec![Flush]]),
    ]
}

/// C09 with an I/O fault: writers queued behind a leader that is waiting for room when the
/// background flush fails must all be released (with an error), never left waiting.
pub fn c09_fault_programs() -> Vec<Arc<Prog>> {
    use crate::vfs::class;
    let p = |name: &str, setup: Vec<TOp>, threads: Vec<Vec<TOp>>, fault: (u32, &'static str)| {
        Arc::new(Prog {
            name: name.to_string(),
            cfg: rot_cfg(),
            keys: kab(),
            setup,
            threads,
            strict_unlink: false,
            fs_switch: false,
            recover_at_removals: false,
            recover_at_meta: false,
            recover_at_all_writes: false,
            fault: Some(fault),
            fault_thread: None,
            final_directory: false,
            fault_budget: None,
            fault_skip: 0,
            pre_wal_puts: 0,
            judge_under_fault: false,
            fault_partial: 0,
        })
    };
    vec![
        p("flush-fails: w+w||w", vec![Put(0, 1, 8)], vec![vec![Put(1, 2, 8), Put(0, 3, 8)], vec![Put(1, 4, 8)]], (class::CREATE, ".rdb")),
        p("flush-fails: w+w||w||w", vec![Put(0, 1, 8)], vec![vec![Put(1, 2, 8), Put(0, 3, 8)], vec![Put(1, 4, 8)], vec![Del(0)]], (class::CREATE, ".rdb")),
        p("flush-fails: w+w||flush", vec![Put(0, 1, 8)], vec![vec![Put(1, 2, 8), Put(0, 3, 8)], vec![Flush]], (class::WRITE, ".rdb")),
        p("manifest-fails: w+w||w", vec![Put(0, 1, 8)], vec![vec![Put(1, 2, 8), Put(0, 3, 8)], vec![Put(1, 4, 8)]], (class::WRITE, ".manifest")),
        p("wal-create-fails: w+w||w", vec![Put(0, 1, 8)], vec![vec![Put(1, 2, 8), Put(0, 3, 8)], vec![Put(1, 4, 8)]], (class::CREATE, ".log")),
        p("wal-write-fails: w||w||get", vec![Put(0, 1, 8)], vec![vec![Put(1, 2, 8)], vec![Put(0, 3, 8)], vec![Get(0)]], (class::WRITE, ".log")),
    ]
    .into_iter()
    .chain(l0_stop_programs())
    // a background error recorded while a manual compaction is in flight (found H15)
    .chain(c08_concurrent_programs().into_iter().filter(|p| (p.name.contains("compact||w") || p.name.contains("rotating w+w+w||compact")) && !p.name.contains("half-written")))
    .collect()
}

/// A writer parked on the level-0 stop trigger (>= 12 level-0 files, produced by recovering a
/// long WAL with a tiny memtable without log reuse) while the compaction that should relieve
/// level 0 fails: the writer has to be released with the error.
pub fn l0_stop_programs() -> Vec<Arc<Prog>> {
    use crate::vfs::class;
    let p = |name: &str, threads: Vec<Vec<TOp>>, fault: Option<(u32, &'static str)>| {
        Arc::new(Prog {
            name: name.to_string(),
            cfg: Cfg::new(ROT_MEMTABLE, 300, 16, false),
            keys: kab(),
            setup: vec![],
            threads,
            strict_unlink: false,
            fs_switch: false,
            recover_at_removals: false,
            recover_at_meta: false,
            recover_at_all_writes: false,
            fault,
            fault_thread: None,
            final_directory: false,
            fault_budget: None,
            fault_skip: 0,
            pre_wal_puts: 14,
            judge_under_fault: false,
            fault_partial: 0,
        })
    };
    vec![
        p("l0-stop relieved by the compaction: w+w+w||get", vec![vec![Put(0, 1, 8), Put(1, 2, 8), Put(0, 3, 8)], vec![Get(0)]], None),
        p("l0-stop, compaction output cannot be created: w+w+w||get", vec![vec![Put(0, 1, 8), Put(1, 2, 8), Put(0, 3, 8)], vec![Get(0)]], Some((class::CREATE, ".rdb"))),
        p("l0-stop, manifest write fails: w+w+w||w", vec![vec![Put(0, 1, 8), Put(1, 2, 8), Put(0, 3, 8)], vec![Put(1, 4, 8)]], Some((class::WRITE, ".manifest"))),
    ]
}
