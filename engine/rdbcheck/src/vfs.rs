//! `VerifFs`: the harness-owned in-memory filesystem. Logs every mutating operation, can
//! materialise the image after any prefix of that log (crash) with the last write cut at any byte
//! (torn write), fail the i-th call once or for ever (fault), flip bytes (corruption), list
//! directories (garbage check). Per-handle cursors, POSIX unlink semantics by default and a
//! strict mode in which any use of a handle to a removed file fails.

use std::collections::{BTreeMap, BTreeSet};
use std::io::{self, Read, Seek, SeekFrom, Write};
use std::path::{Path, PathBuf};
use std::sync::atomic::{AtomicBool, Ordering};
use std::sync::{Arc, Mutex};

use raindb::fs::{FileLock, FileSystem, InMemoryFileSystem, RandomAccessFile, ReadonlyRandomAccessFile};

pub type Image = BTreeMap<PathBuf, Vec<u8>>;

#[derive(Clone, Debug, PartialEq, Eq)]
pub enum FsOp {
    /// `create_file(path, append=false)` (truncating) or creation of a missing file in append mode.
    Create { path: PathBuf },
    Write { path: PathBuf, offset: u64, data: Vec<u8> },
    Rename { from: PathBuf, to: PathBuf },
    Remove { path: PathBuf },
    RemoveDirAll { path: PathBuf },
}

impl FsOp {
    pub fn short(&self) -> String {
        fn n(p: &Path) -> String {
            p.file_name().map(|s| s.to_string_lossy().to_string()).unwrap_or_default()
        }
        match self {
            FsOp::Create { path } => format!("create {}", n(path)),
            FsOp::Write { path, offset, data } => format!("write {}@{}+{}", n(path), offset, data.len()),
            FsOp::Rename { from, to } => format!("rename {}->{}", n(from), n(to)),
            FsOp::Remove { path } => format!("remove {}", n(path)),
            FsOp::RemoveDirAll { path } => format!("rmdirall {}", n(path)),
        }
    }
}

pub mod class {
    pub const CREATE: u32 = 1;
    pub const WRITE: u32 = 2;
    pub const RENAME: u32 = 4;
    pub const REMOVE: u32 = 8;
    pub const OPEN: u32 = 16;
    pub const SIZE: u32 = 32;
    pub const LIST: u32 = 64;
    pub const READ: u32 = 128;
    pub const FLUSH: u32 = 256;
    pub const LOCK: u32 = 512;
    pub const MKDIR: u32 = 1024;
    pub const PROPERTY_SET: u32 = CREATE | WRITE | RENAME | REMOVE | OPEN | SIZE;
    pub const ALL: u32 = 2047;
    pub fn name(c: u32) -> &'static str {
        match c {
            CREATE => "create",
            WRITE => "write",
            RENAME => "rename",
            REMOVE => "remove",
            OPEN => "open",
            SIZE => "size",
            LIST => "list",
            READ => "read",
            FLUSH => "flush",
            LOCK => "lock",
            MKDIR => "mkdir",
            _ => "?",
        }
    }
}

#[derive(Clone, Debug)]
pub struct Fault {
    /// fail the call with this index (0-based) among the counted classes
    pub at_call: u64,
    pub sticky: bool,
    pub classes: u32,
    pub fired: bool,
    /// what a failing *write* leaves behind before it reports its error: 0 = nothing (the call
    /// fails before any byte is written), 1 = the first half of the buffer, 2 = all but the last
    /// byte, 3 = the first 7 bytes (exactly one log-record header) - a failed write(2) /
    /// write_all may well have written part of its data (ENOSPC, EIO in the middle)
    pub partial: u8,
}

#[derive(Debug)]
struct FileData {
    bytes: Mutex<Vec<u8>>,
    removed: AtomicBool,
}

#[derive(Debug, Default)]
pub struct State {
    files: BTreeMap<PathBuf, Arc<FileData>>,
    dirs: BTreeSet<PathBuf>,
    pub log: Vec<FsOp>,
    pub logging: bool,
    base: Image,
    base_dirs: BTreeSet<PathBuf>,
    pub calls: u64,
    pub call_trace: Vec<(u32, String)>,
    pub trace_calls: bool,
    pub fault: Option<Fault>,
    pub faults_fired: u64,
    pub strict_unlink: bool,
    pub stale_uses: u64,
    pub fs_switch: bool,
    /// every table/wal path removed, in order (C11 bookkeeping)
    pub removed_paths: Vec<PathBuf>,
    /// fail every call of the given classes whose file name ends with the suffix (sticky fault by
    /// file kind; independent of call numbering, so it is stable under schedule exploration)
    pub fail_by_suffix: Option<(u32, String)>,
    /// if set, `fail_by_suffix` only hits calls made by this task of the controlled runtime
    pub fail_only_task: Option<usize>,
    /// if set, `fail_by_suffix` disarms itself after this many failures
    pub fail_by_suffix_budget: Option<u32>,
    /// number of matching calls that still pass before `fail_by_suffix` starts to fire
    pub fail_by_suffix_skip: u32,
    /// what a write failed by `fail_by_suffix` leaves in the file (see `Fault::partial`)
    pub fail_by_suffix_partial: u8,
    /// `partial` of the fault that made the last gated call fail
    pub last_injected_partial: u8,
    /// table files created after an injected fault has fired
    pub table_creates_after_fault: u64,
    /// if set: at every removal, the value of this clock, the path and the image right after it
    pub removal_clock: Option<&'static std::sync::atomic::AtomicU64>,
    pub removal_snaps: Vec<(u64, String, Image)>,
    /// also snapshot after every write to a manifest and after every rename
    pub snap_meta: bool,
    /// snapshot after every write to any file
    pub snap_all: bool,
}

#[derive(Clone)]
pub struct VerifFs {
    st: Arc<Mutex<State>>,
    locker: Arc<InMemoryFileSystem>,
}

impl std::fmt::Debug for VerifFs {
    fn fmt(&self, f: &mut std::fmt::Formatter<'_>) -> std::fmt::Result {
        f.write_str("VerifFs")
    }
}

fn lock<T>(m: &Mutex<T>) -> std::sync::MutexGuard<'_, T> {
    match m.lock() {
        Ok(g) => g,
        Err(p) => p.into_inner(),
    }
}

fn injected() -> io::Error {
    io::Error::new(io::ErrorKind::Other, "injected fault")
}

impl State {
    /// Returns Err if this call is to fail.
    fn gate(&mut self, cls: u32, what: &Path) -> io::Result<()> {
        crate::watchdog::fs_call();
        if let Some((mask, suffix)) = self.fail_by_suffix.as_ref() {
            let task_ok = match self.fail_only_task {
                Some(t) => shuttle::current::get_current_task().map(usize::from) == Some(t),
                None => true,
            };
            if task_ok && mask & cls != 0 && what.to_string_lossy().ends_with(suffix.as_str()) && self.fail_by_suffix_skip > 0 {
                self.fail_by_suffix_skip -= 1;
            } else if task_ok && mask & cls != 0 && what.to_string_lossy().ends_with(suffix.as_str()) {
                self.faults_fired += 1;
                self.last_injected_partial = self.fail_by_suffix_partial;
                if let Some(n) = self.fail_by_suffix_budget.as_mut() {
                    *n -= 1;
                    if *n == 0 {
                        self.fail_by_suffix = None;
                        self.fail_by_suffix_budget = None;
                    }
                }
                return Err(injected());
            }
        }
        let counted = match &self.fault {
            Some(f) => f.classes & cls != 0,
            None => class::PROPERTY_SET & cls != 0,
        };
        if !counted {
            return Ok(());
        }
        let idx = self.calls;
        self.calls += 1;
        if self.trace_calls {
            self.call_trace.push((
                cls,
                what.file_name().map(|s| s.to_string_lossy().to_string()).unwrap_or_default(),
            ));
        }
        if let Some(f) = self.fault.as_mut() {
            if (idx == f.at_call && !f.fired) || (f.sticky && f.fired) || (f.sticky && idx >= f.at_call) {
                f.fired = true;
                self.faults_fired += 1;
                self.last_injected_partial = f.partial;
                return Err(injected());
            }
        }
        Ok(())
    }

    /// crash image of the current contents, stamped with the harness clock (schedule x crash)
    pub fn snapshot(&mut self, label: String) {
        if let Some(clock) = self.removal_clock {
            let img: Image = self.files.iter().map(|(p, d)| (p.clone(), lock(&d.bytes).clone())).collect();
            let t = clock.load(Ordering::SeqCst);
            self.removal_snaps.push((t, label, img));
        }
    }

    fn record(&mut self, op: FsOp) {
        if self.logging {
            self.log.push(op);
        }
    }

    fn parent_exists(&self, path: &Path) -> bool {
        match path.parent() {
            Some(p) if p.as_os_str().is_empty() => true,
            Some(p) => self.dirs.contains(p),
            None => true,
        }
    }
}

impl VerifFs {
    pub fn new() -> Self {
        VerifFs {
            st: Arc::new(Mutex::new(State {
                logging: true,
                ..State::default()
            })),
            locker: Arc::new(InMemoryFileSystem::new()),
        }
    }

    pub fn from_image(image: &Image, dirs: &BTreeSet<PathBuf>) -> Self {
        let fs = VerifFs::new();
        {
            let mut st = lock(&fs.st);
            for (p, b) in image {
                st.files.insert(
                    p.clone(),
                    Arc::new(FileData {
                        bytes: Mutex::new(b.clone()),
                        removed: AtomicBool::new(false),
                    }),
                );
            }
            st.dirs = dirs.clone();
            st.base = image.clone();
            st.base_dirs = dirs.clone();
        }
        fs
    }

    pub fn state(&self) -> std::sync::MutexGuard<'_, State> {
        lock(&self.st)
    }

    fn maybe_switch(&self) {
        let sw = lock(&self.st).fs_switch;
        if sw {
            parking_lot::verif_rt::harness_switch("fs");
        }
    }

    /// Current image (all files).
    pub fn image(&self) -> Image {
        let st = lock(&self.st);
        st.files.iter().map(|(p, d)| (p.clone(), lock(&d.bytes).clone())).collect()
    }

    pub fn dirs(&self) -> BTreeSet<PathBuf> {
        lock(&self.st).dirs.clone()
    }

    /// Forget the log and make the current contents the new base image.
    pub fn rebase(&self) {
        let img = self.image();
        let mut st = lock(&self.st);
        st.base = img;
        st.base_dirs = st.dirs.clone();
        st.log.clear();
    }

    pub fn log_len(&self) -> usize {
        lock(&self.st).log.len()
    }

    pub fn log(&self) -> Vec<FsOp> {
        lock(&self.st).log.clone()
    }

    pub fn base(&self) -> (Image, BTreeSet<PathBuf>) {
        let st = lock(&self.st);
        (st.base.clone(), st.base_dirs.clone())
    }

    /// The image after the first `prefix` logged operations; if `torn` is `Some(n)` the last of
    /// them (which must be a write) only has its first `n` bytes on disk.
    pub fn image_after(base: &Image, log: &[FsOp], prefix: usize, torn: Option<usize>) -> Image {
        let mut img = base.clone();
        for (i, op) in log[..prefix].iter().enumerate() {
            let last = i + 1 == prefix;
            match op {
                FsOp::Create { path } => {
                    img.insert(path.clone(), Vec::new());
                }
                FsOp::Write { path, offset, data } => {
                    let data: &[u8] = match (last, torn) {
                        (true, Some(n)) => &data[..n.min(data.len())],
                        _ => &data[..],
                    };
                    let f = img.entry(path.clone()).or_default();
                    let off = *offset as usize;
                    if f.len() < off {
                        f.resize(off, 0);
                    }
                    let end = off + data.len();
                    if f.len() < end {
                        f.resize(end, 0);
                    }
                    f[off..end].copy_from_slice(data);
                }
                FsOp::Rename { from, to } => {
                    if let Some(b) = img.remove(from) {
                        img.insert(to.clone(), b);
                    }
                }
                FsOp::Remove { path } => {
                    img.remove(path);
                }
                FsOp::RemoveDirAll { path } => {
                    let ks: Vec<PathBuf> = img.keys().filter(|k| k.starts_with(path)).cloned().collect();
                    for k in ks {
                        img.remove(&k);
                    }
                }
            }
        }
        img
    }

    pub fn arm_fault(&self, at_call: u64, sticky: bool, classes: u32) {
        let mut st = lock(&self.st);
        st.fault = Some(Fault {
            at_call,
            sticky,
            classes,
            fired: false,
            partial: 0,
        });
        st.calls = 0;
    }

    /// What the failing write of the armed fault leaves in the file (see `Fault::partial`).
    pub fn set_fault_partial(&self, partial: u8) {
        if let Some(f) = lock(&self.st).fault.as_mut() {
            f.partial = partial;
        }
    }

    /// Count calls of these classes without failing any (numbering run).
    pub fn count_calls(&self, classes: u32) {
        let mut st = lock(&self.st);
        st.fault = Some(Fault {
            at_call: u64::MAX,
            sticky: false,
            classes,
            fired: false,
            partial: 0,
        });
        st.calls = 0;
    }

    pub fn disarm(&self) {
        lock(&self.st).fault = None;
    }

    pub fn set_strict_unlink(&self, on: bool) {
        lock(&self.st).strict_unlink = on;
    }

    pub fn set_fs_switch(&self, on: bool) {
        lock(&self.st).fs_switch = on;
    }

    pub fn mutate(&self, path: &Path, f: impl FnOnce(&mut Vec<u8>)) -> bool {
        let st = lock(&self.st);
        match st.files.get(path) {
            Some(d) => {
                f(&mut lock(&d.bytes));
                true
            }
            None => false,
        }
    }

    pub fn exists(&self, path: &Path) -> bool {
        lock(&self.st).files.contains_key(path)
    }

    pub fn file_names_in(&self, dir: &Path) -> Vec<String> {
        let st = lock(&self.st);
        st.files
            .keys()
            .filter(|p| p.parent() == Some(dir))
            .map(|p| p.file_name().unwrap().to_string_lossy().to_string())
            .collect()
    }
}

#[derive(Debug)]
struct Handle {
    st: Arc<Mutex<State>>,
    data: Arc<FileData>,
    path: PathBuf,
    cursor: u64,
}

impl Handle {
    fn check_live(&self) -> io::Result<()> {
        if self.data.removed.load(Ordering::SeqCst) {
            let mut st = lock(&self.st);
            if st.strict_unlink {
                st.stale_uses += 1;
                return Err(io::Error::new(
                    io::ErrorKind::NotFound,
                    format!("use of a handle to removed file {:?}", self.path),
                ));
            }
        }
        Ok(())
    }

    fn switch(&self) {
        let sw = lock(&self.st).fs_switch;
        if sw {
            parking_lot::verif_rt::harness_switch("fs");
        }
    }

    fn do_write(&mut self, buf: &[u8], at_end: bool) -> io::Result<usize> {
        self.switch();
        self.check_live()?;
        let mut st = lock(&self.st);
        let mut failing: Option<io::Error> = None;
        let mut buf = buf;
        if let Err(e) = st.gate(class::WRITE, &self.path) {
            let partial = st.last_injected_partial;
            let keep = match partial {
                1 => buf.len() / 2,
                2 => buf.len().saturating_sub(1),
                3 => 7.min(buf.len().saturating_sub(1)),
                _ => 0,
            };
            if keep == 0 {
                return Err(e);
            }
            buf = &buf[..keep];
            failing = Some(e);
        }
        let mut bytes = lock(&self.data.bytes);
        let off = if at_end { bytes.len() } else { self.cursor as usize };
        if bytes.len() < off {
            bytes.resize(off, 0);
        }
        let end = off + buf.len();
        if bytes.len() < end {
            bytes.resize(end, 0);
        }
        bytes[off..end].copy_from_slice(buf);
        self.cursor = end as u64;
        drop(bytes);
        if !self.data.removed.load(Ordering::SeqCst) {
            st.record(FsOp::Write {
                path: self.path.clone(),
                offset: off as u64,
                data: buf.to_vec(),
            });
            if st.snap_all || (st.snap_meta && self.path.extension().map(|e| e == "manifest").unwrap_or(false)) {
                let name = self.path.file_name().map(|s| s.to_string_lossy().to_string()).unwrap_or_default();
                st.snapshot(format!("a write of {} bytes to {}", buf.len(), name));
            }
        }
        if let Some(e) = failing {
            return Err(e);
        }
        Ok(buf.len())
    }
}

impl Read for Handle {
    fn read(&mut self, buf: &mut [u8]) -> io::Result<usize> {
        self.switch();
        self.check_live()?;
        lock(&self.st).gate(class::READ, &self.path)?;
        let bytes = lock(&self.data.bytes);
        let off = (self.cursor as usize).min(bytes.len());
        let n = buf.len().min(bytes.len() - off);
        buf[..n].copy_from_slice(&bytes[off..off + n]);
        self.cursor += n as u64;
        Ok(n)
    }
}

impl Seek for Handle {
    fn seek(&mut self, pos: SeekFrom) -> io::Result<u64> {
        let len = lock(&self.data.bytes).len() as i64;
        let new = match pos {
            SeekFrom::Start(p) => p as i64,
            SeekFrom::End(d) => len + d,
            SeekFrom::Current(d) => self.cursor as i64 + d,
        };
        if new < 0 {
            return Err(io::Error::new(io::ErrorKind::InvalidInput, "seek before start"));
        }
        self.cursor = new as u64;
        Ok(self.cursor)
    }
}

impl Write for Handle {
    fn write(&mut self, buf: &[u8]) -> io::Result<usize> {
        self.do_write(buf, false)
    }
    fn flush(&mut self) -> io::Result<()> {
        lock(&self.st).gate(class::FLUSH, &self.path)?;
        Ok(())
    }
}

impl ReadonlyRandomAccessFile for Handle {
    fn read_from(&self, buf: &mut [u8], offset: usize) -> io::Result<usize> {
        self.switch();
        self.check_live()?;
        lock(&self.st).gate(class::READ, &self.path)?;
        let bytes = lock(&self.data.bytes);
        let off = offset.min(bytes.len());
        let n = buf.len().min(bytes.len() - off);
        buf[..n].copy_from_slice(&bytes[off..off + n]);
        Ok(n)
    }

    fn len(&self) -> io::Result<u64> {
        self.check_live()?;
        Ok(lock(&self.data.bytes).len() as u64)
    }
}

impl RandomAccessFile for Handle {
    fn append(&mut self, buf: &[u8]) -> io::Result<usize> {
        self.do_write(buf, true)
    }
}

impl FileSystem for VerifFs {
    fn get_name(&self) -> String {
        "VerifFs".to_string()
    }

    fn create_dir(&self, path: &Path) -> io::Result<()> {
        let mut st = lock(&self.st);
        st.gate(class::MKDIR, path)?;
        if st.dirs.contains(path) {
            return Err(io::Error::new(io::ErrorKind::AlreadyExists, "directory exists"));
        }
        if !st.parent_exists(path) {
            return Err(io::Error::new(io::ErrorKind::NotFound, "parent directory missing"));
        }
        st.dirs.insert(path.to_path_buf());
        Ok(())
    }

    fn create_dir_all(&self, path: &Path) -> io::Result<()> {
        let mut st = lock(&self.st);
        st.gate(class::MKDIR, path)?;
        let mut p = Some(path);
        while let Some(q) = p {
            if q.as_os_str().is_empty() {
                break;
            }
            st.dirs.insert(q.to_path_buf());
            p = q.parent();
        }
        Ok(())
    }

    fn list_dir(&self, path: &Path) -> io::Result<Vec<PathBuf>> {
        self.maybe_switch();
        let mut st = lock(&self.st);
        st.gate(class::LIST, path)?;
        if !st.dirs.contains(path) {
            return Err(io::Error::new(io::ErrorKind::NotFound, "no such directory"));
        }
        let mut out: BTreeSet<PathBuf> = BTreeSet::new();
        for p in st.files.keys() {
            if p.parent() == Some(path) {
                out.insert(p.clone());
            }
        }
        for d in st.dirs.iter() {
            if d.parent() == Some(path) {
                out.insert(d.clone());
            }
        }
        Ok(out.into_iter().collect())
    }

    fn open_file(&self, path: &Path) -> io::Result<Box<dyn ReadonlyRandomAccessFile>> {
        self.maybe_switch();
        let mut st = lock(&self.st);
        st.gate(class::OPEN, path)?;
        match st.files.get(path) {
            Some(d) => Ok(Box::new(Handle {
                st: Arc::clone(&self.st),
                data: Arc::clone(d),
                path: path.to_path_buf(),
                cursor: 0,
            })),
            None => Err(io::Error::new(
                io::ErrorKind::NotFound,
                format!("Could not find the file with path {}", path.to_string_lossy()),
            )),
        }
    }

    fn rename(&self, from: &Path, to: &Path) -> io::Result<()> {
        self.maybe_switch();
        let mut st = lock(&self.st);
        st.gate(class::RENAME, from)?;
        match st.files.remove(from) {
            Some(d) => {
                if let Some(old) = st.files.insert(to.to_path_buf(), d) {
                    old.removed.store(true, Ordering::SeqCst);
                }
                st.record(FsOp::Rename {
                    from: from.to_path_buf(),
                    to: to.to_path_buf(),
                });
                if st.snap_meta || st.snap_all {
                    let name = to.file_name().map(|s| s.to_string_lossy().to_string()).unwrap_or_default();
                    st.snapshot(format!("the rename to {}", name));
                }
                Ok(())
            }
            None => Err(io::Error::new(io::ErrorKind::NotFound, "rename source missing")),
        }
    }

    fn create_file(&self, path: &Path, append: bool) -> io::Result<Box<dyn RandomAccessFile>> {
        self.maybe_switch();
        let mut st = lock(&self.st);
        st.gate(class::CREATE, path)?;
        if st.faults_fired > 0 && path.extension().map(|e| e == "rdb").unwrap_or(false) {
            st.table_creates_after_fault += 1;
        }
        if !st.parent_exists(path) {
            return Err(io::Error::new(io::ErrorKind::NotFound, "parent directory missing"));
        }
        if append {
            if let Some(d) = st.files.get(path) {
                let len = lock(&d.bytes).len() as u64;
                return Ok(Box::new(Handle {
                    st: Arc::clone(&self.st),
                    data: Arc::clone(d),
                    path: path.to_path_buf(),
                    cursor: len,
                }));
            }
        }
        let d = Arc::new(FileData {
            bytes: Mutex::new(Vec::new()),
            removed: AtomicBool::new(false),
        });
        if let Some(old) = st.files.insert(path.to_path_buf(), Arc::clone(&d)) {
            // truncation of an existing file: model as a fresh inode for open handles
            old.removed.store(true, Ordering::SeqCst);
        }
        st.record(FsOp::Create { path: path.to_path_buf() });
        Ok(Box::new(Handle {
            st: Arc::clone(&self.st),
            data: d,
            path: path.to_path_buf(),
            cursor: 0,
        }))
    }

    fn remove_file(&self, path: &Path) -> io::Result<()> {
        self.maybe_switch();
        let mut st = lock(&self.st);
        st.gate(class::REMOVE, path)?;
        match st.files.remove(path) {
            Some(d) => {
                d.removed.store(true, Ordering::SeqCst);
                st.removed_paths.push(path.to_path_buf());
                st.record(FsOp::Remove { path: path.to_path_buf() });
                let name = path.file_name().map(|s| s.to_string_lossy().to_string()).unwrap_or_default();
                st.snapshot(format!("the removal of {}", name));
                Ok(())
            }
            None => Err(io::Error::new(
                io::ErrorKind::NotFound,
                format!("Could not find the file with path {}", path.to_string_lossy()),
            )),
        }
    }

    fn remove_dir(&self, path: &Path) -> io::Result<()> {
        let mut st = lock(&self.st);
        st.gate(class::REMOVE, path)?;
        if st.files.keys().any(|k| k.starts_with(path)) || st.dirs.iter().any(|d| d != path && d.starts_with(path)) {
            return Err(io::Error::new(io::ErrorKind::Other, "The directory was not empty."));
        }
        if !st.dirs.remove(path) {
            return Err(io::Error::new(io::ErrorKind::NotFound, "no such directory"));
        }
        Ok(())
    }

    fn remove_dir_all(&self, path: &Path) -> io::Result<()> {
        let mut st = lock(&self.st);
        st.gate(class::REMOVE, path)?;
        let ks: Vec<PathBuf> = st.files.keys().filter(|k| k.starts_with(path)).cloned().collect();
        for k in ks {
            if let Some(d) = st.files.remove(&k) {
                d.removed.store(true, Ordering::SeqCst);
            }
        }
        let ds: Vec<PathBuf> = st.dirs.iter().filter(|d| d.starts_with(path)).cloned().collect();
        for d in ds {
            st.dirs.remove(&d);
        }
        st.record(FsOp::RemoveDirAll { path: path.to_path_buf() });
        Ok(())
    }

    fn get_file_size(&self, path: &Path) -> io::Result<u64> {
        let mut st = lock(&self.st);
        st.gate(class::SIZE, path)?;
        match st.files.get(path) {
            Some(d) => Ok(lock(&d.bytes).len() as u64),
            None => Err(io::Error::new(io::ErrorKind::NotFound, "no such file")),
        }
    }

    fn is_dir(&self, path: &Path) -> io::Result<bool> {
        let st = lock(&self.st);
        Ok(st.dirs.contains(path))
    }

    fn lock_file(&self, path: &Path) -> io::Result<FileLock> {
        {
            let mut st = lock(&self.st);
            st.gate(class::LOCK, path)?;
            if !st.files.contains_key(path) {
                st.files.insert(
                    path.to_path_buf(),
                    Arc::new(FileData {
                        bytes: Mutex::new(Vec::new()),
                        removed: AtomicBool::new(false),
                    }),
                );
            }
        }
        // `FileLock` can only be built inside raindb (the `UnlockableFile` trait is private);
        // borrow one from raindb's own in-memory filesystem. Exclusion itself is C17's subject
        // and is checked on the real `TmpFileSystem`.
        self.locker.lock_file(path)
    }
}
