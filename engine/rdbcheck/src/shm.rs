//! A `MAP_SHARED | MAP_ANONYMOUS` region shared between the master, its forked workers and the
//! per-node forked children of the sequence explorer: counters, a concurrent hash set of visited
//! abstract states and an append-only record log (violations, samples).

use std::sync::atomic::{AtomicU64, Ordering};

pub const N_COUNTERS: usize = 1024;

// counter slots
pub const C_NODES: usize = 0;
pub const C_TRANSITIONS: usize = 1;
pub const C_VIOLATIONS: usize = 2;
pub const C_CHILD_CRASH: usize = 3;
pub const C_NEXT_TASK: usize = 4;
pub const C_STATES: usize = 5;
pub const C_MAX_L0: usize = 6;
pub const C_MAX_LEVEL_FILES: usize = 7;
pub const C_DEEPEST_LEVEL: usize = 8;
pub const C_MAX_TOTAL_FILES: usize = 9;
pub const C_IMM_SEEN: usize = 10;
pub const C_DISABLED_OPS: usize = 11;
pub const C_EXECUTIONS: usize = 12;
pub const C_STEPS: usize = 13;
pub const C_LOG_DROPPED: usize = 14;
pub const C_CASES: usize = 15;
pub const C_NONTRIVIAL: usize = 16;
pub const C_KNOWN: usize = 17;
pub const C_TASKS_DONE: usize = 18;
pub const C_MACHINERY: usize = 19;
pub const C_TRIVIAL_MOVES: usize = 20;
pub const C_MAX_FILE_ENTRIES: usize = 21;
pub const C_SNAP_NODES: usize = 22;
pub const C_USER: usize = 64; // 64.. free for explorers

pub struct Shm {
    base: *mut u8,
    len: usize,
    set_slots: usize,
    log_cap: usize,
}

unsafe impl Send for Shm {}
unsafe impl Sync for Shm {}

impl Shm {
    /// `set_slots` must be a power of two.
    pub fn new(set_slots: usize, log_cap: usize) -> Shm {
        assert!(set_slots.is_power_of_two());
        let len = (N_COUNTERS + 1 + set_slots) * 8 + log_cap;
        let p = unsafe {
            libc::mmap(
                std::ptr::null_mut(),
                len,
                libc::PROT_READ | libc::PROT_WRITE,
                libc::MAP_SHARED | libc::MAP_ANONYMOUS,
                -1,
                0,
            )
        };
        assert!(p != libc::MAP_FAILED, "mmap failed");
        Shm {
            base: p as *mut u8,
            len,
            set_slots,
            log_cap,
        }
    }

    fn word(&self, i: usize) -> &AtomicU64 {
        unsafe { &*(self.base.add(i * 8) as *const AtomicU64) }
    }

    pub fn counter(&self, i: usize) -> &AtomicU64 {
        assert!(i < N_COUNTERS);
        self.word(i)
    }

    pub fn add(&self, i: usize, n: u64) -> u64 {
        crate::watchdog::beat();
        if i == C_CASES {
            // one enumerated case of a component / crash / fault / corruption explorer
            crate::watchdog::new_execution();
        }
        self.counter(i).fetch_add(n, Ordering::SeqCst)
    }

    pub fn get(&self, i: usize) -> u64 {
        self.counter(i).load(Ordering::SeqCst)
    }

    pub fn max(&self, i: usize, v: u64) {
        self.counter(i).fetch_max(v, Ordering::SeqCst);
    }

    /// Insert a state hash; returns true if it was new.
    pub fn insert_state(&self, h: u64) -> bool {
        let h = if h == 0 { 1 } else { h };
        let mask = self.set_slots - 1;
        let mut i = (h as usize).wrapping_mul(0x9E37_79B9_7F4A_7C15usize) & mask;
        for _ in 0..self.set_slots {
            let w = self.word(N_COUNTERS + 1 + i);
            let cur = w.load(Ordering::SeqCst);
            if cur == h {
                return false;
            }
            if cur == 0 {
                match w.compare_exchange(0, h, Ordering::SeqCst, Ordering::SeqCst) {
                    Ok(_) => {
                        self.add(C_STATES, 1);
                        return true;
                    }
                    Err(other) => {
                        if other == h {
                            return false;
                        }
                    }
                }
            }
            i = (i + 1) & mask;
        }
        false
    }

    fn log_off(&self) -> &AtomicU64 {
        self.word(N_COUNTERS)
    }

    fn log_base(&self) -> *mut u8 {
        unsafe { self.base.add((N_COUNTERS + 1 + self.set_slots) * 8) }
    }

    /// Append a record (tag byte + payload). Dropped (and counted) if the log is full.
    pub fn push_record(&self, tag: u8, payload: &[u8]) -> bool {
        let need = 8 + 1 + payload.len();
        let need = (need + 7) & !7;
        let off = self.log_off().fetch_add(need as u64, Ordering::SeqCst) as usize;
        if off + need > self.log_cap {
            self.add(C_LOG_DROPPED, 1);
            return false;
        }
        unsafe {
            let p = self.log_base().add(off);
            // write payload first, then the length word (readers run after all writers are done)
            *p.add(8) = tag;
            std::ptr::copy_nonoverlapping(payload.as_ptr(), p.add(9), payload.len());
            (&*(p as *const AtomicU64)).store(payload.len() as u64 + 1, Ordering::SeqCst);
        }
        true
    }

    pub fn records(&self) -> Vec<(u8, Vec<u8>)> {
        let mut out = vec![];
        let end = (self.log_off().load(Ordering::SeqCst) as usize).min(self.log_cap);
        let mut off = 0usize;
        while off + 9 <= end {
            let (len, tag, data) = unsafe {
                let p = self.log_base().add(off);
                let len = (&*(p as *const AtomicU64)).load(Ordering::SeqCst) as usize;
                if len == 0 || off + 8 + len > self.log_cap {
                    break;
                }
                let tag = *p.add(8);
                let data = std::slice::from_raw_parts(p.add(9), len - 1).to_vec();
                (len, tag, data)
            };
            out.push((tag, data));
            off += (8 + len + 7) & !7;
        }
        out
    }
}

impl Drop for Shm {
    fn drop(&mut self) {
        unsafe {
            libc::munmap(self.base as *mut libc::c_void, self.len);
        }
    }
}
