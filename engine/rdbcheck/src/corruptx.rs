//! Corruption mode (C15): for every offset of every persistent file of small databases and each
//! single-byte mutation, open the database and read everything: every result must be an error or
//! correct.

use std::collections::{BTreeMap, BTreeSet};
use std::path::PathBuf;
use std::sync::{Arc, Mutex};

use serde_json::{json, Value};

use raindb::{ReadOptions, DB};

use crate::crashx::History;
use crate::run::{run_once, Outcome};
use crate::sched::{Mode, Sched};
use crate::shm::*;
use crate::vfs::{Image, VerifFs};
use crate::world::*;

#[derive(Clone, Debug)]
pub struct BuiltImage {
    pub name: String,
    pub history: History,
    pub cfg: Cfg,
    pub image: Image,
    pub dirs: BTreeSet<PathBuf>,
    pub model: Model,
    /// every value ever written per key (lenient WAL clause)
    pub written: BTreeMap<Vec<u8>, BTreeSet<Vec<u8>>>,
}

/// Build the image by executing the history (inside an execution).
pub fn build_image(h: &History) -> Result<BuiltImage, String> {
    let mut w = World::new(h.cfgs.clone(), h.keys.clone(), true, Checks::default());
    w.open().map_err(|v| v.detail)?;
    let mut written: BTreeMap<Vec<u8>, BTreeSet<Vec<u8>>> = BTreeMap::new();
    for op in h.ops.iter() {
        if !w.enabled(op) {
            continue;
        }
        w.apply(op).map_err(|v| format!("{}: {}", v.clause, v.detail))?;
        for (k, v) in w.model.iter() {
            written.entry(k.clone()).or_default().insert(v.clone());
        }
    }
    let cfg = w.cfg;
    w.close();
    Ok(BuiltImage {
        name: h.name.clone(),
        history: h.clone(),
        cfg,
        image: w.fs.image(),
        dirs: w.fs.dirs(),
        model: w.model.clone(),
        written,
    })
}

#[derive(Clone, Copy, Debug, PartialEq, Eq)]
pub enum Mutation {
    FlipBit(u8),
    Zero,
    Ones,
    Inc,
    /// truncate the file to this length (offset field unused)
    Truncate,
}

impl Mutation {
    pub fn apply(&self, data: &mut Vec<u8>, off: usize) -> bool {
        match self {
            Mutation::FlipBit(b) => {
                data[off] ^= 1 << b;
                true
            }
            Mutation::Zero => {
                let c = data[off] != 0;
                data[off] = 0;
                c
            }
            Mutation::Ones => {
                let c = data[off] != 0xff;
                data[off] = 0xff;
                c
            }
            Mutation::Inc => {
                data[off] = data[off].wrapping_add(1);
                true
            }
            Mutation::Truncate => {
                let c = off < data.len();
                data.truncate(off);
                c
            }
        }
    }
    pub fn name(&self) -> String {
        match self {
            Mutation::FlipBit(b) => format!("flip bit {}", b),
            Mutation::Zero => "set 0x00".into(),
            Mutation::Ones => "set 0xff".into(),
            Mutation::Inc => "+1".into(),
            Mutation::Truncate => "truncate".into(),
        }
    }
}

#[derive(Clone, Debug)]
pub struct Case {
    pub image: usize,
    pub file: PathBuf,
    pub offset: usize,
    pub mutation: Mutation,
}

pub fn file_kind(p: &std::path::Path) -> &'static str {
    let n = p.file_name().map(|s| s.to_string_lossy().to_string()).unwrap_or_default();
    if n.ends_with(".log") {
        "wal"
    } else if n.ends_with(".rdb") {
        "table"
    } else if n.ends_with(".manifest") {
        "manifest"
    } else if n == "CURRENT" {
        "CURRENT"
    } else {
        "other"
    }
}

fn show_opt(v: &Option<Vec<u8>>) -> String {
    match v {
        Some(v) => show_val(v),
        None => "KeyNotFound".into(),
    }
}

/// Evaluate one mutated image inside an execution. Returns (class of outcome, violation).
pub fn eval_case(img: &BuiltImage, c: &Case) -> (String, Option<(String, String)>) {
    let mut image = img.image.clone();
    let data = image.get_mut(&c.file).expect("file in image");
    if !c.mutation.apply(data, c.offset) {
        return ("unchanged".into(), None);
    }
    let kind = file_kind(&c.file);
    let fs = VerifFs::from_image(&image, &img.dirs);
    let db = match DB::open(db_options(&fs, &img.cfg)) {
        Ok(db) => db,
        Err(_) => return ("open_error".into(), None),
    };
    let mut errors = 0usize;
    let lenient = kind == "wal";
    let ok_value = |k: &Vec<u8>, got: &Option<Vec<u8>>| -> bool {
        if *got == img.model.get(k).cloned() {
            return true;
        }
        if lenient {
            // damaged WAL records may be skipped: any value ever written to the key, or absence
            return match got {
                None => true,
                Some(v) => img.written.get(k).map(|s| s.contains(v)).unwrap_or(false),
            };
        }
        false
    };
    let mut viol: Option<(String, String)> = None;
    for k in img.history.keys.iter() {
        match db_get(&db, k, None) {
            Err(_) => errors += 1,
            Ok(got) => {
                if !ok_value(k, &got) {
                    let clause = match (&got, img.model.get(k)) {
                        (None, Some(_)) => "C15.silently_missing",
                        (Some(_), None) => "C15.resurrected",
                        _ => "C15.wrong_value",
                    };
                    viol = Some((
                        clause.into(),
                        format!("get({}) = {} without an error, but the uncorrupted database holds {}", esc(k), show_opt(&got), show_opt(&img.model.get(k).cloned())),
                    ));
                    break;
                }
            }
        }
    }
    if viol.is_none() {
        match db.new_iterator(ReadOptions::default()) {
            Err(_) => errors += 1,
            Ok(it) => {
                let mut it: DbIter = Box::new(it);
                for (dir, res) in [("forward", scan_forward(&mut it)), ("backward", scan_backward(&mut it))] {
                    match res {
                        Err(_) => errors += 1,
                        Ok(kv) => {
                            let want: Vec<(Vec<u8>, Vec<u8>)> = img.model.iter().map(|(k, v)| (k.clone(), v.clone())).collect();
                            let sorted = kv.windows(2).all(|w| w[0].0 < w[1].0);
                            let fine = if lenient {
                                sorted && kv.iter().all(|(k, v)| ok_value(k, &Some(v.clone())))
                            } else {
                                kv == want
                            };
                            if !fine {
                                // a scan that is sorted and made only of values once written to
                                // their keys has silently lost the damaged file's entries (stale
                                // or missing data); anything else is invented data
                                let only_written = sorted && kv.iter().all(|(k, v)| img.written.get(k).map(|s| s.contains(v)).unwrap_or(false));
                                viol = Some((
                                    if only_written { "C15.scan_silently_stale_or_missing".into() } else { "C15.scan_invented_data".into() },
                                    format!(
                                        "{} scan returned [{}] without an error, but the uncorrupted database holds [{}]",
                                        dir,
                                        kv.iter().map(|(k, v)| format!("{}={}", esc(k), show_val(v))).collect::<Vec<_>>().join(" "),
                                        want.iter().map(|(k, v)| format!("{}={}", esc(k), show_val(v))).collect::<Vec<_>>().join(" ")
                                    ),
                                ));
                                break;
                            }
                        }
                    }
                }
            }
        }
    }
    // cursor programs with a change of direction on fresh iterators: seek(t) then backwards to the
    // start, and seek(t) + one step back then forwards to the end. Each must either report an error
    // or deliver exactly the model's entries.
    if viol.is_none() && !lenient {
        let want: Vec<(Vec<u8>, Vec<u8>)> = img.model.iter().map(|(k, v)| (k.clone(), v.clone())).collect();
        'targets: for t in img.history.keys.iter() {
            for back_then_forward in [false, true] {
                let it = match db.new_iterator(ReadOptions::default()) {
                    Err(_) => {
                        errors += 1;
                        continue;
                    }
                    Ok(it) => it,
                };
                let mut it: DbIter = Box::new(it);
                let idx = want.iter().position(|(k, _)| k >= t).unwrap_or(want.len());
                let (res, expected) = if back_then_forward {
                    let expected: Vec<(Vec<u8>, Vec<u8>)> = if idx == want.len() {
                        want[want.len().saturating_sub(1)..].to_vec()
                    } else if idx == 0 {
                        vec![]
                    } else {
                        want[idx - 1..].to_vec()
                    };
                    (zigzag(&mut it, t, true), expected)
                } else {
                    let expected: Vec<(Vec<u8>, Vec<u8>)> = if idx == want.len() { vec![] } else { want[..=idx].iter().rev().cloned().collect() };
                    (zigzag(&mut it, t, false), expected)
                };
                match res {
                    Err(_) => errors += 1,
                    Ok(kv) => {
                        if kv != expected {
                            let only_written = kv.iter().all(|(k, v)| img.written.get(k).map(|s| s.contains(v)).unwrap_or(false));
                            viol = Some((
                                if only_written { "C15.scan_silently_stale_or_missing".into() } else { "C15.scan_invented_data".into() },
                                format!(
                                    "seek({}) then {} returned [{}] without an error, but on the uncorrupted database it yields [{}]",
                                    esc(t),
                                    if back_then_forward { "one step back and forwards to the end" } else { "backwards to the start" },
                                    kv.iter().map(|(k, v)| format!("{}={}", esc(k), show_val(v))).collect::<Vec<_>>().join(" "),
                                    expected.iter().map(|(k, v)| format!("{}={}", esc(k), show_val(v))).collect::<Vec<_>>().join(" ")
                                ),
                            ));
                            break 'targets;
                        }
                    }
                }
            }
        }
    }
    // the documented contract of a positioning call: "returns an error if there was an issue
    // seeking the target and sets the iterator to invalid". So after seek / seek_to_first /
    // seek_to_last returned Ok, a valid iterator stands on the right entry - judged at once, without
    // asking take_error (which a client only has reason to consult when the iterator became invalid)
    if viol.is_none() && !lenient {
        let want: Vec<(Vec<u8>, Vec<u8>)> = img.model.iter().map(|(k, v)| (k.clone(), v.clone())).collect();
        let mut calls: Vec<(String, Option<Vec<u8>>, u8)> = vec![("seek_to_first()".to_string(), None, 0), ("seek_to_last()".to_string(), None, 1)];
        for t in img.history.keys.iter() {
            calls.push((format!("seek({})", esc(t)), Some(t.clone()), 2));
        }
        for (name, target, how) in calls {
            let it = match db.new_iterator(ReadOptions::default()) {
                Err(_) => {
                    errors += 1;
                    continue;
                }
                Ok(it) => it,
            };
            let mut it: DbIter = Box::new(it);
            let r = match how {
                0 => it.seek_to_first(),
                1 => it.seek_to_last(),
                _ => it.seek(target.as_ref().unwrap()),
            };
            if r.is_err() {
                errors += 1;
                continue;
            }
            if !it.is_valid() {
                continue;
            }
            let expected: Option<(Vec<u8>, Vec<u8>)> = match how {
                0 => want.first().cloned(),
                1 => want.last().cloned(),
                _ => want.iter().find(|(k, _)| k >= target.as_ref().unwrap()).cloned(),
            };
            let got = it.current().map(|(k, v)| (k.clone(), v.clone()));
            if got != expected {
                let sh = |x: &Option<(Vec<u8>, Vec<u8>)>| x.as_ref().map(|(k, v)| format!("{}={}", esc(k), show_val(v))).unwrap_or("nothing".into());
                viol = Some((
                    "C15.positioned_on_wrong_entry_without_error".into(),
                    format!("{} returned Ok and left a valid iterator on {}, but on the uncorrupted database it stands on {}", name, sh(&got), sh(&expected)),
                ));
                break;
            }
        }
    }
    // a compaction must not launder the damage: after a manual compaction of everything (which may
    // fail) every get still fails or returns the model's value — entries of the damaged table must
    // not vanish so that overwritten or deleted data is served again
    if viol.is_none() && kind == "table" {
        db.compact_range(None..None);
        let dbg = std::env::var("RDBCHECK_DEBUG_CORRUPT").is_ok();
        if dbg {
            println!("    put after compaction -> {:?}", db.put(raindb::WriteOptions::default(), b"zz".to_vec(), b"1".to_vec()).err().map(|e| e.to_string()));
            println!("    off {} after compaction: layout {:?}", c.offset, db.verif_layout().iter().map(|l| l.iter().map(|f| f.number).collect::<Vec<_>>()).collect::<Vec<_>>());
        }
        for k in img.history.keys.iter() {
            match db_get(&db, k, None) {
                Err(e) => {
                    if dbg {
                        println!("    get({}) -> Err({})", esc(k), e);
                    }
                    errors += 1
                }
                Ok(got) => {
                    if !ok_value(k, &got) {
                        viol = Some((
                            "C15.compaction_served_stale_data".into(),
                            format!(
                                "after compact_range(..) over the damaged table get({}) = {} without an error, but the uncorrupted database holds {}",
                                esc(k),
                                show_opt(&got),
                                show_opt(&img.model.get(k).cloned())
                            ),
                        ));
                        break;
                    }
                }
            }
        }
    }
    drop(db);
    (if errors > 0 { "read_error".into() } else { "all_correct".into() }, viol)
}

/// seek(t), then either backwards to the start (`back_then_forward` false) or one step back (from
/// the last entry when the seek ran off the end) and forwards to the end.
fn zigzag(it: &mut DbIter, t: &[u8], back_then_forward: bool) -> Result<Vec<(Vec<u8>, Vec<u8>)>, String> {
    let mut out = vec![];
    it.seek(&t.to_vec()).map_err(|e| e.to_string())?;
    if back_then_forward {
        if it.is_valid() {
            it.prev();
        } else {
            if let Some(e) = it.take_error() {
                return Err(e.to_string());
            }
            it.seek_to_last().map_err(|e| e.to_string())?;
        }
    }
    while it.is_valid() {
        let (k, v) = it.current().ok_or_else(|| "valid iterator without current".to_string())?;
        out.push((k.clone(), v.clone()));
        if out.len() > 10_000 {
            return Err("scan does not terminate".into());
        }
        if back_then_forward {
            it.next();
        } else {
            it.prev();
        }
    }
    if let Some(e) = it.take_error() {
        return Err(e.to_string());
    }
    Ok(out)
}

/// Role of a byte in a log-format file (WAL / manifest), from the documented physical layout.
pub fn log_byte_role(data: &[u8], off: usize) -> &'static str {
    const B: usize = 32768;
    const H: usize = 7;
    let mut pos = 0usize;
    while pos < data.len() {
        let left = B - pos % B;
        if left < H {
            if off < pos + left {
                return "trailer";
            }
            pos += left;
            continue;
        }
        if pos + H > data.len() {
            return "partial header";
        }
        let len = u16::from_le_bytes([data[pos + 4], data[pos + 5]]) as usize;
        if off < pos + 4 {
            return "header.crc";
        }
        if off < pos + 6 {
            return "header.length";
        }
        if off < pos + 7 {
            return "header.type";
        }
        if off < pos + H + len {
            return "payload";
        }
        pos += H + len;
    }
    "beyond"
}

pub fn case_json(imgs: &[BuiltImage], c: &Case) -> Value {
    let kind = file_kind(&c.file);
    let role = if kind == "wal" || kind == "manifest" {
        imgs[c.image].image.get(&c.file).map(|d| log_byte_role(d, c.offset)).unwrap_or("?")
    } else {
        "-"
    };
    json!({
        "byte_role": role,
        "image": imgs[c.image].name,
        "file": c.file.file_name().map(|s| s.to_string_lossy().to_string()),
        "file_kind": file_kind(&c.file),
        "offset": c.offset,
        "file_len": imgs[c.image].image.get(&c.file).map(|d| d.len()),
        "mutation": c.mutation.name(),
    })
}

fn push(shm: &Shm, imgs: &[BuiltImage], c: &Case, clause: &str, detail: &str) {
    shm.add(C_VIOLATIONS, 1);
    let v = json!({"clause": clause, "detail": detail, "case": case_json(imgs, c), "ops": imgs[c.image].history.ops_str()});
    shm.push_record(b'V', v.to_string().as_bytes());
}

/// Evaluate a chunk of cases in this process; progress is published in `slot`.
pub fn corrupt_job(imgs: &Arc<Vec<BuiltImage>>, cases: &Arc<Vec<Case>>, range: (usize, usize), shm: &Arc<Shm>, slot: usize) {
    let mut start = range.0;
    while start < range.1 {
        let imgs2 = Arc::clone(imgs);
        let cases2 = Arc::clone(cases);
        let shm2 = Arc::clone(shm);
        let s = Sched::new(Mode::Fixed);
        let first = start;
        let end = range.1;
        let cur: Arc<Mutex<usize>> = Arc::new(Mutex::new(first));
        let cur2 = Arc::clone(&cur);
        let out = run_once(&s, move || {
            for i in first..end {
                *cur2.lock().unwrap() = i;
                shm2.counter(slot).store(i as u64 + 1, std::sync::atomic::Ordering::SeqCst);
                shuttle::current::reset_step_count();
                let c = &cases2[i];
                let (class, viol) = eval_case(&imgs2[c.image], c);
                shm2.add(C_CASES, 1);
                match class.as_str() {
                    "unchanged" => {}
                    "all_correct" => {
                        shm2.add(C_USER + 900, 1);
                    }
                    "open_error" => {
                        shm2.add(C_NONTRIVIAL, 1);
                        shm2.add(C_USER + 901, 1);
                    }
                    _ => {
                        shm2.add(C_NONTRIVIAL, 1);
                        shm2.add(C_USER + 902, 1);
                    }
                }
                if let Some((clause, detail)) = viol {
                    push(&shm2, &imgs2, c, &clause, &detail);
                }
            }
        });
        match out {
            Some(Outcome::Ok) | None => break,
            Some(o) => {
                let i = *cur.lock().unwrap();
                let (clause, detail) = match o {
                    Outcome::Panic { msg, .. } => ("C15.panic".to_string(), format!("panic while opening/reading the corrupted database: {}", msg)),
                    Outcome::Deadlock(m) => ("C15.hang".to_string(), m),
                    Outcome::StepBound => ("C15.hang".to_string(), "step bound exceeded".into()),
                    Outcome::Divergence(m) => ("machinery.divergence".to_string(), m),
                    Outcome::Ok => unreachable!(),
                };
                shm.add(C_CASES, 1);
                shm.add(C_NONTRIVIAL, 1);
                push(shm, imgs, &cases[i], &clause, &detail);
                start = i + 1;
            }
        }
    }
}

pub fn parse_found(shm: &Shm) -> Vec<(String, String, Value, Vec<String>)> {
    let mut out = vec![];
    for (tag, data) in shm.records() {
        if tag == b'V' {
            if let Ok(v) = serde_json::from_slice::<Value>(&data) {
                out.push((
                    v["clause"].as_str().unwrap_or("").to_string(),
                    v["detail"].as_str().unwrap_or("").to_string(),
                    v["case"].clone(),
                    v["ops"].as_array().map(|a| a.iter().map(|x| x.as_str().unwrap_or("").to_string()).collect()).unwrap_or_default(),
                ));
            }
        }
    }
    out
}
