//! Evidence, replay artefacts, known-findings matching and the process exit protocol.
//!
//! exit 0: property held on everything explored (known findings are printed, not alarms)
//! exit 1: at least one violation that `known_findings.json` does not list
//! exit 2: machinery failure (replay divergence, worker crash, ...): never a verdict

use std::collections::BTreeMap;
use std::path::PathBuf;
use std::time::Instant;

use serde_json::{json, Map, Value};

static REPLAY: std::sync::Mutex<Option<(String, Value)>> = std::sync::Mutex::new(None);

/// `--replay <file>`: the parsed counterexample the run_* functions look for instead of exploring.
pub fn set_replay(path: &str, v: Value) {
    *REPLAY.lock().unwrap() = Some((path.to_string(), v));
}

pub fn replay_request(explorer: &str) -> Option<Value> {
    let g = REPLAY.lock().unwrap();
    match g.as_ref() {
        Some((_, v)) if v["artefact"]["explorer"].as_str() == Some(explorer) => Some(v.clone()),
        _ => None,
    }
}

pub fn replay_active() -> bool {
    REPLAY.lock().unwrap().is_some()
}

/// Report the outcome of a replay and exit: 1 if a violation reproduced, 0 otherwise.
pub fn replay_done(result: Option<(String, String)>) -> ! {
    let (path, v) = REPLAY.lock().unwrap().clone().unwrap();
    let prop = v["property"].as_str().unwrap_or("?").to_string();
    let expected = v["clause"].as_str().unwrap_or("").to_string();
    match result {
        Some((clause, detail)) => {
            println!("VIOLATION property={} replay={}", prop, path);
            println!("  clause={} (recorded: {})", clause, expected);
            println!("  {}", detail.chars().take(600).collect::<String>());
            std::process::exit(1);
        }
        None => {
            println!("NOT-REPRODUCED property={} replay={} (recorded clause {}): the replayed execution satisfies the oracle on this tree", prop, path, expected);
            std::process::exit(0);
        }
    }
}

pub fn verif_root() -> PathBuf {
    PathBuf::from(std::env::var("VERIF_ROOT").unwrap_or_else(|_| "/verif".to_string()))
}

#[derive(Clone, Debug)]
pub struct Finding {
    pub clause: String,
    pub detail: String,
    /// human-readable operation list / program / history label (used by known-finding matching)
    pub ops: Vec<String>,
    /// everything needed to replay
    pub artefact: Value,
}

pub struct Report {
    pub property: String,
    pub tier: String,
    pub level: &'static str,
    pub coverage: Map<String, Value>,
    pub assumptions: Vec<String>,
    pub findings: Vec<Finding>,
    /// violations counted but not individually listed (beyond caps)
    pub extra_violations: u64,
    /// findings that reproduced identically when replayed from scratch
    pub validated_findings: u64,
    pub machinery: Vec<String>,
    pub t0: Instant,
    pub seed: i64,
}

fn fnv(s: &str) -> u64 {
    let mut h: u64 = 0xcbf29ce484222325;
    for b in s.bytes() {
        h ^= b as u64;
        h = h.wrapping_mul(0x100000001b3);
    }
    h
}

impl Report {
    pub fn new(property: &str, tier: &str, level: &'static str) -> Self {
        let seed = std::env::var("VERIF_SEED").ok().and_then(|s| s.parse().ok()).unwrap_or(0);
        Report {
            property: property.to_string(),
            tier: tier.to_string(),
            level,
            coverage: Map::new(),
            assumptions: vec![],
            findings: vec![],
            extra_violations: 0,
            validated_findings: 0,
            machinery: vec![],
            t0: Instant::now(),
            seed,
        }
    }

    pub fn cov(&mut self, k: &str, v: Value) {
        self.coverage.insert(k.to_string(), v);
    }

    pub fn cov_add(&mut self, k: &str, n: u64) {
        let cur = self.coverage.get(k).and_then(|v| v.as_u64()).unwrap_or(0);
        self.coverage.insert(k.to_string(), json!(cur + n));
    }

    pub fn cov_push(&mut self, k: &str, v: Value) {
        let e = self.coverage.entry(k.to_string()).or_insert_with(|| json!([]));
        if let Some(a) = e.as_array_mut() {
            a.push(v);
        }
    }

    pub fn assume(&mut self, s: &str) {
        self.assumptions.push(s.to_string());
    }

    fn load_known(&self) -> Vec<Value> {
        let p = verif_root().join("known_findings.json");
        match std::fs::read_to_string(&p) {
            Ok(s) => match serde_json::from_str::<Value>(&s) {
                Ok(v) => v["known"].as_array().cloned().unwrap_or_default(),
                Err(e) => {
                    eprintln!("known_findings.json is not valid JSON: {}", e);
                    std::process::exit(2);
                }
            },
            Err(_) => vec![],
        }
    }

    fn matches(entry: &Value, property: &str, f: &Finding) -> bool {
        if entry["property"].as_str() != Some(property) {
            return false;
        }
        if let Some(c) = entry["clause"].as_str() {
            if c != f.clause {
                return false;
            }
        }
        if let Some(d) = entry["detail_contains"].as_str() {
            if !f.detail.contains(d) {
                return false;
            }
        }
        if let Some(o) = entry["ops_contains"].as_str() {
            if !f.ops.iter().any(|x| x.contains(o)) {
                return false;
            }
        }
        // corruption cases: image / file kind / offsets of the mutated byte
        if let Some(img) = entry["case_image"].as_str() {
            if f.artefact["case"]["image"].as_str() != Some(img) {
                return false;
            }
        }
        if let Some(k) = entry["case_file_kind"].as_str() {
            if f.artefact["case"]["file_kind"].as_str() != Some(k) {
                return false;
            }
        }
        if let Some(roles) = entry["case_byte_roles"].as_array() {
            let r = f.artefact["case"]["byte_role"].as_str();
            if !roles.iter().any(|x| x.as_str() == r && r.is_some()) {
                return false;
            }
        }
        if let Some(clauses) = entry["clause_in"].as_array() {
            if !clauses.iter().any(|x| x.as_str() == Some(f.clause.as_str())) {
                return false;
            }
        }
        if let Some(offs) = entry["case_offsets"].as_array() {
            let o = f.artefact["case"]["offset"].as_u64();
            if !offs.iter().any(|x| x.as_u64() == o && o.is_some()) {
                return false;
            }
        }
        if let Some(o) = entry["last_op"].as_str() {
            if f.ops.last().map(|x| x.as_str()) != Some(o) {
                return false;
            }
        }
        true
    }

    /// Write evidence + replay files, print the verdict lines, exit.
    pub fn finish(mut self) -> ! {
        if replay_active() {
            println!("MACHINERY-ERROR: the replay target was not found among the checks of {}", self.property);
            std::process::exit(2);
        }
        // worker processes ended by the progress watchdog: the subject does not terminate
        let hangs: Vec<String> = self.machinery.iter().filter(|m| m.contains(NO_PROGRESS)).cloned().collect();
        self.machinery.retain(|m| !m.contains(NO_PROGRESS));
        for h in hangs.iter().take(20) {
            self.findings.push(Finding {
                clause: format!("{}.no_progress", self.property),
                detail: h.replace(NO_PROGRESS, ""),
                ops: vec!["worker process ended by the progress watchdog".to_string()],
                artefact: json!({"explorer": "watchdog", "note": "re-run the check to reproduce; the job index identifies the history / case chunk"}),
            });
            self.validated_findings += 1;
        }
        let known = self.load_known();
        let root = verif_root();
        let _ = std::fs::create_dir_all(root.join("evidence"));
        let _ = std::fs::create_dir_all(root.join("replays"));
        let mut known_hits: BTreeMap<String, (u64, String)> = BTreeMap::new();
        let mut unknown: Vec<&Finding> = vec![];
        for f in self.findings.iter() {
            match known.iter().find(|e| Report::matches(e, &self.property, f)) {
                Some(e) => {
                    let id = e["id"].as_str().unwrap_or("?").to_string();
                    let what = e["what"].as_str().unwrap_or("").to_string();
                    known_hits.entry(id).or_insert((0, what)).0 += 1;
                }
                None => unknown.push(f),
            }
        }
        // replay artefacts of earlier runs of this property are stale
        if let Ok(rd) = std::fs::read_dir(root.join("replays")) {
            for e in rd.flatten() {
                if e.file_name().to_string_lossy().starts_with(&format!("{}-", self.property)) {
                    let _ = std::fs::remove_file(e.path());
                }
            }
        }
        let mut lines = vec![];
        for (id, (n, what)) in known_hits.iter() {
            lines.push(format!("KNOWN-FINDING: property={} {} [{}] ({} occurrences in this run)", self.property, what, id, n));
        }
        let mut replay_paths = vec![];
        // list at most 3 per clause (shortest first), 12 in total
        unknown.sort_by_key(|f| f.ops.len());
        let mut per_clause: BTreeMap<String, usize> = BTreeMap::new();
        let listed: Vec<&Finding> = unknown
            .iter()
            .copied()
            .filter(|f| {
                let c = per_clause.entry(f.clause.clone()).or_insert(0);
                *c += 1;
                *c <= 3
            })
            .take(12)
            .collect();
        for f in listed.iter() {
            let body = json!({
                "property": self.property,
                "tier": self.tier,
                "clause": f.clause,
                "detail": f.detail,
                "ops": f.ops,
                "artefact": f.artefact,
            });
            let text = serde_json::to_string_pretty(&body).unwrap();
            let name = format!("{}-{:016x}.json", self.property, fnv(&format!("{}{:?}{}", f.clause, f.ops, f.artefact)));
            let path = root.join("replays").join(name);
            let _ = std::fs::write(&path, text);
            lines.push(format!("VIOLATION property={} replay={}", self.property, path.display()));
            lines.push(format!("  clause={} ops={:?}", f.clause, f.ops));
            lines.push(format!("  {}", f.detail.chars().take(400).collect::<String>()));
            replay_paths.push(path.display().to_string());
        }
        let n_unknown = unknown.len() as u64 + self.extra_violations;
        let wall = self.t0.elapsed().as_secs_f64();
        self.coverage.insert("known_findings_hit".into(), json!(known_hits.keys().collect::<Vec<_>>()));
        if !self.machinery.is_empty() {
            self.coverage.insert("machinery_errors".into(), json!(self.machinery));
        }
        let ev = json!({
            "property_id": self.property,
            "tier": self.tier,
            "seed": self.seed,
            "level": self.level,
            "coverage": Value::Object(self.coverage.clone()),
            "assumptions": self.assumptions,
            "wall_s": (wall * 100.0).round() / 100.0,
            "violations": n_unknown,
        });
        let evp = root.join("evidence").join(format!("{}.json", self.property));
        if let Err(e) = std::fs::write(&evp, serde_json::to_string_pretty(&ev).unwrap()) {
            eprintln!("cannot write evidence {}: {}", evp.display(), e);
            std::process::exit(2);
        }
        for l in lines.iter() {
            println!("{}", l);
        }
        if !self.machinery.is_empty() {
            // a violation that reproduced on replay is a verdict even if other parts of the run
            // had machinery trouble (typically caused by the same defect: aborts, divergence of
            // executions that corrupt shared state); without one there is no verdict
            let verdict_stands = n_unknown > 0 && self.validated_findings > 0;
            for m in self.machinery.iter().take(10) {
                println!("{}: {}", if verdict_stands { "MACHINERY-WARNING" } else { "MACHINERY-ERROR" }, m);
            }
            if !verdict_stands {
                println!("RESULT property={} tier={} machinery failure (no verdict) wall={:.1}s", self.property, self.tier, wall);
                std::process::exit(2);
            }
        }
        if n_unknown > 0 {
            println!(
                "RESULT property={} tier={} violations={} (listed {}) known={} wall={:.1}s",
                self.property,
                self.tier,
                n_unknown,
                replay_paths.len(),
                known_hits.len(),
                wall
            );
            std::process::exit(1);
        }
        println!(
            "RESULT property={} tier={} held on everything explored; known_findings={} wall={:.1}s evidence={}",
            self.property,
            self.tier,
            known_hits.len(),
            wall,
            evp.display()
        );
        std::process::exit(0);
    }
}

/// A call that panics, aborts the process, deadlocks or never returns prevents every property from
/// being observed on that path: these clauses count as violations of whichever property's check
/// ran into them (they never occur on a tree on which C09 holds).
pub fn is_fatal_clause(c: &str) -> bool {
    matches!(c, "C09.livelock" | "C09.deadlock" | "C09.panic" | "C09.bg_panic" | "crash.abort")
}

/// Prefix of an entry of `Report::machinery` that is in fact a verdict: a worker process was ended
/// by the progress watchdog (the subject does not terminate).
pub const NO_PROGRESS: &str = "NO-PROGRESS: ";

/// Thorough budgets in the sources are nominal; they are multiplied by this factor (default 0.4,
/// override with RDBCHECK_THOROUGH_SCALE) so that a full thorough pass over the 17 properties
/// stays within a working day even when every component runs into its cap.
pub fn thorough_scale() -> f32 {
    std::env::var("RDBCHECK_THOROUGH_SCALE").ok().and_then(|s| s.parse().ok()).unwrap_or(0.4)
}

pub fn scaled(d: std::time::Duration) -> std::time::Duration {
    d.mul_f32(thorough_scale())
}
