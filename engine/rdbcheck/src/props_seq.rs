//! Property checks decided by the sequence explorer (`seqx`): C01 C03 C04 C07 C09 C10 C11.

use std::sync::Arc;
use std::time::{Duration, Instant};

use serde_json::{json, Value};

use crate::report::{Finding, Report};
use crate::seqx::{self, SeqSpec};
use crate::world::*;

pub fn k3() -> Vec<Vec<u8>> {
    vec![b"c".to_vec(), b"e".to_vec(), b"f".to_vec()]
}

/// like `k3` but the first key is long enough for its index separator to be shortened ("caa" vs
/// "e" -> "d"), so targets in the gap between a block's last key and its index key exist
pub fn k3s() -> Vec<Vec<u8>> {
    vec![b"caa".to_vec(), b"e".to_vec(), b"f".to_vec()]
}

/// "caa" < "cab" < "e": a file holding caa and e (one entry per block) has the index separator
/// "d" after caa's block, so a lookup of cab — stored in an older file only — runs off the end of
/// that block without leaving the file's range
pub fn k3g() -> Vec<Vec<u8>> {
    vec![b"caa".to_vec(), b"cab".to_vec(), b"e".to_vec()]
}

/// `k3` plus a key that is never written ("d", between c and e): reads of it exhaust the allowed
/// seeks of level-0 files whose range covers it without containing it (seek-triggered compaction)
pub fn k4() -> Vec<Vec<u8>> {
    vec![b"c".to_vec(), b"e".to_vec(), b"f".to_vec(), b"d".to_vec()]
}

pub fn k2() -> Vec<Vec<u8>> {
    vec![b"c".to_vec(), b"e".to_vec()]
}

pub fn k5() -> Vec<Vec<u8>> {
    vec![vec![], vec![0x00], b"a".to_vec(), vec![b'a', 0xff], vec![0xff]]
}

/// A1: put k (3), delete k (3), apply{put k1, put k2} (3 pairs), compact_range(None..None)
pub fn a1() -> Vec<Op> {
    vec![
        Op::Put(0, 0),
        Op::Put(1, 0),
        Op::Put(2, 0),
        Op::Del(0),
        Op::Del(1),
        Op::Del(2),
        Op::Batch(vec![(0, true), (1, true)]),
        Op::Batch(vec![(0, true), (2, true)]),
        Op::Batch(vec![(1, true), (2, true)]),
        Op::Compact(None, None),
    ]
}

/// put/delete on two keys + full compaction (5 operations)
pub fn a_small2() -> Vec<Op> {
    vec![Op::Put(0, 0), Op::Put(1, 0), Op::Del(0), Op::Del(1), Op::Compact(None, None)]
}

pub fn cfgs(names: &[&str]) -> Vec<Cfg> {
    names.iter().map(|n| Cfg::parse(n).unwrap_or_else(|| panic!("bad cfg {}", n))).collect()
}

pub fn workers() -> usize {
    std::env::var("RDBCHECK_WORKERS")
        .ok()
        .and_then(|s| s.parse().ok())
        .unwrap_or_else(|| std::thread::available_parallelism().map(|n| n.get()).unwrap_or(8).min(16))
}

pub fn spec(name: &str, cfg_names: &[&str], keys: Vec<Vec<u8>>, alphabet: Vec<Op>, depth: usize, checks: Checks) -> SeqSpec {
    SeqSpec {
        name: name.to_string(),
        cfgs: cfgs(cfg_names),
        keys,
        alphabet,
        depth,
        eager: true,
        prefer_high: false,
        checks,
        post_flush: false,
        extra: None,
        extra_param: 0,
        setup: vec![],
    }
}

impl SeqSpec {
    pub fn flush(mut self) -> Self {
        self.post_flush = true;
        self
    }
    pub fn lazy(mut self) -> Self {
        self.eager = false;
        self.name = format!("{}/lazy", self.name);
        self
    }
    pub fn bgfirst(mut self) -> Self {
        self.prefer_high = true;
        self.name = format!("{}/bgfirst", self.name);
        self
    }
    pub fn with_extra(mut self, f: seqx::ExtraCheck) -> Self {
        self.extra = Some(f);
        self
    }
    pub fn with_setup(mut self, ops: Vec<Op>) -> Self {
        self.setup = ops;
        self
    }
    pub fn with_param(mut self, p: usize) -> Self {
        self.extra_param = p;
        self
    }
}

pub const READS: Checks = Checks {
    reads: true,
    scan: false,
    snapshots: false,
    layout: false,
    files: false,
    diff: false,
};

pub fn checks(reads: bool, scan: bool, snapshots: bool, layout: bool, files: bool, diff: bool) -> Checks {
    Checks {
        reads,
        scan,
        snapshots,
        layout,
        files,
        diff,
    }
}

/// Explore all families, validate findings by plain re-execution, fill the report.
/// `remap`: optional clause filter — only findings whose clause passes are verdicts of *this*
/// property; others (e.g. a hang seen by a C01 run) are recorded as observations.
pub fn run_families(rep: &mut Report, families: Vec<SeqSpec>, budget: Duration, own_clause: fn(&str) -> bool) {
    let t0 = Instant::now();
    let mut states = 0u64;
    let mut transitions = 0u64;
    let mut nodes = 0u64;
    let mut all_exhaustive = true;
    let mut fam_reports: Vec<Value> = vec![];
    let mut samples: Vec<Value> = vec![];
    let mut outcomes: std::collections::BTreeMap<String, u64> = Default::default();
    let mut observations: std::collections::BTreeMap<String, u64> = Default::default();
    let w = workers();
    if let Some(req) = crate::report::replay_request("seqx") {
        let want = req["artefact"]["family"]["family"].as_str().unwrap_or("").to_string();
        let path: Vec<usize> = req["artefact"]["path"].as_array().map(|a| a.iter().map(|x| x.as_u64().unwrap_or(0) as usize).collect()).unwrap_or_default();
        for fam in families.iter() {
            if fam.name == want && req["artefact"]["family"]["depth"].as_u64().map(|d| d as usize >= path.len()).unwrap_or(true) {
                let r = seqx::replay_path_isolated(&Arc::new(fam.clone()), &path);
                crate::report::replay_done(r);
            }
        }
        return;
    }
    if crate::report::replay_active() {
        return;
    }
    let only = std::env::var("RDBCHECK_ONLY").ok();
    let families: Vec<SeqSpec> = families.into_iter().filter(|f| only.as_ref().map(|o| f.name.contains(o.as_str())).unwrap_or(true)).collect();
    let n_fams = families.len();
    for (fi, fam) in families.into_iter().enumerate() {
        // fair share: a family may use three times the remaining budget divided by the number of
        // families still to run (what a family leaves unused rolls over to the later ones), so a
        // deep early family cannot starve the rest
        let end = t0 + budget;
        let now = Instant::now();
        let remaining = if end > now { end - now } else { Duration::from_secs(0) };
        let share = (remaining * 4 / ((n_fams - fi) as u32)).min(remaining);
        let deadline = now + share;
        let desc = fam.describe();
        let fam_arc = Arc::new(fam.clone());
        let r = seqx::explore(fam, w, Some(deadline));
        states += r.states;
        transitions += r.transitions;
        nodes += r.nodes;
        if r.capped {
            all_exhaustive = false;
        }
        for s in r.samples.iter().take(3) {
            samples.push(s.clone());
        }
        if r.machinery_errors > 0 {
            rep.machinery.push(format!("{}: {} machinery errors (worker crash / fork failure / divergence)", fam_arc.name, r.machinery_errors));
        }
        if r.log_dropped > 0 {
            rep.extra_violations += r.log_dropped;
        }
        // validate: per clause the 2 shortest findings are re-executed twice from scratch
        let mut per_clause: std::collections::BTreeMap<String, Vec<&seqx::Found>> = Default::default();
        for f in r.found.iter() {
            per_clause.entry(f.clause.clone()).or_default().push(f);
        }
        let mut validated = 0u64;
        for (clause, fs) in per_clause.iter() {
            for f in fs.iter().take(2) {
                let a = seqx::replay_path_isolated(&fam_arc, &f.path);
                let b = seqx::replay_path_isolated(&fam_arc, &f.path);
                let ok = matches!((&a, &b), (Some((ca, _)), Some((cb, _))) if ca == clause && cb == clause);
                if ok {
                    validated += 1;
                    rep.validated_findings += 1;
                } else {
                    rep.machinery.push(format!(
                        "{}: finding {:?} {} did not reproduce identically on plain re-execution: {:?} / {:?}",
                        fam_arc.name, f.ops, clause, a, b
                    ));
                }
            }
        }
        for f in r.found.iter() {
            *outcomes.entry(f.clause.clone()).or_default() += 1;
            if own_clause(&f.clause) || crate::report::is_fatal_clause(&f.clause) {
                if rep.findings.len() < 2000 {
                    rep.findings.push(Finding {
                        clause: f.clause.clone(),
                        detail: f.detail.clone(),
                        ops: f.ops.clone(),
                        artefact: json!({"explorer": "seqx", "family": desc, "path": f.path}),
                    });
                } else {
                    rep.extra_violations += 1;
                }
            } else {
                *observations.entry(f.clause.clone()).or_default() += 1;
            }
        }
        fam_reports.push(json!({
            "family": desc,
            "nodes": r.nodes,
            "distinct_abstract_states": r.states,
            "operations_executed": r.transitions,
            "root_executions": r.executions,
            "scheduler_steps": r.steps,
            "disabled_operation_instances": r.disabled_ops,
            "completed": !r.capped,
            "findings": r.found.len(),
            "findings_revalidated_by_plain_reexecution": validated,
            "shape": r.shape,
            "wall_s": (r.wall_s * 10.0).round() / 10.0,
        }));
    }
    rep.cov_add("states", states);
    rep.cov_add("transitions", transitions);
    rep.cov_add("traces_validated_against_impl", nodes);
    let prev = rep.coverage.get("exhaustive").and_then(|v| v.as_bool()).unwrap_or(true);
    rep.cov("exhaustive", json!(prev && all_exhaustive));
    for f in fam_reports {
        rep.cov_push("families", f);
    }
    for s in samples {
        rep.cov_push("samples", s);
    }
    let mut o = rep.coverage.get("finding_classes").cloned().unwrap_or(json!({}));
    for (k, v) in outcomes {
        o[k] = json!(v);
    }
    rep.cov("finding_classes", o);
    if !observations.is_empty() {
        rep.cov("observations_belonging_to_other_properties", json!(observations));
    }
}

fn thorough(tier: &str) -> bool {
    tier == "thorough"
}

fn budget(tier: &str) -> Duration {
    let secs = std::env::var("RDBCHECK_BUDGET_S").ok().and_then(|s| s.parse().ok());
    match (secs, tier) {
        (Some(s), _) => Duration::from_secs(s),
        (None, "thorough") => crate::report::scaled(Duration::from_secs(3000)),
        _ => Duration::from_secs(45),
    }
}

const SEQ_ASSUMPTIONS: &[&str] = &[
    "single client; background work runs under the deterministic schedules lazy/eager (client until it blocks, then background until it blocks; eager additionally drains background work after every operation); other interleavings are the subject of C05/C06",
    "parking_lot is replaced by the shuttle-backed shim for the checker build; filesystem is the harness-owned in-memory VerifFs",
    "bounds: operation alphabet, key set, configurations and depth as listed under families",
];

fn finish_common(rep: &mut Report) {
    for a in SEQ_ASSUMPTIONS {
        rep.assume(a);
    }
    rep.cov(
        "state_definition",
        json!("hash of (model contents, per-level file key ranges and sizes, memtable + immutable memtable entries, live snapshots' frozen models, held iterator, configuration)"),
    );
}

fn reopen_ops(n: usize) -> Vec<Op> {
    (0..n).map(|i| Op::Reopen(i as u8)).collect()
}

// ------------------------------------------------------------------------------------------------
// C01
// ------------------------------------------------------------------------------------------------

pub fn c01_families(tier: &str) -> Vec<SeqSpec> {
    let t = thorough(tier);
    let mut v = vec![];
    // F-flush: every mutating op followed by a flush
    // (quick: depth 4 over the full alphabet plus depth 6 over two keys, so that every family of
    // the list fits the quick budget; the depth-5 state that exposed H1 lies inside the second one)
    v.push(spec("F-flush/T300", &["T300"], k3(), a1(), if t { 7 } else { 4 }, READS).flush());
    v.push(spec("F-flush2/T300", &["T300"], k2(), a_small2(), if t { 9 } else { 6 }, READS).flush());
    v.push(spec("F-flush/T1", &["T1"], k3s(), a1(), if t { 6 } else { 4 }, READS).flush());
    // Bloom filters built under one bits_per_key and read under another after a reopen; gap keys
    // (lookups of absent keys go through the filters)
    let mut abl = a1();
    abl.extend(reopen_ops(3));
    v.push(spec("F-bloom-reopen", &["T300b2", "T300b30", "T300"], k3g(), abl, if t { 5 } else { 3 }, READS).flush());
    // the filter policy itself changed across a reopen (Bloom <-> a policy of another name): the
    // filter blocks of older tables do not belong to the configured policy and must be ignored
    let mut apol = a1();
    apol.extend(reopen_ops(3));
    v.push(spec("F-policy-reopen", &["T300", "T300p", "T300b30"], k3g(), apol, if t { 5 } else { 3 }, READS).flush());
    // keys longer than a block (4500 bytes), one a prefix of the other
    v.push(
        spec(
            "F-longkeys/T300",
            &["T300b30", "T300"],
            vec![vec![b'c'; 4500], [vec![b'c'; 4500], b"d".to_vec()].concat(), b"e".to_vec()],
            {
                let mut a = a1();
                a.extend(reopen_ops(2));
                a
            },
            if t { 4 } else { 3 },
            READS,
        )
        .flush(),
    );
    // keys longer than a WAL block (40000 bytes): every WAL record, table index entry and version
    // edit that carries such a key spans several 32 KiB log blocks / is larger than any block limit
    v.push(
        spec(
            "F-hugekeys",
            &["T300", "Dn"],
            vec![vec![b'c'; 40_000], [vec![b'c'; 40_000], b"d".to_vec()].concat(), b"e".to_vec()],
            {
                let mut a = a1();
                a.extend(reopen_ops(2));
                a
            },
            if t { 4 } else { 3 },
            READS,
        )
        .flush(),
    );
    // a block cache of two entries: every block read evicts another block
    v.push(spec("F-flush/T300c", &["T300c"], k3s(), a1(), if t { 6 } else { 4 }, READS).flush());
    // gap keys + a filter that lets every lookup through (see `k3g`)
    v.push(spec("F-gap/T300p", &["T300p", "T1p"], k3g(), a1(), if t { 6 } else { 4 }, READS).flush());
    // F-reopen: reopen with configuration change, ranged compaction, quiesce
    let mut ar = a1();
    ar.extend(reopen_ops(4));
    ar.push(Op::Compact(Some(0), Some(1)));
    ar.push(Op::Flush);
    v.push(spec("F-reopen", &["T300", "T300n", "T1n", "M2"], k3(), ar.clone(), if t { 5 } else { 3 }, READS).flush());
    v.push(spec("F-reopen/noflush", &["T300n", "T300", "M2n", "T1"], k3(), ar, if t { 5 } else { 3 }, READS).lazy());
    // F-fill: flush by filling the memtable
    v.push(spec("F-fill/M2", &["M2"], k3s(), a1(), if t { 6 } else { 4 }, READS));
    v.push(spec("F-fill/M2", &["M2"], k3(), a1(), if t { 6 } else { 4 }, READS).lazy());
    // R: every second write rotates, so with the lazy policy reads happen while an immutable
    // memtable (e.g. holding a tombstone above a flushed value) is pending
    v.push(spec("F-fill/R", &["R"], k3(), a1(), if t { 6 } else { 4 }, READS).lazy());
    // zero as the file-size and block-size limit, zero Bloom bits per key
    v.push(spec("F-flush/Z", &["Z", "Zb0"], k3(), { let mut a = a1(); a.extend(reopen_ops(2)); a }, if t { 5 } else { 3 }, READS).flush());
    // a memtable budget of one byte: every write rotates (also an empty memtable)
    v.push(spec("F-fill/M0", &["M0", "M0n"], k3(), { let mut a = a1(); a.extend(reopen_ops(2)); a }, if t { 5 } else { 3 }, READS).lazy());
    // the largest file and block sizes the option types admit ("no limit")
    v.push(spec("F-flush/MAX", &["MAX", "MAXn"], k3(), { let mut a = a1(); a.extend(reopen_ops(2)); a }, if t { 5 } else { 3 }, READS).flush());
    if t {
        v.push(spec("F-fill/M2", &["M2"], k3(), a1(), 6, READS).bgfirst());
    }
    // F-bytes: byte-string family and value classes
    let mut ab = vec![];
    for k in 0..5u8 {
        for c in 0..3u8 {
            ab.push(Op::Put(k, c));
        }
        ab.push(Op::Del(k));
    }
    ab.push(Op::Compact(None, None));
    ab.push(Op::Flush);
    ab.extend(reopen_ops(2));
    v.push(spec("F-bytes", &["M2b", "T300n"], k5(), ab, if t { 3 } else { 2 }, READS));
    // the byte-string keys (empty, 0x00, 0xff, ...) with small values only, deeper, every write flushed
    let mut abs = vec![];
    for k in 0..5u8 {
        abs.push(Op::Put(k, 0));
        abs.push(Op::Del(k));
    }
    // empty values (a put of an empty value is not a delete)
    abs.push(Op::Put(0, 4));
    abs.push(Op::Put(2, 4));
    abs.push(Op::Compact(None, None));
    abs.extend(reopen_ops(2));
    v.push(spec("F-bytes-small", &["T300", "T1n"], k5(), abs, if t { 5 } else { 3 }, READS).flush());
    // key and value lengths on the boundaries of the varint length coding (127/128, 16383/16384):
    // through the batch encoding, the WAL, the memtable, table blocks and a reopen
    let mut av = vec![];
    for k in 0..3u8 {
        for c in [5u8, 6, 7, 8] {
            av.push(Op::Put(k, c));
        }
        av.push(Op::Del(k));
    }
    av.push(Op::Compact(None, None));
    av.extend(reopen_ops(2));
    v.push(spec("F-varint", &["M2b", "T300n"], vec![vec![b'k'; 127], vec![b'k'; 128], vec![b'k'; 16384]], av.clone(), if t { 4 } else { 3 }, READS));
    v.push(spec("F-varint/flush", &["T300", "T300n"], vec![vec![b'k'; 127], vec![b'k'; 128], vec![b'k'; 16384]], av, if t { 4 } else { 3 }, READS).flush());
    // one key several times in one batch (put then delete, delete then put, two puts): the order
    // inside a batch decides the outcome, through the memtable, a WAL replay and a flush
    let adup = vec![
        Op::Batch(vec![(0, true), (0, false)]),
        Op::Batch(vec![(0, false), (0, true)]),
        Op::Batch(vec![(0, true), (0, true)]),
        Op::Batch(vec![(0, true), (1, true), (0, false)]),
        Op::Batch(vec![(1, false), (0, true), (1, true)]),
        // an empty batch: a 9-byte WAL record, no sequence number consumed
        Op::Batch(vec![]),
        // operations in descending key order
        Op::Batch(vec![(1, true), (0, true)]),
        Op::Put(0, 0),
        Op::Del(1),
        Op::Compact(None, None),
        Op::Reopen(0),
        Op::Reopen(1),
    ];
    v.push(spec("F-batch-dup/lazy", &["M2n", "D"], k2(), adup.clone(), if t { 5 } else { 3 }, READS).lazy());
    v.push(spec("F-batch-dup/flush", &["T300", "T300n"], k2(), adup, if t { 5 } else { 3 }, READS).flush());
    // WAL records that end 7 / 6 bytes before the end of a log block, followed by further writes
    // and reopens with and without log reuse
    v.push(
        spec(
            "F-wal-block-edge",
            &["D", "Dn"],
            k3(),
            vec![Op::Put(0, 9), Op::Put(0, 10), Op::Put(0, 0), Op::Put(1, 0), Op::Del(0), Op::Reopen(0), Op::Reopen(1)],
            if t { 6 } else { 4 },
            READS,
        )
        .lazy(),
    );
    // a WAL written with a large memtable budget, replayed with a small one: the recovery itself
    // has to flush several memtables while reading the log
    v.push(
        spec(
            "F-reopen-shrink",
            &["D", "R", "M2n", "Rn"],
            k3(),
            vec![Op::Reopen(1), Op::Reopen(2), Op::Reopen(3), Op::Reopen(0), Op::Put(0, 0), Op::Del(1), Op::Batch(vec![(1, true), (2, true)]), Op::Compact(None, None)],
            if t { 6 } else { 4 },
            READS,
        )
        .with_setup(vec![Op::Put(0, 0), Op::Put(1, 0), Op::Put(2, 0), Op::Del(0), Op::Put(1, 0), Op::Batch(vec![(0, true), (2, true)]), Op::Del(2), Op::Put(2, 0)]),
    );
    v.push(trivial_move_family(t, READS));
    v.push(rich_family("F-rich/T300", k3s(), a1(), if t { 6 } else { 4 }, READS));
    v.push(levels_family("F-levels/L", "L", k4(), a1(), if t { 6 } else { 4 }, READS));
    // seek-triggered compactions, through gets and through iterators (read sampling), of files
    // whose range covers a key they do not contain
    v.push(
        spec(
            "F-seek/T300",
            &["T300"],
            k4(),
            vec![Op::Put(0, 0), Op::Put(2, 0), Op::Del(0), Op::Batch(vec![(0, true), (2, true)]), Op::Batch(vec![(0, true), (1, true)]), Op::GetMany(3, 128), Op::IterSeekMany(3, 128), Op::Reopen(0)],
            if t { 6 } else { 4 },
            READS,
        )
        .flush(),
    );
    v.push(staggered_family("F-staggered/T300", if t { 6 } else { 4 }, READS));
    v.push(boundary_tables_family("F-boundary-tables/T300", if t { 4 } else { 3 }, READS));
    v.insert(0, split_pair_parents_family("F-split-pair-parents/F1000", if t { 4 } else { 2 }, READS));
    v.push(l0_nested_family("F-l0-nested/T300", if t { 4 } else { 2 }, READS));
    v.push(l0_overlap_family("F-l0-overlap-low/T300", true, if t { 4 } else { 3 }, READS));
    v.push(l0_overlap_family("F-l0-overlap-high/T300", false, if t { 4 } else { 3 }, READS));
    // from the empty database with tiny level limits: files with distinct keys are moved down level
    // by level without being rewritten (trivial moves), the same file several times within one
    // manifest, and the manifest is replayed by the reopen
    v.push(
        spec(
            "F-levels-moves/L",
            &["L", "Ln"],
            k4(),
            vec![Op::Put(0, 0), Op::Put(1, 0), Op::Put(2, 0), Op::Put(3, 0), Op::Del(1), Op::Reopen(0), Op::Reopen(1), Op::Compact(None, None)],
            if t { 7 } else { 5 },
            READS,
        )
        .flush(),
    );
    v
}

pub fn c01(tier: &str) -> ! {
    let mut rep = Report::new("C01", tier, "model_checking");
    run_families(&mut rep, c01_families(tier), budget(tier), |c| c.starts_with("C01.") || c == "open.err" || c == "write.err");
    finish_common(&mut rep);
    rep.cov("oracle", json!("after every operation and every reopen: get(k) for every key of the family equals the BTreeMap model (value or KeyNotFound)"));
    rep.finish()
}

// ------------------------------------------------------------------------------------------------
// C10
// ------------------------------------------------------------------------------------------------

pub fn c10(tier: &str) -> ! {
    let mut rep = Report::new("C10", tier, "model_checking");
    let lay = checks(false, false, false, true, false, false);
    let fams: Vec<SeqSpec> = c01_families(tier)
        .into_iter()
        .filter(|f| f.name != "F-bytes")
        .map(|mut f| {
            f.checks = lay;
            f
        })
        .collect();
    // with live snapshots a compaction keeps several versions of one user key: the bounds of the
    // output files must cover all of them
    let mut fams = fams;
    let t = thorough(tier);
    fams.insert(1, spec("C10-snap/T300", &["T300"], k2(), a_c03_small(), if t { 7 } else { 5 }, lay).flush());
    fams.insert(2, spec("C10-snap/T1", &["T1"], k2(), a_c03_small(), if t { 7 } else { 5 }, lay).flush());
    // outputs cut because they span too much of the level below their own ("grandparent"
    // overlap above 10 x max_file_size): the middle key carries 3000 incompressible bytes, so one
    // deeper table outweighs the limit of 3000 bytes and a compaction of the two outer keys is
    // cut between them while its output builder is open
    fams.insert(
        3,
        spec(
            "C10-grandparent-cut/T300",
            &["T300"],
            k3s(),
            vec![Op::Put(1, 3), Op::Batch(vec![(0, true), (2, true)]), Op::Put(0, 0), Op::Put(2, 0), Op::Del(1), Op::Compact(None, None), Op::Compact(Some(0), Some(0))],
            if t { 6 } else { 4 },
            lay,
        )
        .flush(),
    );
    run_families(&mut rep, fams, budget(tier), |c| c.starts_with("C10."));
    finish_common(&mut rep);
    rep.cov("oracle", json!("after every operation (background idle) and every reopen: levels >= 1 sorted and pairwise disjoint in internal-key order, smallest <= largest, metadata bounds equal first/last stored entry, entries sorted, no duplicate file number, NumFilesAtLevel and SSTables text agree with the structured layout"));
    rep.finish()
}

// ------------------------------------------------------------------------------------------------
// C07
// ------------------------------------------------------------------------------------------------

fn a_c07_small() -> Vec<Op> {
    let mut a = a1();
    a.push(Op::Compact(Some(0), Some(1)));
    a.push(Op::Compact(None, Some(1)));
    a.push(Op::Compact(Some(1), None));
    a.push(Op::Compact(Some(2), Some(2)));
    // begin after end
    a.push(Op::Compact(Some(2), Some(0)));
    a.push(Op::Snap);
    a.push(Op::Release(0));
    a
}

fn a_c07_full() -> Vec<Op> {
    let mut a = a1();
    a.pop(); // compact(..) re-added below as (None, None)
    let ends: Vec<Option<u8>> = vec![None, Some(0), Some(1), Some(2)];
    for b in ends.iter() {
        for e in ends.iter() {
            a.push(Op::Compact(*b, *e));
        }
    }
    a.push(Op::GetMany(0, 128));
    a.push(Op::GetMany(1, 128));
    a.push(Op::Snap);
    a.push(Op::Release(0));
    a.push(Op::Release(1));
    a.push(Op::Flush);
    a
}

pub fn c07(tier: &str) -> ! {
    let mut rep = Report::new("C07", tier, "model_checking");
    let t = thorough(tier);
    let ck = checks(true, false, true, false, false, true);
    let mut fams = vec![];
    fams.push(spec("C07-A1/T300", &["T300"], k3(), a1(), if t { 6 } else { 5 }, ck).flush());
    fams.push(spec("C07-ranged/T300", &["T300"], k3(), a_c07_small(), if t { 6 } else { 4 }, ck).flush());
    fams.push(spec("C07-ranged/M2", &["M2"], k3(), a_c07_small(), if t { 5 } else { 3 }, ck).lazy());
    fams.push(spec("C07-ranged/R", &["R"], k3(), a_c07_small(), if t { 5 } else { 3 }, ck).lazy());
    // seek-triggered compactions: 128 reads of the never-written key d
    let a_seek = vec![
        Op::Put(0, 0),
        Op::Put(2, 0),
        Op::Del(0),
        Op::Batch(vec![(0, true), (2, true)]),
        Op::Batch(vec![(0, true), (1, true)]),
        Op::GetMany(3, 128),
        Op::IterSeekMany(3, 128),
        Op::Compact(None, None),
    ];
    fams.push(spec("C07-seek/T300", &["T300"], k4(), a_seek, if t { 7 } else { 5 }, ck).flush());
    fams.push(rich_family("C07-rich/T300", k3(), a_c07_small(), if t { 5 } else { 3 }, ck));
    fams.push(levels_family("C07-levels/L", "L", k4(), a_c07_small(), if t { 4 } else { 3 }, ck));
    fams.push(staggered_family("C07-staggered/T300", if t { 5 } else { 3 }, ck));
    // live snapshots over 1-byte files: every version of a key gets a file of its own, so the
    // versions of one user key straddle neighbouring files of a level
    fams.push(spec("C07-snap/T1", &["T1"], k2(), a_c03_small(), if t { 7 } else { 5 }, ck).flush());
    // the extreme byte-string keys (empty, 0x00, 0xff) through deletes and ranged compactions
    fams.push(spec("C07-bytes/T300", &["T300"], vec![vec![], vec![0x00], vec![0xff]], a_c07_small(), if t { 5 } else { 3 }, ck).flush());
    fams.push(boundary_tables_family("C07-boundary-tables/T300", if t { 4 } else { 3 }, ck));
    fams.insert(0, split_pair_parents_family("C07-split-pair-parents/F1000", if t { 4 } else { 2 }, ck));
    fams.push(l0_nested_family("C07-l0-nested/T300", if t { 4 } else { 2 }, ck));
    fams.push(l0_overlap_family("C07-l0-overlap-low/T300", true, if t { 4 } else { 3 }, ck));
    fams.push(l0_overlap_family("C07-l0-overlap-high/T300", false, if t { 4 } else { 3 }, ck));
    if t {
        fams.push(spec("C07-full/T300", &["T300"], k3(), a_c07_full(), 4, ck).flush());
        fams.push(spec("C07-ranged/T1", &["T1"], k3(), a_c07_small(), 5, ck).flush());
        fams.push(spec("C07-ranged/M2", &["M2"], k3(), a_c07_small(), 5, ck).bgfirst());
    }
    let t_budget = budget(tier);
    run_families(&mut rep, fams, t_budget.mul_f32(0.85), |c| c.starts_with("C07.") || c.starts_with("C01.") || c.starts_with("C03."));
    {
        use crate::props_sched::{close_during_compaction_programs, run_sched};
        let own = |c: &str| c.starts_with("C07.");
        if t {
            run_sched(&mut rep, "close-during-compaction/p2d4", &close_during_compaction_programs(), (2, 4), 16, false, 2, Duration::from_secs(600), own);
        } else {
            run_sched(&mut rep, "close-during-compaction/p1d3", &close_during_compaction_programs(), (1, 3), 4, false, 1, Duration::from_secs(10), own);
        }
    }
    finish_common(&mut rep);
    rep.cov("oracle", json!("differential: full dump (gets + scan at the latest state and at every live snapshot) immediately before each flush / compact_range / quiesce equals the dump after it and after background work went idle; plus model comparison of gets and snapshot reads after every operation"));
    rep.finish()
}

// ------------------------------------------------------------------------------------------------
// C03 (sequence part)
// ------------------------------------------------------------------------------------------------

fn a_c03() -> Vec<Op> {
    let mut a = a1();
    a.push(Op::Snap);
    a.push(Op::Release(0));
    a.push(Op::Iter);
    a.push(Op::DropIter);
    a.push(Op::GetMany(0, 128));
    a
}

/// puts / a batch on the three gap keys, snapshots, full compaction
fn a_c03_small3() -> Vec<Op> {
    vec![
        Op::Put(0, 0),
        Op::Put(1, 0),
        Op::Batch(vec![(0, true), (2, true)]),
        Op::Del(1),
        Op::Snap,
        Op::Release(0),
        Op::Compact(None, None),
    ]
}

fn a_c03_small() -> Vec<Op> {
    vec![
        Op::Put(0, 0),
        Op::Put(1, 0),
        Op::Del(0),
        Op::Del(1),
        Op::Snap,
        Op::Release(0),
        Op::Compact(None, None),
    ]
}

pub fn c03_seq_families(tier: &str) -> Vec<SeqSpec> {
    let t = thorough(tier);
    let ck = checks(true, false, true, false, false, false);
    let mut fams = vec![];
    fams.push(spec("C03-full/T300", &["T300"], k3(), a_c03(), if t { 5 } else { 4 }, ck).flush());
    fams.push(spec("C03-small/T300", &["T300"], k2(), a_c03_small(), if t { 8 } else { 6 }, ck).flush());
    fams.push(spec("C03-small/M2", &["M2"], k2(), a_c03_small(), if t { 7 } else { 5 }, ck).lazy());
    fams.push(spec("C03-small/R", &["R"], k2(), a_c03_small(), if t { 7 } else { 5 }, ck).lazy());
    fams.push(rich_family("C03-rich/T300", k3(), a_c03(), if t { 4 } else { 3 }, ck));
    fams.push(levels_family("C03-levels/L", "L", k4(), a_c03(), if t { 4 } else { 3 }, ck));
    // an iterator / snapshot that pins an old version across several later version installs and
    // releases (flush, compaction, flush): started from the populated LSM so that the pinned
    // version's tables are below level 0 and get compacted away
    let a_pin = vec![Op::Put(0, 0), Op::Put(1, 0), Op::Del(2), Op::Iter, Op::DropIter, Op::Snap, Op::Release(0), Op::Compact(None, None)];
    fams.push(rich_family("C03-pin-rich/T300", k3(), a_pin.clone(), if t { 6 } else { 4 }, ck));
    fams.push(spec("C03-pin/T300", &["T300"], k2(), vec![Op::Put(0, 0), Op::Put(1, 0), Op::Iter, Op::DropIter, Op::Compact(None, None)], if t { 8 } else { 6 }, ck).flush());
    // several versions of one key with 3000-byte incompressible values in one table (default
    // 4 KiB blocks): the versions lie in different 2 KiB filter ranges; snapshot gets must find
    // the older ones through the table's filter block
    fams.push(
        spec("C03-bigvals/D", &["D"], k2(), vec![Op::Put(0, 3), Op::Put(1, 3), Op::Snap, Op::Release(0), Op::Flush, Op::Compact(None, None)], if t { 6 } else { 4 }, ck)
            .with_setup(vec![Op::Put(0, 3), Op::Snap, Op::Put(0, 3)]),
    );
    // a hot key: 130 versions of one key above a live snapshot (default blocks: the run of versions
    // crosses block and filter-range boundaries inside one user key; one-entry blocks: the
    // snapshot's version is 130 blocks behind the newest one)
    fams.insert(0, hot_key_family("C03-hot-key/D", "D", if t { 4 } else { 2 }, ck));
    fams.insert(1, hot_key_family("C03-hot-key/T300", "T300", if t { 4 } else { 2 }, ck));
    // up to four snapshots alive at once (released in any order)
    fams.push(
        spec(
            "C03-snap4/T300s4",
            &["T300s4"],
            k2(),
            vec![Op::Put(0, 0), Op::Put(1, 0), Op::Del(0), Op::Snap, Op::Release(0), Op::Release(1), Op::Release(2), Op::Compact(None, None)],
            if t { 7 } else { 5 },
            ck,
        )
        .flush(),
    );
    // shortenable index separators and a filter that lets every lookup through: a snapshot read of
    // a key whose only entries in a newer file are too new runs past the end of that file's block
    fams.push(spec("C03-gap/T300p", &["T300p"], k3g(), a_c03_small3(), if t { 6 } else { 4 }, ck).flush());
    // T1: every table holds one entry, so the versions of one key pinned by snapshots straddle
    // adjacent files of a level
    fams.push(spec("C03-small/T1", &["T1"], k2(), a_c03_small(), if t { 8 } else { 5 }, ck).flush());
    if t {
        fams.push(spec("C03-full/T1", &["T1"], k3(), a_c03(), 5, ck).flush());
        fams.push(spec("C03-full/M2", &["M2"], k3(), a_c03(), 5, ck));
    }
    fams
}

// ------------------------------------------------------------------------------------------------
// C11 (sequence part)
// ------------------------------------------------------------------------------------------------

fn a_c11() -> Vec<Op> {
    let mut a = a1();
    a.push(Op::Snap);
    a.push(Op::Release(0));
    a.push(Op::Iter);
    a.push(Op::DropIter);
    a.push(Op::GetMany(0, 128));
    a.extend(reopen_ops(2));
    a
}

pub fn c11_seq_families(tier: &str) -> Vec<SeqSpec> {
    let t = thorough(tier);
    let ck = checks(true, false, false, false, true, false);
    let mut fams = vec![];
    fams.push(spec("C11-A1/T300", &["T300"], k3(), a1(), if t { 6 } else { 4 }, ck).flush());
    fams.push(spec("C11-full/T300", &["T300", "T300n"], k3(), a_c11(), if t { 5 } else { 3 }, ck).flush());
    fams.push(spec("C11-full/M2", &["M2", "M2n"], k3(), a_c11(), if t { 5 } else { 3 }, ck).lazy());
    // seek-triggered compactions (incl. trivial moves of a single file) followed by more work
    let a_seek = vec![
        Op::Put(0, 0),
        Op::Put(2, 0),
        Op::Del(0),
        Op::Batch(vec![(0, true), (2, true)]),
        Op::Batch(vec![(0, true), (1, true)]),
        Op::GetMany(3, 128),
        Op::IterSeekMany(3, 128),
        Op::Compact(None, None),
    ];
    fams.push(spec("C11-seek/T300", &["T300"], k4(), a_seek, if t { 7 } else { 5 }, ck).flush());
    fams.push(trivial_move_family(t, ck));
    // an iterator that outlives its handle while the directory gets a new owner
    fams.insert(
        0,
        spec("C11-iterator-of-a-closed-handle/T300", &["T300"], k3(), vec![Op::Put(0, 0), Op::Put(1, 0), Op::Del(0), Op::Iter, Op::ReopenUnderLiveIter, Op::Compact(None, None)], if t { 6 } else { 4 }, ck).flush(),
    );
    fams.push(rich_family("C11-rich/T300", k3(), a_c11(), if t { 4 } else { 3 }, ck));
    fams.push(levels_family("C11-levels/L", "L", k4(), a_c11(), if t { 4 } else { 3 }, ck));
    fams
}

// ------------------------------------------------------------------------------------------------
// C09 (sequence part): every public call terminates, the worker never dies
// ------------------------------------------------------------------------------------------------

fn a_c09() -> Vec<Op> {
    let mut a = a1();
    for k in 0..3u8 {
        a.push(Op::Get(k));
    }
    a.push(Op::Snap);
    a.push(Op::Release(0));
    a.push(Op::Iter);
    a.push(Op::DropIter);
    a.push(Op::Scan);
    a.push(Op::Compact(Some(0), Some(1)));
    a.push(Op::Compact(Some(2), Some(0)));
    a.push(Op::Flush);
    for d in 0..=9u8 {
        a.push(Op::Desc(d));
    }
    a.push(Op::Reopen(0));
    a.push(Op::GetMany(0, 128));
    a.push(Op::CloseHoldingIter);
    a
}

pub fn c09_seq_families(tier: &str) -> Vec<SeqSpec> {
    let t = thorough(tier);
    let ck = checks(false, false, false, false, false, false);
    let mut fams = vec![];
    fams.push(spec("C09-all/T300", &["T300"], k3(), a_c09(), if t { 4 } else { 3 }, ck).flush());
    fams.push(spec("C09-all/M2", &["M2"], k3(), a_c09(), if t { 4 } else { 2 }, ck).lazy());
    fams.push(spec("C09-A1/M2", &["M2"], k3(), a1(), if t { 7 } else { 5 }, ck).lazy());
    // live snapshots: compactions keep several versions of one key and cut output files between them
    fams.push(spec("C09-snap/T300", &["T300"], k2(), a_c03_small(), if t { 7 } else { 5 }, ck).flush());
    fams.push(spec("C09-snap/T1", &["T1"], k2(), a_c03_small(), if t { 7 } else { 5 }, ck).flush());
    // misaligned file boundaries on neighbouring levels + single-key range compactions
    fams.push(staggered_family("C09-staggered/T300", if t { 5 } else { 3 }, ck));
    fams.push(l0_overlap_family("C09-l0-overlap-low/T300", true, if t { 4 } else { 2 }, ck));
    fams.push(boundary_tables_family("C09-boundary-tables/T300", if t { 4 } else { 3 }, ck));
    if t {
        fams.push(spec("C09-A1/M2", &["M2"], k3(), a1(), 7, ck).bgfirst());
    }
    fams
}

pub fn is_c09_clause(c: &str) -> bool {
    c.starts_with("C09.") || c.starts_with("crash.")
}

// ------------------------------------------------------------------------------------------------
// combined checks (sequence part + schedule part)
// ------------------------------------------------------------------------------------------------

pub fn c03(tier: &str) -> ! {
    use crate::props_sched::*;
    let mut rep = Report::new("C03", tier, "model_checking");
    let t = thorough(tier);
    let own = |c: &str| c.starts_with("C03.") || c.starts_with("C05.") || c.starts_with("C11.live") || c == "iter.err";
    let b = budget(tier);
    run_families(&mut rep, c03_seq_families(tier), b.mul_f32(0.7), own);
    if t {
        run_sched(&mut rep, "reader-vs-compaction/p2d4", &c03_programs(), (2, 4), 16, false, 2, Duration::from_secs(1500), own);
    } else {
        run_sched(&mut rep, "reader-vs-compaction/p1d3", &c03_programs(), (1, 3), 4, false, 1, Duration::from_secs(15), own);
    }
    if t {
        run_sched(&mut rep, "snapshot-stability/p3d4", &c03_stability_programs(), (3, 4), 8, false, 2, Duration::from_secs(600), own);
    } else {
        run_sched(&mut rep, "snapshot-stability/p2d3", &c03_stability_programs(), (2, 3), 2, false, 1, Duration::from_secs(16), own);
    }
    finish_common(&mut rep);
    sched_assumptions(&mut rep);
    rep.cov("oracle", json!("sequence part: after every operation, for every live snapshot get(k, snap) and forward+backward scans at the snapshot equal the model frozen at its creation, and a held iterator re-scanned yields its frozen model; schedule part: snapshot reads / iterator scans concurrent with overwrite, delete, flush, compaction and obsolete-file deletion are linearizable at their creation point and never fail (strict unlink); every snapshot read reads its keys twice through the snapshot and must get the same answers (snapshot taken while a write is in flight)"));
    rep.finish()
}

pub fn c09(tier: &str) -> ! {
    use crate::props_sched::*;
    let mut rep = Report::new("C09", tier, "model_checking");
    let t = thorough(tier);
    let b = budget(tier);
    run_families(&mut rep, c09_seq_families(tier), b.mul_f32(if t { 0.7 } else { 0.55 }), is_c09_clause);
    if t {
        run_sched(&mut rep, "liveness/p2d4", &c09_programs(), (2, 4), 16, false, 2, Duration::from_secs(1500), is_c09_clause);
        run_sched(&mut rep, "two-manual-compactions/p2d4", &c09_manual_compaction_programs(), (2, 4), 16, false, 2, Duration::from_secs(900), is_c09_clause);
        run_sched(&mut rep, "liveness-under-fault/p2d4", &c09_fault_programs(), (2, 4), 16, false, 2, Duration::from_secs(900), is_c09_clause);
        run_sched(&mut rep, "iterator-creation-vs-writer/p3d5", &c09_sharp_programs(), (3, 5), 16, false, 2, Duration::from_secs(900), is_c09_clause);
        run_sched(&mut rep, "flush-into-the-key-gap-of-a-running-compaction/p2d4", &c09_gap_programs(), (2, 4), 16, false, 2, Duration::from_secs(900), is_c09_clause);
    } else {
        run_sched(&mut rep, "liveness/p1d3", &c09_programs(), (1, 3), 4, false, 1, Duration::from_secs(13), is_c09_clause);
        let fault_progs: Vec<_> = c09_fault_programs().into_iter().filter(|p| !p.name.contains("wal-write-2-of-rotating") && !p.name.contains("wal-write-3-of-rotating")).collect();
        run_sched(&mut rep, "liveness-under-fault/p1d3", &fault_progs, (1, 3), 4, false, 1, Duration::from_secs(14), is_c09_clause);
        run_sched(&mut rep, "iterator-creation-vs-writer/p2d4", &c09_sharp_programs(), (2, 4), 8, false, 1, Duration::from_secs(6), is_c09_clause);
        run_sched(&mut rep, "flush-into-the-key-gap-of-a-running-compaction/p1d2", &c09_gap_programs(), (1, 2), 8, false, 1, Duration::from_secs(4), is_c09_clause);
    }
    finish_common(&mut rep);
    sched_assumptions(&mut rep);
    rep.cov("oracle", json!("every explored execution runs to completion: no deadlock (no runnable task while one is unfinished, or a task re-acquiring a mutex it holds), no livelock (step bound 10^7, progress watchdog), no panic of a database call or of the background thread, every descriptor returns; the alphabet contains every public call"));
    rep.finish()
}

pub fn c11(tier: &str) -> ! {
    use crate::props_sched::*;
    let mut rep = Report::new("C11", tier, "model_checking");
    let t = thorough(tier);
    let own = |c: &str| c.starts_with("C11.");
    let b = budget(tier);
    run_families(&mut rep, c11_seq_families(tier), b.mul_f32(0.6), own);
    if t {
        run_sched(&mut rep, "reader-vs-deletion/p2d4", &c03_programs(), (2, 4), 16, false, 2, Duration::from_secs(1500), own);
        run_sched(&mut rep, "crash-at-every-removal/p2d4", &c11_removal_programs(), (2, 4), 16, false, 2, Duration::from_secs(1500), own);
        run_sched(&mut rep, "failing-reader-vs-version-install/p2d4", &c11_fault_programs(), (2, 4), 16, false, 2, Duration::from_secs(900), own);
    } else {
        run_sched(&mut rep, "reader-vs-deletion/p1d3", &c03_programs(), (1, 3), 4, false, 1, Duration::from_secs(15), own);
        run_sched(&mut rep, "crash-at-every-removal/p1d3", &c11_removal_programs(), (1, 3), 4, false, 1, Duration::from_secs(20), own);
        run_sched(&mut rep, "failing-reader-vs-version-install/p1d3", &c11_fault_programs(), (1, 3), 4, false, 1, Duration::from_secs(15), own);
    }
    // leftovers of a crash (orphan tables, half-written temp files, superseded manifests, old
    // WALs) are reclaimed: every crash image of the covering histories is recovered, given one
    // reclamation opportunity, and the directories must hold exactly the needed files
    {
        use crate::crashx::{CrashMode, CrashSpec};
        use crate::props_crash::{covering_histories, generated_histories, run_crash, shrink_history};
        let spec = CrashSpec {
            mode: CrashMode::Prefixes,
            nested: false,
            check_directory: true,
            prefix: "C11",
            cross_cfg: false,
            atomicity_only: false,
        };
        let all_cfgs = ["T300", "T300n", "M2", "M2n"];
        let hs: Vec<_> = covering_histories(&all_cfgs).into_iter().chain(shrink_history()).collect();
        if t {
            run_crash(&mut rep, "crash-leftovers/covering", hs.clone(), spec.clone(), crate::report::scaled(Duration::from_secs(900)), own);
            run_crash(&mut rep, "crash-leftovers/covering/recovered-with-other-options", hs, CrashSpec { cross_cfg: true, ..spec.clone() }, crate::report::scaled(Duration::from_secs(900)), own);
            run_crash(&mut rep, "crash-leftovers/generated<=3/recovered-with-other-options", generated_histories(&all_cfgs, 3), CrashSpec { cross_cfg: true, ..spec.clone() }, crate::report::scaled(Duration::from_secs(900)), own);
            run_crash(&mut rep, "crash-leftovers/generated<=4", generated_histories(&all_cfgs, 4), spec, crate::report::scaled(Duration::from_secs(900)), own);
        } else {
            run_crash(&mut rep, "crash-leftovers/covering", hs.clone(), spec.clone(), Duration::from_secs(10), own);
            // options changed between the crash and the next open: every image also recovered with
            // each of the history's other configurations
            run_crash(&mut rep, "crash-leftovers/covering/recovered-with-other-options", hs, CrashSpec { cross_cfg: true, ..spec.clone() }, Duration::from_secs(10), own);
            run_crash(&mut rep, "crash-leftovers/generated<=2", generated_histories(&all_cfgs, 2), spec, Duration::from_secs(10), own);
        }
    }
    finish_common(&mut rep);
    sched_assumptions(&mut rep);
    rep.cov("oracle", json!("sequence part: at every node without live snapshot/iterator, after one reclamation opportunity (flush of the possibly empty memtable, background idle) the three directories hold exactly CURRENT, LOCK, the current manifest, WALs >= the version's WAL number and the tables of the current layout; with a live snapshot/iterator every table of the current layout exists; schedule part: no read of a reader concurrent with compaction + deletion ever touches a removed file (strict unlink); schedule x fault part: a reader whose own table reads fail runs against flushes / compactions installing new versions, and after the fault is disarmed, everything compacted and the background idle the directories again hold exactly the needed files; crash part: every crash image (prefix of the filesystem-operation log) of the covering and generated histories is recovered, and the directories hold exactly the needed files twice: as soon as the background work started by the recovery has gone idle, before any operation is issued (the recovery itself reclaims what the crash left behind), and again after probe writes and one flush"));
    rep.finish()
}

// ------------------------------------------------------------------------------------------------
// C04: every cursor program of length <= L at every reached layout
// ------------------------------------------------------------------------------------------------

fn cursor_targets(keys: &[Vec<u8>]) -> Vec<Vec<u8>> {
    // the keys themselves and a gap key before / between / after them
    let mut t: Vec<Vec<u8>> = keys.to_vec();
    t.push(vec![]);
    for k in keys {
        let mut g = k.clone();
        g.push(0x00);
        t.push(g);
    }
    // a target beyond a shortened separator's gap but before the next key
    t.push(b"cz".to_vec());
    t.push(vec![0xff, 0xff]);
    t.sort();
    t.dedup();
    t
}

/// Run every cursor program of length <= `spec.extra_param` over {seek(t), first, last, next,
/// prev} on a fresh iterator of every view (latest state and each live snapshot) and compare
/// with a cursor over the sorted model.
pub fn cursor_extra(w: &mut World, spec: &SeqSpec, shm: &crate::shm::Shm) -> VResult<()> {
    use raindb::ReadOptions;
    let len = spec.extra_param;
    let targets = cursor_targets(&spec.keys);
    let n_ops = 4 + targets.len();
    let mut views: Vec<(Option<raindb::Snapshot>, Vec<(Vec<u8>, Vec<u8>)>)> = vec![(None, w.model.iter().map(|(k, v)| (k.clone(), v.clone())).collect())];
    for (s, m) in w.snaps.iter() {
        views.push((Some(s.clone()), m.iter().map(|(k, v)| (k.clone(), v.clone())).collect()));
    }
    for (vi, (snap, model)) in views.iter().enumerate() {
        let n = model.len();
        let total = n_ops.pow(len as u32);
        let mut prog = vec![0usize; len];
        for code in 0..total {
            let mut x = code;
            for p in prog.iter_mut() {
                *p = x % n_ops;
                x /= n_ops;
            }
            let it = w
                .db()
                .new_iterator(ReadOptions { fill_cache: true, snapshot: snap.clone() })
                .map_err(|e| Violation::new("iter.err", format!("new_iterator failed: {}", e)))?;
            let mut it: DbIter = Box::new(it);
            let mut cur: Option<usize> = None;
            let mut trace: Vec<String> = vec![];
            for &op in prog.iter() {
                match op {
                    0 => {
                        it.seek_to_first().map_err(|e| Violation::new("C04.err", format!("seek_to_first failed: {}", e)))?;
                        cur = if n > 0 { Some(0) } else { None };
                        trace.push("first".into());
                    }
                    1 => {
                        it.seek_to_last().map_err(|e| Violation::new("C04.err", format!("seek_to_last failed: {}", e)))?;
                        cur = if n > 0 { Some(n - 1) } else { None };
                        trace.push("last".into());
                    }
                    2 => {
                        if cur.is_none() {
                            continue; // next on an invalid iterator is outside the contract
                        }
                        it.next();
                        cur = cur.and_then(|i| if i + 1 < n { Some(i + 1) } else { None });
                        trace.push("next".into());
                    }
                    3 => {
                        if cur.is_none() {
                            continue;
                        }
                        it.prev();
                        cur = cur.and_then(|i| if i > 0 { Some(i - 1) } else { None });
                        trace.push("prev".into());
                    }
                    j => {
                        let t = &targets[j - 4];
                        it.seek(t).map_err(|e| Violation::new("C04.err", format!("seek failed: {}", e)))?;
                        cur = model.iter().position(|(k, _)| k >= t);
                        trace.push(format!("seek({})", esc(t)));
                    }
                }
                shm.add(crate::shm::C_USER, 1);
                let got = if it.is_valid() { it.current().map(|(k, v)| (k.clone(), v.clone())) } else { None };
                let want = cur.map(|i| model[i].clone());
                if got != want {
                    let sh = |x: &Option<(Vec<u8>, Vec<u8>)>| match x {
                        Some((k, v)) => format!("{}={}", esc(k), show_val(v)),
                        None => "invalid".to_string(),
                    };
                    return Err(Violation::new(
                        "C04.cursor",
                        format!(
                            "view {} (visible: [{}]): after [{}] the iterator is at {} but a sorted map would be at {}",
                            if vi == 0 { "latest".to_string() } else { format!("snapshot{}", vi - 1) },
                            model.iter().map(|(k, v)| format!("{}={}", esc(k), show_val(v))).collect::<Vec<_>>().join(" "),
                            trace.join(", "),
                            sh(&got),
                            sh(&want)
                        ),
                    ));
                }
            }
            shm.add(crate::shm::C_USER + 1, 1);
        }
    }
    Ok(())
}

fn a_c04() -> Vec<Op> {
    let mut a = a1();
    a.push(Op::Snap);
    a
}

pub fn c04(tier: &str) -> ! {
    let mut rep = Report::new("C04", tier, "model_checking");
    let t = thorough(tier);
    let ck = checks(false, true, false, false, false, false);
    let mut fams = vec![];
    let mk = |name: &str, cfg: &str, alphabet: Vec<Op>, depth: usize, len: usize, flush: bool| {
        let mut s = spec(name, &[cfg], k3s(), alphabet, depth, ck).with_extra(cursor_extra);
        s.extra_param = len;
        if flush {
            s = s.flush();
        }
        s
    };
    if t {
        // (programs of length 5 would be 1.6 * 10^5 per view and node: beyond the step bound of one
        // execution and of no use - a cursor has no state that four calls cannot reach)
        fams.push(mk("C04/T300/d4xL4", "T300", a1(), 4, 4, true));
        fams.push(mk("C04/T1/d4xL4", "T1", a1(), 4, 4, true));
        fams.push(mk("C04/T300/d5xL3", "T300", a1(), 5, 3, true));
        fams.push(mk("C04/T1/d5xL3", "T1", a_c04(), 5, 3, true));
        fams.push(mk("C04/M2/d5xL3", "M2", a_c04(), 5, 3, false).lazy());
        fams.push(mk("C04/T300c/d4xL4", "T300c", a1(), 4, 4, true));
        fams.push(hot_key_family("C04-hot-key/M2b", "M2b", 4, ck).with_extra(cursor_extra).with_param(4));
        fams.push(hot_key_family("C04-hot-key/T300", "T300", 4, ck).with_extra(cursor_extra).with_param(4));
    } else {
        fams.push(mk("C04/T300/d3xL3", "T300", a1(), 3, 3, true));
        fams.push(mk("C04/T300/d4xL2", "T300", a1(), 4, 2, true));
        fams.push(mk("C04/T1+snap/d3xL3", "T1", a_c04(), 3, 3, true));
        fams.push(mk("C04/T300+snap/d2xL4", "T300", a_c04(), 2, 4, true));
        fams.push(mk("C04/M2/d3xL3", "M2", a1(), 3, 3, false).lazy());
        fams.push(mk("C04/M2/d4xL2", "M2", a1(), 4, 2, false).lazy());
        fams.push(mk("C04/T300c/d3xL3", "T300c", a1(), 3, 3, true));
        // a hot key: 130 versions of the middle key next to each other (memtable; with the
        // snapshot of the setup still alive also in the tables), other keys around it
        fams.insert(0, hot_key_family("C04-hot-key/M2b", "M2b", 2, ck).with_extra(cursor_extra).with_param(3));
        fams.insert(1, hot_key_family("C04-hot-key/T300", "T300", 2, ck).with_extra(cursor_extra).with_param(3));
    }
    run_families(&mut rep, fams, budget(tier), |c| c.starts_with("C04.") || c == "iter.err");
    finish_common(&mut rep);
    rep.cov("oracle", json!("at every node: a full forward and backward scan equals the model; and every cursor program of the stated length over {seek(t) for t in keys and gap keys, seek_to_first, seek_to_last, next, prev} (next/prev only while valid) on a fresh iterator of the latest state and of every live snapshot keeps is_valid/key/value equal to a cursor over the sorted model"));
    rep.finish()
}

/// A hot key: the start state holds the three keys, a live snapshot and then 130 versions of the
/// middle key (more than any "a few shadowed entries" shortcut of an iterator tolerates; 130
/// adjacent entries of one user key also cross block and restart boundaries once flushed). The
/// alphabet adds another 130 versions, writes around the hot key, flushes and compacts.
pub fn hot_key_family(name: &str, cfg: &str, depth: usize, ck: Checks) -> SeqSpec {
    let alphabet = vec![Op::PutMany(1, 130), Op::Put(2, 0), Op::Del(1), Op::Flush, Op::Compact(None, None), Op::Release(0), Op::Put(0, 0)];
    spec(name, &[cfg], k3s(), alphabet, depth, ck).with_setup(vec![Op::Put(0, 0), Op::Put(1, 0), Op::Put(2, 0), Op::Snap, Op::PutMany(1, 130)])
}

/// A tombstone and the older value of its key in two *adjacent tables of one level* (a snapshot was
/// alive when they were compacted; the 1120-byte value in front of them made the output end right
/// behind the tombstone), and two tables one level up of which one overlaps only the first of the
/// two: a compaction of the other one has the pair as its parent-level inputs and may grow its own
/// level's inputs - the re-computed parent inputs must still hold both tables of the pair.
pub fn split_pair_parents_family(name: &str, depth: usize, ck: Checks) -> SeqSpec {
    let keys: Vec<Vec<u8>> = ["a", "b", "c", "e", "f", "j", "k"].iter().map(|k| k.as_bytes().to_vec()).collect();
    let setup = vec![
        Op::Put(0, 0), Op::Put(2, 0), Op::Flush,
        Op::Put(3, 0), Op::Put(5, 13), Op::Put(6, 0), Op::Flush,
        Op::Snap,
        Op::Del(6), Op::Flush,
        Op::Compact(Some(6), Some(6)),
        Op::Release(0),
        Op::Put(5, 0), Op::Flush,
        Op::Put(1, 0), Op::Put(4, 0), Op::Flush,
    ];
    let alphabet = vec![Op::Compact(Some(5), Some(5)), Op::Compact(Some(1), Some(4)), Op::Compact(None, None), Op::Put(6, 0), Op::Del(3), Op::Flush];
    spec(name, &["F1000"], keys, alphabet, depth, ck).with_setup(setup)
}

/// C06, sequence part: a three-key batch, a snapshot, then 130 newer versions of the batch's middle
/// key (a reader pinned before them has to step over all of them): reads and scans through the
/// snapshot must keep showing the whole batch while the alphabet adds more versions, flushes and
/// compacts.
pub fn hot_batch_family(name: &str, cfg: &str, depth: usize) -> SeqSpec {
    let ck = checks(true, false, true, false, false, false);
    let alphabet = vec![Op::PutMany(1, 130), Op::Batch(vec![(0, true), (1, true), (2, true)]), Op::Del(1), Op::Flush, Op::Compact(None, None), Op::Snap];
    spec(name, &[cfg], k3s(), alphabet, depth, ck).with_setup(vec![Op::Batch(vec![(0, true), (1, true), (2, true)]), Op::Snap, Op::PutMany(1, 130)])
}

/// Start from a non-initial state: two sessions that each wrote one key and were reopened without
/// log reuse (recovery flushes each WAL into its own disjoint level-0 table). Two more such
/// sessions make four level-0 files; the size-triggered compaction then moves a single file to
/// level 1 without rewriting it (trivial move). Reopening afterwards replays that edit from the
/// manifest.
pub fn trivial_move_family(thorough: bool, ck: Checks) -> SeqSpec {
    let alphabet = vec![Op::Put(2, 0), Op::Put(3, 0), Op::Put(0, 0), Op::Del(1), Op::Reopen(0), Op::Compact(None, None)];
    spec("trivial-move/T300n", &["T300n"], k4(), alphabet, if thorough { 7 } else { 5 }, ck)
        .with_setup(vec![Op::Put(0, 0), Op::Reopen(0), Op::Put(1, 0), Op::Reopen(0)])
}

/// A populated LSM to start from (three files in L2, two in L1, two in L0, a tombstone above an
/// older value, an overwritten key on every level): exploration from a non-initial state.
pub fn rich_setup() -> Vec<Op> {
    vec![
        Op::Put(0, 0), Op::Flush, Op::Put(1, 0), Op::Flush, Op::Put(2, 0), Op::Flush,
        Op::Put(0, 0), Op::Flush, Op::Batch(vec![(1, true), (2, true)]), Op::Flush,
        Op::Del(1), Op::Flush, Op::Put(0, 0), Op::Flush,
    ]
}

/// Levels 1..=5 limited to 250 bytes (hook): every second flushed file overflows its level, so data
/// cascades through size-triggered compactions and trivial moves down to the last level.
pub fn levels_setup() -> Vec<Op> {
    vec![
        Op::Put(0, 0), Op::Flush, Op::Put(1, 0), Op::Flush, Op::Put(2, 0), Op::Flush, Op::Put(3, 0), Op::Flush,
        Op::Put(0, 0), Op::Flush, Op::Put(1, 0), Op::Flush, Op::Del(2), Op::Flush, Op::Put(3, 0), Op::Flush,
        Op::Put(0, 0), Op::Flush, Op::Del(1), Op::Flush, Op::Put(2, 0), Op::Flush, Op::Put(3, 0), Op::Flush,
    ]
}

pub fn levels_family(name: &str, cfg: &str, keys: Vec<Vec<u8>>, alphabet: Vec<Op>, depth: usize, ck: Checks) -> SeqSpec {
    spec(name, &[cfg], keys, alphabet, depth, ck).flush().with_setup(levels_setup())
}

/// Staggered overlap between two levels: two disjoint files on level 2 ([k0..k1], [k2..k3]); the
/// alphabet can put files on level 1 that lie inside one of them or straddle both (a batch that
/// puts k1 and deletes k2), and compacts single-key ranges, so that growing the level-1 inputs of
/// a compaction would reach into a level-2 file that is not part of it.
pub fn staggered_family(name: &str, depth: usize, ck: Checks) -> SeqSpec {
    let alphabet = vec![
        Op::Put(0, 0),
        Op::Put(1, 0),
        Op::Put(3, 0),
        Op::Del(2),
        Op::Batch(vec![(1, true), (2, false)]),
        Op::Batch(vec![(2, true), (1, false)]),
        Op::Batch(vec![(1, true), (2, true)]),
        Op::Compact(Some(0), Some(0)),
        Op::Compact(Some(1), Some(1)),
        Op::Compact(Some(3), Some(3)),
        Op::Compact(None, None),
    ];
    spec(name, &["T300"], k4s(), alphabet, depth, ck)
        .flush()
        .with_setup(vec![Op::Batch(vec![(0, true), (1, true)]), Op::Flush, Op::Batch(vec![(2, true), (3, true)]), Op::Flush])
}

/// Two overlapping level-0 files above a level-1/level-2 pair that they do not both touch, the
/// newer level-0 file reaching further to one side: ranged manual compactions (open and closed
/// ranges at every key) must take both level-0 files or neither. `low`: the newer file reaches
/// below the older one (bounded-end ranges select it alone), else above it.
pub fn l0_overlap_family(name: &str, low: bool, depth: usize, ck: Checks) -> SeqSpec {
    // (128 reads of d resp. e: a key inside the newer level-0 file's range that only the older one
    // stores — the newer file runs out of allowed seeks and is compacted because of reads alone)
    let mut alphabet = vec![Op::Put(0, 0), Op::Put(2, 0), Op::Del(1), Op::Batch(vec![(1, true), (2, true)]), Op::GetMany(if low { 1 } else { 2 }, 128)];
    let ends: Vec<Option<u8>> = vec![None, Some(0), Some(1), Some(2), Some(3)];
    for b in ends.iter() {
        for e in ends.iter() {
            let keep = match (b, e) {
                (None, _) | (_, None) => true,
                (Some(x), Some(y)) => x == y || (*x == 0 && *y == 1) || (*x == 2 && *y == 3),
            };
            if keep {
                alphabet.push(Op::Compact(*b, *e));
            }
        }
    }
    let setup = if low {
        // L2 [f], L1 [f], L0 older [d e f], L0 newer [c e]
        vec![Op::Put(3, 0), Op::Flush, Op::Put(3, 0), Op::Flush, Op::Batch(vec![(1, true), (2, true), (3, true)]), Op::Flush, Op::Batch(vec![(0, true), (2, true)]), Op::Flush]
    } else {
        // L2 [c], L1 [c], L0 older [c d e], L0 newer [d f]
        vec![Op::Put(0, 0), Op::Flush, Op::Put(0, 0), Op::Flush, Op::Batch(vec![(0, true), (1, true), (2, true)]), Op::Flush, Op::Batch(vec![(1, true), (3, true)]), Op::Flush]
    };
    spec(name, &["T300"], k4s(), alphabet, depth, ck).flush().with_setup(setup)
}

/// An older level-0 table nested inside the key range of a newer, larger one (the older one comes
/// from the WAL replay of a reopen without log reuse, so there is no level-1 table underneath; the
/// newer one holds a 3000-byte value and exceeds max_file_size): manual compactions over every
/// range must never move the newer table down alone.
pub fn l0_nested_family(name: &str, depth: usize, ck: Checks) -> SeqSpec {
    let mut alphabet = vec![Op::Put(1, 0), Op::Del(1), Op::Put(3, 0)];
    let ends: Vec<Option<u8>> = vec![None, Some(0), Some(1), Some(2), Some(3)];
    for b in ends.iter() {
        for e in ends.iter() {
            let keep = match (b, e) {
                (None, _) | (_, None) => true,
                (Some(x), Some(y)) => x == y || (*x == 0 && *y == 2),
            };
            if keep {
                alphabet.push(Op::Compact(*b, *e));
            }
        }
    }
    alphabet.push(Op::Reopen(0));
    // older level-0 table [d]; newer level-0 table [c(3000 B) d e]
    let setup = vec![Op::Put(1, 0), Op::Reopen(1), Op::Put(0, 3), Op::Put(2, 0), Op::Put(1, 0), Op::Flush];
    spec(name, &["T300", "T300n"], k4s(), alphabet, depth, ck).with_setup(setup)
}

/// Boundary tables: two neighbouring level-1 tables that split the versions of one user key
/// ([a, k@new] and [k@old, x]; a live snapshot keeps both versions, 3000-byte values make the
/// compaction cut its output there) above two level-2 tables [a0] and [m], of which [m] lies only
/// under the tail of the second level-1 table. A compaction that starts from the first level-1
/// table has to take the second one along (same user key) and with it the level-2 table [m].
pub fn boundary_tables_family(name: &str, depth: usize, ck: Checks) -> SeqSpec {
    let keys = vec![b"a".to_vec(), b"a0".to_vec(), b"k".to_vec(), b"m".to_vec(), b"x".to_vec()];
    let setup = vec![
        Op::Put(3, 0), Op::Flush, Op::Put(1, 0), Op::Flush, Op::Put(0, 3), Op::Put(4, 0), Op::Flush, Op::Put(2, 3), Op::Snap, Op::Put(2, 3), Op::Flush,
        Op::Compact(Some(2), Some(2)),
    ];
    let alphabet = vec![
        Op::Compact(Some(0), Some(1)),
        Op::Compact(Some(0), Some(0)),
        Op::Compact(None, Some(1)),
        Op::Compact(Some(3), Some(4)),
        Op::Compact(Some(1), Some(3)),
        Op::Compact(None, None),
        Op::Put(2, 0),
        Op::Put(4, 0),
        Op::Del(0),
        Op::Release(0),
        Op::Flush,
    ];
    spec(name, &["T300"], keys, alphabet, depth, ck).with_setup(setup)
}

/// four stored keys c < d < e < f
pub fn k4s() -> Vec<Vec<u8>> {
    vec![b"c".to_vec(), b"d".to_vec(), b"e".to_vec(), b"f".to_vec()]
}

pub fn rich_family(name: &str, keys: Vec<Vec<u8>>, alphabet: Vec<Op>, depth: usize, ck: Checks) -> SeqSpec {
    spec(name, &["T300"], keys, alphabet, depth, ck).flush().with_setup(rich_setup())
}
