//! Fault mode of `crashx` (C08): for every position of a single injected I/O failure (once or
//! sticky) in the stream of filesystem calls of a history, re-execute the history on the real
//! database and check that failures are reported, never swallowed.

use std::collections::BTreeSet;
use std::sync::{Arc, Mutex};

use serde_json::{json, Value};

use raindb::{Batch, ReadOptions, WriteOptions, DB};

use crate::crashx::{read_contents, History};
use crate::run::{run_once, Outcome};
use crate::sched::{Mode, Sched};
use crate::shm::*;
use crate::vfs::{class, VerifFs};
use crate::world::*;

#[derive(Clone, Debug)]
pub struct Injection {
    pub at_call: u64,
    pub sticky: bool,
    pub classes: u32,
    /// what the failing call, if it is a write, leaves in the file (`vfs::Fault::partial`)
    pub partial: u8,
}

pub fn partial_name(p: u8) -> &'static str {
    match p {
        1 => "first half of the buffer written before the error",
        2 => "all but the last byte written before the error",
        3 => "first 7 bytes (one log-record header) written before the error",
        _ => "nothing written",
    }
}

pub fn partial_from_name(s: Option<&str>) -> u8 {
    (0..=3u8).find(|p| Some(partial_name(*p)) == s).unwrap_or(0)
}

#[derive(Clone, Debug, Default)]
pub struct FaultRun {
    pub calls: u64,
    pub fired: u64,
    pub api_errors: u64,
    pub call_sig: Option<String>,
    /// class of every counted call, in order (numbering run)
    pub call_classes: Vec<u32>,
    pub violation: Option<(String, String)>,
    pub trace: Vec<String>,
}

fn apply_to(m: &Model, w: &[(Vec<u8>, Option<Vec<u8>>)]) -> Model {
    let mut m = m.clone();
    for (k, v) in w {
        match v {
            Some(v) => {
                m.insert(k.clone(), v.clone());
            }
            None => {
                m.remove(k);
            }
        }
    }
    m
}

fn show_model(m: &Model) -> String {
    format!("{{{}}}", m.iter().map(|(k, v)| format!("{}={}", esc(k), show_val(v))).collect::<Vec<_>>().join(", "))
}

/// Read every key; `Err` reads are allowed. The non-error reads must be explained by one
/// candidate model.
fn check_reads(db: &DB, keys: &[Vec<u8>], cands: &BTreeSet<Model>, when: &str) -> Result<u64, (String, String)> {
    let mut got: Vec<(Vec<u8>, Option<Vec<u8>>)> = vec![];
    let mut errs = 0u64;
    for k in keys {
        match db_get(db, k, None) {
            Ok(v) => got.push((k.clone(), v)),
            Err(_) => errs += 1,
        }
    }
    // one long-lived iterator, parked at the first entry, then positioned at every key; a seek
    // that fails is retried once on the same iterator (the caller's natural reaction to a
    // transient error). A position reached without an error must be the first entry not less
    // than the target in the same candidate state that explains the gets.
    let mut seeks: Vec<(Vec<u8>, Option<(Vec<u8>, Vec<u8>)>)> = vec![];
    match db.new_iterator(ReadOptions::default()) {
        Err(_) => errs += 1,
        Ok(it) => {
            let mut it: DbIter = Box::new(it);
            if it.seek_to_first().is_err() || it.take_error().is_some() {
                errs += 1;
            }
            for k in keys {
                for _attempt in 0..2 {
                    let r = it.seek(k);
                    let e = it.take_error();
                    if r.is_ok() && e.is_none() {
                        seeks.push((k.clone(), if it.is_valid() { it.current().map(|(a, b)| (a.clone(), b.clone())) } else { None }));
                        break;
                    }
                    errs += 1;
                }
            }
        }
    }
    // full scans, forwards and backwards, on fresh iterators: a scan that ends without an error
    // must have delivered everything
    let mut scans: Vec<(&'static str, Vec<(Vec<u8>, Vec<u8>)>)> = vec![];
    for dir in ["forward", "backward"] {
        match db.new_iterator(ReadOptions::default()) {
            Err(_) => errs += 1,
            Ok(it) => {
                let mut it: DbIter = Box::new(it);
                match if dir == "forward" { scan_forward(&mut it) } else { scan_backward(&mut it) } {
                    Ok(kv) => scans.push((dir, kv)),
                    Err(_) => errs += 1,
                }
            }
        }
    }
    let explains_scans = |m: &Model| scans.iter().all(|(_, kv)| kv.len() == m.len() && kv.iter().zip(m.iter()).all(|((k, v), (mk, mv))| k == mk && v == mv));
    let gets_ok = |m: &Model| got.iter().all(|(k, v)| m.get(k) == v.as_ref());
    if cands.iter().any(|m| gets_ok(m)) && !cands.iter().any(|m| gets_ok(m) && explains_scans(m)) {
        return Err((
            "C08.stale_or_lost_read".into(),
            format!(
                "{}: a scan ended without an error but incomplete or wrong: {} (candidates: {})",
                when,
                scans
                    .iter()
                    .map(|(d, kv)| format!("{} scan [{}]", d, kv.iter().map(|(k, v)| format!("{}={}", esc(k), show_val(v))).collect::<Vec<_>>().join(" ")))
                    .collect::<Vec<_>>()
                    .join("; "),
                cands.iter().map(show_model).collect::<Vec<_>>().join(" | ")
            ),
        ));
    }
    let explains_seeks = |m: &Model| explains_scans(m) && seeks.iter().all(|(t, got)| m.range(t.clone()..).next().map(|(k, v)| (k.clone(), v.clone())) == *got);
    let ok = cands.iter().any(|m| got.iter().all(|(k, v)| m.get(k) == v.as_ref()) && explains_seeks(m));
    if !ok && cands.iter().any(|m| got.iter().all(|(k, v)| m.get(k) == v.as_ref())) {
        return Err((
            "C08.stale_or_lost_read".into(),
            format!(
                "{}: a long-lived iterator (a failed seek retried once) was positioned without an error at [{}] which no candidate state explains together with the gets (candidates: {})",
                when,
                seeks
                    .iter()
                    .map(|(t, g)| format!("seek({})->{}", esc(t), g.as_ref().map(|(k, v)| format!("{}={}", esc(k), show_val(v))).unwrap_or("end".into())))
                    .collect::<Vec<_>>()
                    .join(", "),
                cands.iter().map(show_model).collect::<Vec<_>>().join(" | ")
            ),
        ));
    }
    if !ok {
        return Err((
            "C08.stale_or_lost_read".into(),
            format!(
                "{}: reads returned [{}] which no candidate state explains (candidates: {})",
                when,
                got.iter().map(|(k, v)| format!("{}={}", esc(k), v.as_ref().map(|v| show_val(v)).unwrap_or("KeyNotFound".into()))).collect::<Vec<_>>().join(", "),
                cands.iter().map(show_model).collect::<Vec<_>>().join(" | ")
            ),
        ));
    }
    Ok(errs)
}

/// Execute the history with the given injection (None = numbering run). Inside an execution.
pub fn run_with_fault(h: &History, inj: Option<&Injection>, classes: u32) -> FaultRun {
    let mut out = FaultRun::default();
    let fs = VerifFs::new();
    match inj {
        Some(i) => {
            fs.arm_fault(i.at_call, i.sticky, i.classes);
            fs.set_fault_partial(i.partial);
        }
        None => fs.count_calls(classes),
    }
    fs.state().trace_calls = true;
    let mut cfg = h.cfgs[0];
    let mut cands: BTreeSet<Model> = BTreeSet::new();
    cands.insert(Model::new());
    let mut stamp = 0u64;
    let mut db: Option<DB> = None;
    let mut note = |out: &mut FaultRun, s: String| {
        if out.trace.len() < 60 {
            out.trace.push(s);
        }
    };
    // initial open
    match DB::open(db_options(&fs, &cfg)) {
        Ok(d) => db = Some(d),
        Err(e) => {
            out.api_errors += 1;
            note(&mut out, format!("open -> Err({})", e.to_string().chars().take(60).collect::<String>()));
        }
    }
    for op in h.ops.iter() {
        if db.is_none() {
            // a failed open: try again (a transient fault is gone; a sticky one persists)
            match DB::open(db_options(&fs, &cfg)) {
                Ok(d) => db = Some(d),
                Err(_) => {
                    out.api_errors += 1;
                    note(&mut out, "open(retry) -> Err".into());
                    continue;
                }
            }
        }
        let d = db.as_ref().unwrap();
        let mut write: Option<Vec<(Vec<u8>, Option<Vec<u8>>)>> = None;
        let mut result: Option<Result<(), String>> = None;
        match op {
            Op::Put(k, c) => {
                stamp += 1;
                let key = h.keys[*k as usize].clone();
                let v = value_for(stamp, *k, *c, &cfg);
                result = Some(d.put(WriteOptions::default(), key.clone(), v.clone()).map_err(|e| e.to_string()));
                write = Some(vec![(key, Some(v))]);
            }
            Op::Del(k) => {
                stamp += 1;
                let key = h.keys[*k as usize].clone();
                result = Some(d.delete(WriteOptions::default(), key.clone()).map_err(|e| e.to_string()));
                write = Some(vec![(key, None)]);
            }
            Op::Batch(items) => {
                stamp += 1;
                let mut b = Batch::new();
                let mut w = vec![];
                for (j, (k, is_put)) in items.iter().enumerate() {
                    let key = h.keys[*k as usize].clone();
                    if *is_put {
                        let v = value_for(stamp * 10 + j as u64, *k, 0, &cfg);
                        b.add_put(key.clone(), v.clone());
                        w.push((key, Some(v)));
                    } else {
                        b.add_delete(key.clone());
                        w.push((key, None));
                    }
                }
                result = Some(d.apply(WriteOptions::default(), b).map_err(|e| e.to_string()));
                write = Some(w);
            }
            Op::BatchBig(items) => {
                stamp += 1;
                let mut b = Batch::new();
                let mut w = vec![];
                for (j, k) in items.iter().enumerate() {
                    let key = h.keys[*k as usize].clone();
                    let v = value_for(stamp * 10 + j as u64, *k, if j == 0 { 1 } else { 0 }, &cfg);
                    b.add_put(key.clone(), v.clone());
                    w.push((key, Some(v)));
                }
                result = Some(d.apply(WriteOptions::default(), b).map_err(|e| e.to_string()));
                write = Some(w);
            }
            Op::Flush => {
                let z = flush_key();
                d.compact_range(Some(&z[..])..Some(&z[..]));
            }
            Op::Compact(a, b) => {
                let ka = a.map(|i| h.keys[i as usize].clone());
                let kb = b.map(|i| h.keys[i as usize].clone());
                d.compact_range(ka.as_deref()..kb.as_deref());
            }
            Op::Reopen(c) => {
                db = None; // close: must neither hang nor panic
                cfg = h.cfgs[*c as usize % h.cfgs.len()];
                match DB::open(db_options(&fs, &cfg)) {
                    Ok(d) => db = Some(d),
                    Err(e) => {
                        out.api_errors += 1;
                        note(&mut out, format!("reopen -> Err({})", e.to_string().chars().take(60).collect::<String>()));
                    }
                }
            }
            _ => {}
        }
        if let (Some(w), Some(r)) = (write, result) {
            match r {
                Ok(()) => {
                    cands = cands.iter().map(|m| apply_to(m, &w)).collect();
                    note(&mut out, format!("{} -> Ok", op.short(&h.keys)));
                }
                Err(e) => {
                    out.api_errors += 1;
                    let more: Vec<Model> = cands.iter().map(|m| apply_to(m, &w)).collect();
                    cands.extend(more);
                    note(&mut out, format!("{} -> Err({})", op.short(&h.keys), e.chars().take(60).collect::<String>()));
                }
            }
        }
        if parking_lot::verif_rt::in_execution() {
            shuttle::thread::yield_now();
        }
        if let Some(d) = db.as_ref() {
            match check_reads(d, &h.keys, &cands, &format!("after {}", op.short(&h.keys))) {
                Ok(e) => out.api_errors += e,
                Err(v) => {
                    out.violation = Some(v);
                    std::mem::forget(db);
                    finish(&fs, &mut out);
                    return out;
                }
            }
        }
    }
    drop(db);
    finish(&fs, &mut out);
    // fault gone: reopen must succeed and show a candidate
    fs.disarm();
    match DB::open(db_options(&fs, &cfg)) {
        Err(e) => {
            out.violation = Some(("C08.reopen_fails_after_fault_cleared".into(), format!("DB::open fails after the fault is gone: {}", e)));
        }
        Ok(d) => match read_contents(&d, &h.keys) {
            Err(v) => out.violation = Some((format!("C08.{}", v.clause.trim_start_matches("recover.")), v.detail)),
            Ok(m) => {
                if !cands.contains(&m) {
                    let lost = cands.iter().all(|c| c.iter().any(|(k, v)| m.get(k) != Some(v)));
                    out.violation = Some((
                        if lost { "C08.acknowledged_write_lost".into() } else { "C08.unexplained_state".into() },
                        format!(
                            "after the fault was cleared and the database reopened it contains {} but the results of the calls allow only: {}",
                            show_model(&m),
                            cands.iter().map(show_model).collect::<Vec<_>>().join(" | ")
                        ),
                    ));
                    std::mem::forget(d);
                }
            }
        },
    }
    out
}

fn finish(fs: &VerifFs, out: &mut FaultRun) {
    let st = fs.state();
    out.calls = st.calls;
    out.fired = st.faults_fired;
    out.call_classes = st.call_trace.iter().map(|(c, _)| *c).collect();
    if let Some(f) = st.fault.as_ref() {
        if f.at_call != u64::MAX {
            if let Some((c, name)) = st.call_trace.get(f.at_call as usize) {
                let kind = if name.ends_with(".log") {
                    "wal"
                } else if name.ends_with(".rdb") {
                    "table"
                } else if name.ends_with(".manifest") {
                    "manifest"
                } else if name.ends_with(".dbtemp") {
                    "temp"
                } else if name == "CURRENT" {
                    "CURRENT"
                } else {
                    "dir/other"
                };
                out.call_sig = Some(format!("{}:{}", class::name(*c), kind));
            }
        }
    }
}

fn push(shm: &Shm, h: &History, clause: &str, detail: &str, point: Value) {
    shm.add(C_VIOLATIONS, 1);
    let v = json!({"history": h.name, "ops": h.ops_str(), "clause": clause, "detail": detail, "point": point});
    shm.push_record(b'V', v.to_string().as_bytes());
}

/// One execution with one injection, isolated against panics/hangs. Returns the run.
pub fn one_injection(h: &History, inj: Option<Injection>, classes: u32) -> (Option<FaultRun>, Option<Outcome>) {
    let slot: Arc<Mutex<Option<FaultRun>>> = Arc::new(Mutex::new(None));
    let slot2 = Arc::clone(&slot);
    let h2 = h.clone();
    let s = Sched::new(Mode::Fixed);
    let out = run_once(&s, move || {
        let r = run_with_fault(&h2, inj.as_ref(), classes);
        *slot2.lock().unwrap() = Some(r);
    });
    let r = slot.lock().unwrap().take();
    (r, out)
}

pub fn fault_job(h: &History, classes: u32, partial_writes: bool, shm: &Arc<Shm>) {
    // numbering run
    let (r0, o0) = one_injection(h, None, classes);
    let mut call_classes: Vec<u32> = vec![];
    let n = match (r0, o0) {
        (Some(r), Some(Outcome::Ok)) if r.violation.is_none() => {
            call_classes = r.call_classes.clone();
            r.calls
        }
        (r, o) => {
            push(shm, h, "record.failed", &format!("uninjected run failed: {:?} {:?}", r.and_then(|r| r.violation), o), json!({}));
            return;
        }
    };
    for i in 0..n {
        // a failing write is tried four ways: nothing, half, all but one byte, one header written
        let is_write = call_classes.get(i as usize).map(|c| c & class::WRITE != 0).unwrap_or(false);
        let variants: &[(bool, u8)] = if is_write && partial_writes {
            &[(false, 0), (true, 0), (false, 1), (false, 2), (false, 3), (true, 1)]
        } else {
            &[(false, 0), (true, 0)]
        };
        for &(sticky, partial) in variants {
            let inj = Injection {
                at_call: i,
                sticky,
                classes,
                partial,
            };
            shm.add(C_CASES, 1);
            let (r, o) = one_injection(h, Some(inj), classes);
            let point = |sig: Option<String>| json!({"failing_call_index": i, "of": n, "mode": if sticky { "sticky" } else { "once" }, "failing_write_leaves": partial_name(partial), "call_site": sig});
            // a run that already reported an oracle violation leaves its database un-closed on
            // purpose; the runtime's complaint about the orphaned background task is not a verdict
            let o = if r.as_ref().map(|r| r.violation.is_some()).unwrap_or(false) { Some(Outcome::Ok) } else { o };
            match o {
                Some(Outcome::Ok) => {}
                Some(Outcome::Panic { msg, bg }) => {
                    push(shm, h, if bg { "C08.bg_panic" } else { "C08.panic" }, &format!("panic under an injected fault: {}", msg), point(None));
                    continue;
                }
                Some(Outcome::Deadlock(m)) => {
                    push(shm, h, "C08.hang", &m, point(None));
                    continue;
                }
                Some(Outcome::StepBound) => {
                    push(shm, h, "C08.hang", "step bound exceeded", point(None));
                    continue;
                }
                Some(Outcome::Divergence(m)) => {
                    push(shm, h, "machinery.divergence", &m, point(None));
                    continue;
                }
                None => continue,
            }
            if let Some(r) = r {
                if r.fired > 0 {
                    shm.add(C_NONTRIVIAL, 1);
                    if let Some(sig) = r.call_sig.as_ref() {
                        let hsh = sig.bytes().fold(1469598103934665603u64, |h, b| (h ^ b as u64).wrapping_mul(1099511628211));
                        if shm.insert_state(hsh) {
                            shm.push_record(b'S', sig.as_bytes());
                        }
                    }
                }
                if let Some((c, d)) = r.violation {
                    let mut p = point(r.call_sig.clone());
                    p["trace"] = json!(r.trace);
                    push(shm, h, &c, &d, p);
                }
            }
        }
    }
}
