//! Property checks decided by the crash / fault / corruption enumerator: C02 C08 C15 C16 (+C11b).

use std::time::{Duration, Instant};

use serde_json::json;

use crate::crashx::*;
use crate::props_seq::{cfgs, k3, k4, k5, workers};
use crate::report::{Finding, Report};
use crate::world::*;

fn crash_alphabet() -> Vec<Op> {
    vec![
        Op::Put(0, 0),
        Op::Del(0),
        Op::Batch(vec![(0, true), (1, true), (2, false)]),
        Op::BatchBig(vec![1, 2]),
        Op::Flush,
        Op::Compact(None, None),
        Op::Reopen(0),
    ]
}

pub fn covering_histories(cfg_names: &[&str]) -> Vec<History> {
    use Op::*;
    let mk = |name: &str, c: &str, ops: Vec<Op>| History {
        name: format!("{}/{}", name, c),
        cfgs: cfgs(&[c]),
        keys: k3(),
        ops,
    };
    let mut v = vec![];
    for c in cfg_names {
        // flush, L0->L1 compaction with several outputs, trivial move, manifest switch (reopen),
        // obsolete-file deletion, overwrite + delete above older values
        v.push(mk(
            "cover-A",
            c,
            vec![
                Put(0, 0), Put(1, 0), Flush, Put(0, 0), Put(2, 0), Flush, Del(1), Flush, Batch(vec![(0, true), (1, true)]),
                Compact(None, None), Put(2, 0), Reopen(0), Put(1, 0), Flush, Del(0), Flush, Compact(Some(0), Some(1)),
                BatchBig(vec![0, 2]), Reopen(0), Put(0, 0), Flush, Compact(None, None), Del(2), Put(1, 0),
            ],
        ));
        v.push(mk(
            "cover-B",
            c,
            vec![
                BatchBig(vec![0, 1]), Put(2, 0), Reopen(0), Del(0), Put(0, 0), Flush, Put(1, 0), Flush, Put(2, 0), Flush,
                Put(0, 0), Flush, Compact(None, None), Reopen(0), Del(1), Del(2), Flush, Compact(None, None), Put(1, 0),
                Reopen(0), Batch(vec![(0, false), (1, true), (2, true)]),
            ],
        ));
        v.push(mk(
            "cover-C",
            c,
            vec![
                Put(0, 0), Put(0, 0), Put(1, 0), Put(1, 0), Put(2, 0), Put(2, 0), Del(0), Put(0, 0), Batch(vec![(1, true), (2, true)]),
                Put(0, 0), Del(2), Put(1, 0), Reopen(0), Put(2, 0), Put(0, 0), Del(1), Put(1, 0), Put(2, 0), Compact(None, None),
                Put(0, 0), Reopen(0), Put(1, 0),
            ],
        ));
    }
    v
}

/// written with a large memtable budget, recovered with small ones: recovery flushes several
/// memtables while replaying one WAL (and crashes in the middle of that)
pub fn shrink_history() -> Vec<History> {
    use Op::*;
    let mut v = vec![];
    v.push(History {
        name: "cover-shrink/D->R->M2n".to_string(),
        cfgs: cfgs(&["D", "R", "M2n", "Rn"]),
        keys: k3(),
        ops: vec![
            Put(0, 0), Put(1, 0), Put(2, 0), Del(0), Put(1, 0), Batch(vec![(0, true), (2, true)]), Del(2), Put(2, 0), Reopen(1), Put(0, 0), Del(1), Reopen(2),
            Put(1, 0), Reopen(3), Batch(vec![(0, false), (1, true)]), Reopen(0), Put(2, 0),
        ],
    });
    // the extreme byte-string keys ("", 00, a, a ff, ff) and empty values: lone deletes and puts of
    // them are the smallest records a WAL can hold; they are replayed by reopens with and without
    // log reuse, before and after a flush
    v.push(History {
        name: "cover-bytes/D->T300n".to_string(),
        cfgs: cfgs(&["D", "T300n"]),
        keys: k5(),
        ops: vec![
            Put(0, 0), Put(1, 0), Put(4, 0), Del(0), Reopen(0), Put(0, 4), Del(1), Put(2, 0), Del(4), Reopen(1), Del(0), Put(3, 0), Del(2), Reopen(0),
            Put(0, 0), Flush, Del(0), Del(3), Reopen(1), Put(4, 4), Batch(vec![(0, true), (4, false)]), Reopen(0), Del(0),
        ],
    });
    // 4500-byte keys: every version edit is ~9 kB, so the manifest passes the end of its first
    // 32 KiB block and one edit is written as two fragments (two filesystem calls); a later manifest
    // (after the reopen without reuse) starts with a snapshot record that is itself fragmented
    v.push(History {
        name: "cover-longkeys/T300->T300n".to_string(),
        cfgs: cfgs(&["T300", "T300n"]),
        keys: vec![vec![b'c'; 4500], vec![b'e'; 4500], vec![b'f'; 4500]],
        ops: vec![
            Put(0, 0), Flush, Put(1, 0), Flush, Put(2, 0), Flush, Put(0, 0), Flush, Put(1, 0), Flush, Del(2), Flush, Put(1, 0), Reopen(1), Put(2, 0), Flush, Put(0, 0),
            Reopen(0), Put(1, 0),
        ],
    });
    // the write-ahead log's block arithmetic under recovery: the first record (a 32739- resp.
    // 32740-byte value under a one-byte key) ends 7 resp. 6 bytes before the end of the first
    // 32 KiB block, so the record after it begins with an empty First fragment resp. behind a
    // 6-byte trailer; then more small records, reopens with and without log reuse
    for (name, class) in [("7-bytes-left", 9u8), ("6-bytes-left", 10u8)] {
        v.push(History {
            name: format!("cover-wal-block-edge-{}/D->T300n", name),
            cfgs: cfgs(&["D", "T300n"]),
            keys: vec![b"c".to_vec(), b"e".to_vec(), b"f".to_vec()],
            ops: vec![Put(0, class), Put(1, 0), Put(2, 0), Del(1), Reopen(0), Put(1, 0), Put(0, class), Put(2, 0), Reopen(1), Put(1, 0), Reopen(0), Put(2, 0)],
        });
    }
    // levels 1..=5 limited to 250 bytes: every flush sets off a cascade of size-triggered
    // compactions and trivial moves down to the last level (crash / fault inside the cascade)
    v.push(History {
        name: "cover-levels/L->Ln".to_string(),
        cfgs: cfgs(&["L", "Ln"]),
        keys: k4(),
        ops: vec![
            Put(0, 0), Flush, Put(1, 0), Flush, Put(2, 0), Flush, Put(3, 0), Flush, Put(0, 0), Flush, Put(1, 0), Flush, Del(2), Flush, Put(3, 0), Reopen(1),
            Put(0, 0), Flush, Del(1), Flush, Batch(vec![(2, true), (3, true)]), Flush, Put(1, 0), Reopen(0), Put(2, 0), Flush,
        ],
    });
    v
}

/// Compactions whose inputs are opened lazily from a cold table cache (a reopen precedes them):
/// one-entry blocks, outputs that close after every second entry, the newest version of the
/// largest key as the very last merged entry; plus a multi-file level 1 over a multi-file level 2.
pub fn compaction_input_histories() -> Vec<History> {
    use Op::*;
    let mut v = vec![];
    for n in 2..=4usize {
        let top: Vec<(u8, bool)> = (0..n as u8).map(|k| (k, true)).collect();
        let last = (n - 1) as u8;
        for over_older in [true, false] {
            let bottom = if over_older { Batch(vec![(0, true), (last, true)]) } else { Put(0, 0) };
            v.push(History {
                name: format!("compaction-inputs-{}-{}/T1p", if over_older { "over-older" } else { "only" }, n),
                cfgs: cfgs(&["T1p"]),
                keys: vec![b"c".to_vec(), b"d".to_vec(), b"e".to_vec(), b"f".to_vec()],
                ops: vec![bottom, Flush, Batch(top.clone()), Flush, Reopen(0), Put(0, 0), Compact(None, None), Reopen(0)],
            });
        }
    }
    // the second table of the parent level is opened lazily, after an output has been closed, and
    // everything that is merged after that point is dropped (the older version of the first key;
    // a tombstone that reaches the base level): a failure of that open meets a compaction that
    // has finished outputs, no open output and nothing left to write - and loses the table's keys
    // if nobody looks at the input error any more
    v.push(History {
        name: "compaction-inputs-late-parent-table-then-only-dropped-entries/T1p".to_string(),
        cfgs: cfgs(&["T1p"]),
        keys: vec![b"c".to_vec(), b"d".to_vec(), b"e".to_vec(), b"f".to_vec()],
        ops: vec![Put(0, 0), Flush, Batch(vec![(2, true), (3, true)]), Flush, Batch(vec![(0, true), (3, false)]), Flush, Reopen(0), Compact(None, None), Reopen(0)],
    });
    // (with one-byte blocks an output is closed once it holds two entries: the variant with two
    // kept entries in front of the late table has no open output when that table fails to open)
    v.push(History {
        name: "compaction-inputs-late-parent-table-after-a-closed-output/T1p".to_string(),
        cfgs: cfgs(&["T1p"]),
        keys: vec![b"c".to_vec(), b"d".to_vec(), b"e".to_vec(), b"f".to_vec()],
        // (tables [d] and [e,f] two levels down; [c, d, -f] above them: c and the new d are kept
        // and close an output, the old d is dropped, then the table [e,f] is opened, then -f is
        // dropped at the base level)
        ops: vec![Put(1, 0), Flush, Batch(vec![(2, true), (3, true)]), Flush, Batch(vec![(0, true), (1, true), (3, false)]), Flush, Reopen(0), Compact(None, None), Reopen(0)],
    });
    v.push(History {
        name: "compaction-inputs-multi-file-levels/T300".to_string(),
        cfgs: cfgs(&["T300"]),
        keys: k3(),
        ops: vec![
            Put(0, 0), Flush, Put(1, 0), Flush, Put(2, 0), Flush, Compact(None, None), Put(0, 0), Flush, Put(1, 0), Flush, Del(2), Flush, Reopen(0), Compact(None, None), Reopen(0),
        ],
    });
    v
}

/// every sequence of length 1..=depth over the crash alphabet, for each configuration
pub fn generated_histories(cfg_names: &[&str], depth: usize) -> Vec<History> {
    let a = crash_alphabet();
    let mut v = vec![];
    for c in cfg_names {
        let mut frontier: Vec<Vec<usize>> = vec![vec![]];
        for _ in 0..depth {
            let mut next = vec![];
            for f in frontier.iter() {
                for i in 0..a.len() {
                    let mut g = f.clone();
                    g.push(i);
                    next.push(g);
                }
            }
            for g in next.iter() {
                // a history ending in a non-mutating op adds no new crash point beyond its prefix
                // only if that op performs no filesystem work; keep all (flush/compact/reopen do)
                v.push(History {
                    name: format!("gen/{}/{}", c, g.iter().map(|i| i.to_string()).collect::<Vec<_>>().join("")),
                    cfgs: cfgs(&[c]),
                    keys: k3(),
                    ops: g.iter().map(|&i| a[i].clone()).collect(),
                });
            }
            frontier = next;
        }
    }
    v
}

pub fn run_crash(rep: &mut Report, label: &str, histories: Vec<History>, spec: CrashSpec, budget: Duration, own_clause: fn(&str) -> bool) {
    let only = std::env::var("RDBCHECK_ONLY").ok();
    let histories: Vec<History> = histories.into_iter().filter(|h| only.as_ref().map(|o| h.name.contains(o.as_str())).unwrap_or(true)).collect();
    if histories.is_empty() {
        return;
    }
    if let Some(req) = crate::report::replay_request("crashx") {
        let want = req["artefact"]["history"]["history"].as_str().unwrap_or("").to_string();
        if req["artefact"]["mode"].as_str() == Some(&format!("{:?}", spec.mode)) {
            if let Some(h) = histories.iter().find(|h| h.name == want) {
                let p = req["artefact"]["point"]["crash_after_fs_ops"].as_u64().unwrap_or(0) as usize;
                let torn = req["artefact"]["point"]["torn_to_bytes"].as_u64().map(|x| x as usize);
                let mut spec2 = spec.clone();
                spec2.nested = spec2.nested && req["artefact"]["point"]["nested_crash_after_recovery_fs_ops"].as_u64().is_some();
                let found = replay_crash_point(h, &spec2, p, torn);
                let want_clause = req["clause"].as_str().unwrap_or("");
                let hit = found.iter().find(|f| f.clause == want_clause).or(found.first());
                crate::report::replay_done(hit.map(|f| (f.clause.clone(), f.detail.clone())));
            }
        }
        return;
    }
    if crate::report::replay_active() {
        return;
    }
    let r = explore_crashes(&histories, &spec, workers(), Some(Instant::now() + budget));
    for m in r.machinery.iter() {
        rep.machinery.push(format!("{}: {}", label, m));
    }
    // validate the first finding per clause by an isolated replay (twice)
    let mut seen: std::collections::BTreeSet<String> = Default::default();
    let mut validated = 0u64;
    let mut observations: std::collections::BTreeMap<String, u64> = Default::default();
    for f in r.found.iter() {
        if !own_clause(&f.clause) {
            *observations.entry(f.clause.clone()).or_default() += 1;
            continue;
        }
        if seen.insert(f.clause.clone()) && f.point.get("crash_after_fs_ops").is_some() && !f.clause.contains("(nested)") {
            let h = histories.iter().find(|h| h.name == f.history).unwrap();
            let p = f.point["crash_after_fs_ops"].as_u64().unwrap_or(0) as usize;
            let torn = f.point["torn_to_bytes"].as_u64().map(|x| x as usize);
            let a = replay_crash_point(h, &spec, p, torn);
            let b = replay_crash_point(h, &spec, p, torn);
            let has = |v: &Vec<CFound>| v.iter().any(|x| x.clause == f.clause);
            if has(&a) && has(&b) {
                validated += 1;
                rep.validated_findings += 1;
            } else {
                rep.machinery.push(format!("{}: finding {} at {} did not reproduce on replay", label, f.clause, f.point));
            }
        }
        if rep.findings.len() < 1000 {
            let h = histories.iter().find(|h| h.name == f.history);
            rep.findings.push(Finding {
                clause: f.clause.clone(),
                detail: f.detail.clone(),
                ops: f.ops.clone(),
                artefact: json!({"explorer": "crashx", "mode": format!("{:?}", spec.mode), "history": h.map(|h| h.describe()), "point": f.point}),
            });
        } else {
            rep.extra_violations += 1;
        }
    }
    rep.cov_add("evaluations", r.evaluations);
    rep.cov_add("distinct_nontrivial", r.distinct_images);
    let prev = rep.coverage.get("exhaustive").and_then(|v| v.as_bool()).unwrap_or(true);
    rep.cov("exhaustive", json!(prev && !r.capped));
    rep.cov_push(
        "runs",
        json!({
            "label": label,
            "mode": format!("{:?}", spec.mode),
            "histories": r.histories,
            "crash_points_evaluated": r.evaluations,
            "of_which_nested": r.nested_evaluations,
            "distinct_crash_images": r.distinct_images,
            "completed": !r.capped,
            "findings": r.found.len(),
            "findings_revalidated_by_replay": validated,
            "wall_s": (r.wall_s * 10.0).round() / 10.0,
        }),
    );
    for h in histories.iter().take(2).chain(histories.iter().rev().take(2)) {
        rep.cov_push("samples", h.describe());
    }
    if !observations.is_empty() {
        rep.cov("observations_belonging_to_other_properties", json!(observations));
    }
}

const CRASH_ASSUMPTIONS: &[&str] = &[
    "process-crash model: the image after a crash is exactly the effect of a prefix of the totally ordered stream of mutating filesystem operations (create/truncate, write/append, rename, remove); no reordering or loss of completed operations (RainDB issues no sync)",
    "histories are executed once under the deterministic eager schedule (background work drained after every client operation); crash points cover that stream",
    "an operation is acknowledged at crash point p iff all filesystem operations issued before it returned are within the prefix",
];

fn budget(tier: &str, quick_s: u64, thorough_s: u64) -> Duration {
    match std::env::var("RDBCHECK_BUDGET_S").ok().and_then(|s| s.parse().ok()) {
        Some(s) => Duration::from_secs(s),
        None => {
            if tier == "thorough" {
                crate::report::scaled(Duration::from_secs(thorough_s))
            } else {
                Duration::from_secs(quick_s)
            }
        }
    }
}

pub fn c02(tier: &str) -> ! {
    let mut rep = Report::new("C02", tier, "fault_enumeration");
    let t = tier == "thorough";
    let own = |c: &str| c.starts_with("C02.");
    let spec = |nested: bool| CrashSpec {
        mode: CrashMode::Prefixes,
        nested,
        check_directory: false,
        prefix: "C02",
        cross_cfg: false,
        atomicity_only: false,
    };
    let all_cfgs = ["T300", "T300n", "M2", "M2n"];
    if t {
        run_crash(&mut rep, "covering+nested", covering_histories(&all_cfgs), spec(true), budget(tier, 40, 900), own);
        run_crash(&mut rep, "shrink+levels+nested", shrink_history(), spec(true), budget(tier, 40, 900), own);
        run_crash(&mut rep, "generated<=3+nested", generated_histories(&all_cfgs, 3), spec(true), budget(tier, 40, 900), own);
        run_crash(&mut rep, "generated<=5", generated_histories(&all_cfgs, 5), spec(false), budget(tier, 40, 900), own);
        run_crash(&mut rep, "generated<=4+nested", generated_histories(&["M2n", "T300"], 4), spec(true), budget(tier, 40, 900), own);
        run_crash(&mut rep, "generated<=4/levels", generated_histories(&["L", "Ln"], 4), spec(false), budget(tier, 40, 600), own);
        run_crash(&mut rep, "covering/recovered-with-other-options", covering_histories(&all_cfgs).into_iter().chain(shrink_history()).collect(), CrashSpec { cross_cfg: true, ..spec(false) }, budget(tier, 40, 900), own);
        run_crash(&mut rep, "generated<=4/recovered-with-other-options", generated_histories(&all_cfgs, 4), CrashSpec { cross_cfg: true, ..spec(false) }, budget(tier, 40, 900), own);
    } else {
        run_crash(&mut rep, "covering", covering_histories(&all_cfgs).into_iter().chain(shrink_history()).collect(), spec(false), budget(tier, 20, 0), own);
        run_crash(&mut rep, "covering+nested", covering_histories(&["M2", "T300n"]), spec(true), budget(tier, 20, 0), own);
        run_crash(&mut rep, "covering/recovered-with-other-options", covering_histories(&all_cfgs).into_iter().chain(shrink_history()).collect(), CrashSpec { cross_cfg: true, ..spec(false) }, budget(tier, 15, 0), own);
        run_crash(&mut rep, "generated<=3", generated_histories(&all_cfgs, 3), spec(false), budget(tier, 25, 0), own);
        run_crash(&mut rep, "generated<=2+nested", generated_histories(&all_cfgs, 2), spec(true), budget(tier, 15, 0), own);
    }
    // crash consistency under concurrency: at every file removal, manifest write and rename of every explored schedule of the
    // single-writer-vs-compaction programs a crash image is recovered (shared with C11)
    {
        use crate::props_sched::{c02_meta_programs, run_sched};
        let own2 = |c: &str| c == "C11.needed_file_removed" || c == "C02.concurrent_crash";
        if t {
            run_sched(&mut rep, "crash-at-every-removal-manifest-write-rename/p2d4", &c02_meta_programs(), (2, 4), 16, false, 2, Duration::from_secs(1500), own2);
        } else {
            run_sched(&mut rep, "crash-at-every-removal-manifest-write-rename/p1d3", &c02_meta_programs(), (1, 3), 4, false, 1, Duration::from_secs(20), own2);
        }
    }
    {
        use crate::props_sched::{c02_multiwriter_programs, run_sched};
        let own2 = |c: &str| c == "C11.needed_file_removed" || c == "C02.concurrent_crash";
        if t {
            run_sched(&mut rep, "multi-writer-crash-at-every-write/p2d4", &c02_multiwriter_programs(), (2, 4), 16, false, 2, Duration::from_secs(1500), own2);
        } else {
            run_sched(&mut rep, "multi-writer-crash-at-every-write/p1d3", &c02_multiwriter_programs(), (1, 3), 4, false, 1, Duration::from_secs(15), own2);
        }
    }
    for a in CRASH_ASSUMPTIONS {
        rep.assume(a);
    }
    rep.cov("rule", json!("one evaluation = one crash image (prefix of the filesystem-operation log of a history, optionally a second prefix of the recovery's own log) recovered with DB::open and checked: open succeeds; gets+scan equal the model of the acknowledged operations or that model plus the whole in-flight batch; probe writes succeed and are visible; clean close + reopen shows the same. distinct_nontrivial = number of distinct crash images (by content hash) among them"));
    rep.finish()
}

pub fn c16(tier: &str) -> ! {
    let mut rep = Report::new("C16", tier, "fault_enumeration");
    let t = tier == "thorough";
    let own = |c: &str| c.starts_with("C16.");
    let spec = CrashSpec {
        mode: CrashMode::Torn,
        nested: false,
        check_directory: false,
        prefix: "C16",
        cross_cfg: false,
        atomicity_only: false,
    };
    let all_cfgs = ["T300", "T300n", "M2", "M2n"];
    if t {
        run_crash(&mut rep, "covering", covering_histories(&all_cfgs).into_iter().chain(shrink_history()).collect(), spec.clone(), budget(tier, 40, 1500), own);
        run_crash(&mut rep, "generated<=4", generated_histories(&all_cfgs, 4), spec.clone(), budget(tier, 40, 1200), own);
        run_crash(&mut rep, "generated<=3/levels", generated_histories(&["L", "Ln"], 3), spec, budget(tier, 40, 600), own);
    } else {
        run_crash(&mut rep, "covering", covering_histories(&all_cfgs).into_iter().chain(shrink_history()).collect(), spec.clone(), budget(tier, 25, 0), own);
        run_crash(&mut rep, "generated<=3", generated_histories(&all_cfgs, 3), spec, budget(tier, 30, 0), own);
    }
    for a in CRASH_ASSUMPTIONS {
        rep.assume(a);
    }
    rep.cov("rule", json!("one evaluation = one torn image: a prefix of the filesystem-operation log ending in a write, that write cut at a length from {every length for writes <= 64 B; 1,2,6,7,8,half,len-1 and +-1 around each 32 KiB boundary otherwise}; recovered and checked like C02 (contents = acknowledged state, the torn operation absent or complete, never partial; probe writes acknowledged after recovery are present after the next clean reopen). distinct_nontrivial = distinct torn images by content hash"));
    rep.finish()
}

// ------------------------------------------------------------------------------------------------
// C08: single injected I/O failure at every position
// ------------------------------------------------------------------------------------------------

pub fn run_faults(rep: &mut Report, label: &str, histories: Vec<History>, classes: u32, partial_writes: bool, budget: Duration) {
    use crate::faultx::*;
    use crate::shm::*;
    use std::sync::Arc;
    let only = std::env::var("RDBCHECK_ONLY").ok();
    let histories: Vec<History> = histories.into_iter().filter(|h| only.as_ref().map(|o| h.name.contains(o.as_str())).unwrap_or(true)).collect();
    if histories.is_empty() {
        return;
    }
    if let Some(req) = crate::report::replay_request("faultx") {
        let want = req["artefact"]["history"]["history"].as_str().unwrap_or("").to_string();
        if let Some(h) = histories.iter().find(|h| h.name == want) {
            if req["artefact"]["classes"].as_u64() == Some(classes as u64) {
                let inj = Injection {
                    at_call: req["artefact"]["injection"]["failing_call_index"].as_u64().unwrap_or(0),
                    sticky: req["artefact"]["injection"]["mode"].as_str() == Some("sticky"),
                    classes,
                    partial: partial_from_name(req["artefact"]["injection"]["failing_write_leaves"].as_str()),
                };
                let (r, o) = one_injection(h, Some(inj), classes);
                let res = match (r.and_then(|r| r.violation), o) {
                    (Some(v), _) => Some(v),
                    (None, Some(crate::run::Outcome::Ok)) | (None, None) => None,
                    (None, Some(o)) => Some(("C08.panic_or_hang".to_string(), format!("{:?}", o))),
                };
                crate::report::replay_done(res);
            }
        }
        return;
    }
    if crate::report::replay_active() {
        return;
    }
    let t0 = Instant::now();
    let shm = Arc::new(Shm::new(1 << 16, 16 << 20));
    let hs = Arc::new(histories.clone());
    let hs2 = Arc::clone(&hs);
    let shm2 = Arc::clone(&shm);
    let (capped, machinery) = pool(hs.len(), workers(), &shm, Some(Instant::now() + budget), move |j| fault_job(&hs2[j], classes, partial_writes, &shm2));
    for m in machinery {
        rep.machinery.push(format!("{}: {}", label, m));
    }
    let (found, m2) = parse_found(&shm);
    for m in m2 {
        rep.machinery.push(format!("{}: {}", label, m));
    }
    let mut sigs: Vec<String> = vec![];
    for (tag, data) in shm.records() {
        if tag == b'S' {
            sigs.push(String::from_utf8_lossy(&data).to_string());
        }
    }
    sigs.sort();
    // validate the first finding per clause by re-running its injection twice
    let mut seen: std::collections::BTreeSet<String> = Default::default();
    let mut validated = 0u64;
    let mut observations: std::collections::BTreeMap<String, u64> = Default::default();
    for f in found.iter() {
        if !f.clause.starts_with("C08.") {
            *observations.entry(f.clause.clone()).or_default() += 1;
            continue;
        }
        if seen.insert(f.clause.clone()) {
            if let (Some(i), Some(mode)) = (f.point["failing_call_index"].as_u64(), f.point["mode"].as_str()) {
                let h = histories.iter().find(|h| h.name == f.history).unwrap();
                let inj = Injection { at_call: i, sticky: mode == "sticky", classes, partial: partial_from_name(f.point["failing_write_leaves"].as_str()) };
                let again = |inj: Injection| -> Option<String> {
                    // isolated: an injection may abort the process
                    let shm = Shm::new(1 << 4, 1 << 16);
                    let pid = unsafe { libc::fork() };
                    if pid == 0 {
                        crate::watchdog::arm();
                        let (r, o) = one_injection(h, Some(inj), classes);
                        let c = match (r.and_then(|r| r.violation), o) {
                            // same precedence as fault_job: an oracle violation wins
                            (Some((c, _)), _) => c,
                            (None, Some(crate::run::Outcome::Ok)) => "none".to_string(),
                            (None, Some(crate::run::Outcome::Panic { bg, .. })) => if bg { "C08.bg_panic".into() } else { "C08.panic".into() },
                            (None, Some(crate::run::Outcome::Deadlock(_))) | (None, Some(crate::run::Outcome::StepBound)) => "C08.hang".into(),
                            _ => "other".into(),
                        };
                        shm.push_record(b'R', c.as_bytes());
                        unsafe { libc::_exit(0) };
                    }
                    let mut st: libc::c_int = 0;
                    unsafe { libc::waitpid(pid, &mut st, 0) };
                    shm.records().into_iter().find(|(t, _)| *t == b'R').map(|(_, d)| String::from_utf8_lossy(&d).to_string())
                };
                let a = again(inj.clone());
                let b = again(inj);
                if a.as_deref() == Some(f.clause.as_str()) && b.as_deref() == Some(f.clause.as_str()) {
                    validated += 1;
                    rep.validated_findings += 1;
                } else {
                    rep.machinery.push(format!("{}: finding {} at {} did not reproduce: {:?} / {:?}", label, f.clause, f.point, a, b));
                }
            }
        }
        if rep.findings.len() < 1000 {
            let h = histories.iter().find(|h| h.name == f.history);
            let site = f.point["call_site"].as_str().unwrap_or("?").to_string();
            let mode = f.point["mode"].as_str().unwrap_or("?").to_string();
            let mut ops = f.ops.clone();
            ops.push(format!("fault {} at {}{}", mode, site, match f.point["failing_write_leaves"].as_str() { Some(s) if s != "nothing written" => format!(" ({})", s), _ => String::new() }));
            rep.findings.push(Finding {
                clause: f.clause.clone(),
                detail: f.detail.clone(),
                ops,
                artefact: json!({"explorer": "faultx", "history": h.map(|h| h.describe()), "injection": f.point, "classes": classes}),
            });
        } else {
            rep.extra_violations += 1;
        }
    }
    rep.cov_add("evaluations", shm.get(C_CASES));
    rep.cov_add("distinct_nontrivial", shm.get(C_NONTRIVIAL));
    let prev = rep.coverage.get("exhaustive").and_then(|v| v.as_bool()).unwrap_or(true);
    rep.cov("exhaustive", json!(prev && !capped));
    rep.cov_push(
        "runs",
        json!({
            "label": label,
            "histories": histories.len(),
            "injections_run": shm.get(C_CASES),
            "injections_whose_fault_fired": shm.get(C_NONTRIVIAL),
            "distinct_failing_call_sites": sigs,
            "completed": !capped,
            "findings": found.len(),
            "findings_revalidated": validated,
            "wall_s": (t0.elapsed().as_secs_f64() * 10.0).round() / 10.0,
        }),
    );
    for h in histories.iter().take(2).chain(histories.iter().rev().take(1)) {
        rep.cov_push("samples", h.describe());
    }
    if !observations.is_empty() {
        rep.cov("observations_belonging_to_other_properties", json!(observations));
    }
}

pub fn c08(tier: &str) -> ! {
    use crate::vfs::class;
    let mut rep = Report::new("C08", tier, "fault_enumeration");
    let t = tier == "thorough";
    if t {
        run_faults(&mut rep, "covering", covering_histories(&["T300", "T300n", "M2", "M2n"]).into_iter().chain(shrink_history()).collect(), class::PROPERTY_SET | class::LIST, false, budget(tier, 40, 1800));
        run_faults(&mut rep, "generated<=4", generated_histories(&["T300", "M2n"], 4), class::PROPERTY_SET, false, budget(tier, 40, 1200));
        run_faults(&mut rep, "generated<=5", generated_histories(&["T300"], 5), class::PROPERTY_SET, false, budget(tier, 40, 1500));
        run_faults(&mut rep, "generated<=3+all-classes", generated_histories(&["T300n", "M2", "L"], 3), class::ALL, false, budget(tier, 40, 900));
        run_faults(&mut rep, "covering+reads", covering_histories(&["T300", "T300n", "M2", "M2n"]).into_iter().chain(shrink_history()).collect(), class::ALL, false, budget(tier, 40, 1200));
        // only the read side fails (opening and reading files), writes stay healthy: a compaction
        // whose inputs cannot be read must not install a result that lacks their entries
        run_faults(&mut rep, "read-side-faults", compaction_input_histories().into_iter().chain(covering_histories(&["T300", "T300n"])).collect(), class::READ | class::OPEN, false, budget(tier, 40, 600));
        run_faults(&mut rep, "compaction-inputs+all-classes", compaction_input_histories(), class::ALL, false, budget(tier, 40, 600));
        run_faults(&mut rep, "covering/partial-writes", covering_histories(&["T300", "T300n", "M2", "M2n"]).into_iter().chain(shrink_history()).collect(), class::WRITE, true, budget(tier, 40, 1500));
        run_faults(&mut rep, "generated<=4/partial-writes", generated_histories(&["T300", "M2n"], 4), class::WRITE, true, budget(tier, 40, 1200));
    } else {
        run_faults(&mut rep, "read-side-faults", compaction_input_histories(), class::READ | class::OPEN, false, budget(tier, 15, 0));
        run_faults(&mut rep, "covering", covering_histories(&["T300", "T300n", "M2", "M2n"]).into_iter().chain(shrink_history()).collect(), class::PROPERTY_SET | class::LIST, false, budget(tier, 30, 0));
        run_faults(&mut rep, "covering+reads", covering_histories(&["M2"]), class::ALL, false, budget(tier, 15, 0));
        run_faults(&mut rep, "generated<=3", generated_histories(&["T300", "M2n"], 3), class::PROPERTY_SET, false, budget(tier, 25, 0));
        // a failing write that has written part of its buffer (half, all but one byte, one header)
        run_faults(&mut rep, "covering/partial-writes", covering_histories(&["T300", "M2n"]).into_iter().chain(shrink_history()).collect(), class::WRITE, true, budget(tier, 20, 0));
    }
    {
        use crate::props_sched::{c08_concurrent_programs, run_sched};
        let own2 = |c: &str| c.starts_with("C08.") || c.starts_with("C09.");
        if t {
            run_sched(&mut rep, "fault-under-concurrency/p2d4", &c08_concurrent_programs(), (2, 4), 16, false, 2, Duration::from_secs(1500), own2);
        } else {
            // (of the three rotating-writer programs the quick tier keeps the first)
            let progs: Vec<_> = c08_concurrent_programs().into_iter().filter(|p| !p.name.contains("wal-write-2-of-rotating") && !p.name.contains("wal-write-3-of-rotating")).collect();
            run_sched(&mut rep, "fault-under-concurrency/p1d3", &progs, (1, 3), 4, false, 1, Duration::from_secs(22), own2);
        }
        rep.assume("schedule part: a fault by file kind (once or sticky) during 2-3 thread programs; interleavings only at synchronisation operations and named points");
    }
    // the log writer itself under a failing filesystem (all write / flush call indices while
    // appending records around a block boundary)
    {
        let shm = std::sync::Arc::new(crate::shm::Shm::new(1 << 10, 1 << 20));
        for lens in crate::compx::log_fault_cases() {
            crate::compx::log_fault_case(&lens, &shm, "C08.log_ack_lost");
        }
        // the table builder under a failing filesystem
        let mut tcs = crate::compx::long_run_cases().into_iter().filter(|c| c.variant == 0 && matches!(c.long_run, Some(17) | Some(48))).collect::<Vec<_>>();
        tcs.extend(crate::compx::filter_table_cases().into_iter().take(4));
        for c in tcs.iter() {
            crate::compx::table_fault_case(c, &shm, "C08.table_build_ack_lost");
        }
        if crate::report::replay_request("compx").is_some() {
            // replay of a component finding: the enumeration above is short, it is simply re-run
            crate::report::replay_done(crate::compx::parse_found(&shm).into_iter().next().map(|(c, d, _)| (c, d)));
        }
        for (clause, detail, art) in crate::compx::parse_found(&shm) {
            rep.findings.push(Finding {
                clause,
                detail,
                ops: vec!["log writer / table builder under fault".to_string(), art.to_string()],
                artefact: json!({"explorer": "compx", "kind": "log_fault", "case": art}),
            });
            rep.validated_findings += 1;
        }
        rep.cov("log_appends_under_fault", json!(shm.get(crate::shm::C_USER + 5)));
        rep.cov("table_builds_under_fault", json!(shm.get(crate::shm::C_USER + 6)));
    }
    rep.assume("a failing call has no effect on the file (fail-before semantics); one fault per execution, either that single call (once) or that call and all later ones of the counted classes (sticky)");
    rep.assume("counted call classes: create, write/append, rename, remove, open-for-read, size (thorough adds list and, for one configuration, handle reads and flush)");
    rep.assume("histories executed under the deterministic eager schedule");
    rep.cov("rule", json!("one evaluation = one re-execution of a history with the i-th filesystem call failing (once or sticky), for every i of the uninjected run; judged: no panic, no hang (also at close); after every operation all keys are read (gets; one long-lived iterator parked at the first entry and positioned at every key, a failed seek retried once on the same iterator; a full forward and a full backward scan on fresh iterators) and the results that came without an error must be explained by one candidate state (Ok writes applied, Err writes applied or not; a scan that ends without an error is complete); after disarming the fault the database must reopen and contain a candidate state. Schedule part: every schedule within the stated bounds of writer/reader thread programs with a fault by file kind (once / sticky): the history must be linearizable with failed calls optional (an Ok write is visible to every later successful read) and after the fault is gone a reopened database holds, per key, a value no acknowledged write definitely overwrote. distinct_nontrivial = injections whose fault actually fired (the call index was reached)"));
    rep.finish()
}

// ------------------------------------------------------------------------------------------------
// C15: single-byte corruption at every offset of every file
// ------------------------------------------------------------------------------------------------

pub fn c15_histories() -> Vec<History> {
    use Op::*;
    let mk = |name: &str, c: &str, ops: Vec<Op>| History {
        name: name.to_string(),
        cfgs: cfgs(&[c]),
        keys: k3(),
        ops,
    };
    // One entry per block, compaction outputs closed after every second entry; the newest version
    // of the largest key lives in an upper-level table of 2..4 entries that the next compaction
    // merges as its very last input entry (an older version of it below on level 2, resp. no other
    // version at all); the unflushed write is to the smallest key, so nothing is merged after that
    // entry. Damage to that last block must not make the compaction drop the entry quietly.
    let mut upper = vec![];
    for n in 2..=4usize {
        let top: Vec<(u8, bool)> = (0..n as u8).map(|k| (k, true)).collect();
        let last = (n - 1) as u8;
        for over_older in [true, false] {
            let bottom = if over_older { Batch(vec![(0, true), (last, true)]) } else { Put(0, 0) };
            upper.push(History {
                name: format!("upper-level-last-key-{}-{}", if over_older { "over-older" } else { "only" }, n),
                cfgs: cfgs(&["T1p"]),
                keys: vec![b"c".to_vec(), b"d".to_vec(), b"e".to_vec(), b"f".to_vec()],
                ops: vec![bottom, Flush, Batch(top.clone()), Flush, Put(0, 0)],
            });
        }
    }
    let mut v = vec![
        mk("tables-L0-L1-L2", "T300", vec![Put(0, 0), Put(1, 0), Flush, Put(0, 0), Put(2, 0), Flush, Del(1), Put(0, 0), Flush, Put(2, 0)]),
        mk("wal-only", "D", vec![Put(0, 0), Put(1, 0), Del(0), Batch(vec![(0, true), (2, true)]), Put(1, 0)]),
        mk(
            "after-compaction",
            "T300",
            vec![Put(0, 0), Flush, Put(1, 0), Flush, Put(2, 0), Flush, Put(0, 0), Flush, Del(1), Flush, Compact(None, None), Put(1, 0), Reopen(0), Put(2, 0)],
        ),
        mk("multi-block-wal", "D", vec![Put(0, 0), BatchBig(vec![1, 2]), Put(0, 0), Del(2)]),
        // the value of the second write carries the byte image of a complete log record (a batch
        // `put f = GHOST`) where a reader that trusts a damaged length field would resume
        mk("wal-value-embeds-a-log-record", "D", vec![Put(0, 0), Put(1, 11), Put(0, 0)]),
        // the first record of the log spans two blocks; the part of its value that lands in the
        // second fragment reads as a serialized batch `put f = GHOST`
        mk("wal-second-fragment-reads-as-a-batch", "D", vec![Put(1, 12), Put(0, 0)]),
        mk("noreuse-manifest-snapshot", "T300n", vec![Put(0, 0), Flush, Put(1, 0), Flush, Reopen(0), Put(2, 0), Flush, Reopen(0), Put(0, 0)]),
        // files on six levels, a manifest with many trivial-move and compaction edits
        mk(
            "levels",
            "L",
            vec![Put(0, 0), Flush, Put(1, 0), Flush, Put(2, 0), Flush, Put(0, 0), Flush, Del(1), Flush, Put(2, 0), Flush, Put(1, 0), Reopen(0), Put(0, 0), Flush, Put(2, 0)],
        ),
        // one entry per table file and per block; every lookup passes the filter
        mk("one-entry-tables", "T1p", vec![Batch(vec![(0, true), (1, true), (2, true)]), Flush, Put(0, 0), Del(1), Flush, Compact(None, None), Put(1, 0), Flush, Put(2, 0)]),
        // 4500-byte keys: the manifest grows past a 32 KiB block, one of its records is split into
        // fragments (damage inside a Middle / Last fragment)
        History {
            name: "long-keys-fragmented-manifest".to_string(),
            cfgs: cfgs(&["T300"]),
            keys: vec![vec![b'c'; 4500], vec![b'e'; 4500], vec![b'f'; 4500]],
            // (each edit is ~9 kB, so the fourth one — the table with the newest version of the first
            // key, never overwritten afterwards — is the record split at offset 32768: losing it
            // changes a read)
            ops: vec![Put(0, 0), Flush, Put(1, 0), Flush, Put(2, 0), Flush, Put(0, 0), Flush, Put(1, 0), Flush, Put(2, 0), Flush, Put(1, 0), Flush, Put(2, 0)],
        },
        // tombstones above older values on deeper levels, rotation left an unflushed WAL
        mk("tombstones+rotation", "M2n", vec![Put(0, 0), Put(1, 0), Put(2, 0), Del(0), Del(1), Put(0, 0), Del(2), Put(1, 0), Reopen(0), Del(0), Put(2, 0)]),
    ];
    v.extend(upper);
    v
}

pub fn c15(tier: &str) -> ! {
    use crate::corruptx::*;
    use crate::shm::*;
    use std::sync::{Arc, Mutex};
    let mut rep = Report::new("C15", tier, "fault_enumeration");
    let t = tier == "thorough";
    let t0 = Instant::now();
    // build the images (one execution each)
    let mut imgs: Vec<BuiltImage> = vec![];
    for h in c15_histories() {
        let slot: Arc<Mutex<Option<Result<BuiltImage, String>>>> = Arc::new(Mutex::new(None));
        let slot2 = Arc::clone(&slot);
        let h2 = h.clone();
        let s = crate::sched::Sched::new(crate::sched::Mode::Fixed);
        let o = crate::run::run_once(&s, move || {
            *slot2.lock().unwrap() = Some(build_image(&h2));
        });
        let built = slot.lock().unwrap().take();
        match (o, built) {
            (Some(crate::run::Outcome::Ok), Some(Ok(img))) => {
                if std::env::var("RDBCHECK_VERBOSE_PANICS").is_ok() {
                    for (p, b) in img.image.iter() {
                        eprintln!("[image {}] {} {} bytes", img.name, p.display(), b.len());
                    }
                }
                imgs.push(img)
            }
            (o, r) => rep.machinery.push(format!("building image {} failed: {:?} {:?}", h.name, o, r.map(|r| r.err()))),
        }
    }
    if let Some(req) = crate::report::replay_request("corruptx") {
        let case = &req["artefact"]["case"];
        let name = case["image"].as_str().unwrap_or("");
        if let Some((ii, img)) = imgs.iter().enumerate().find(|(_, i)| i.name == name) {
            let fname = case["file"].as_str().unwrap_or("");
            if let Some(path) = img.image.keys().find(|p| p.file_name().map(|n| n.to_string_lossy() == fname).unwrap_or(false)) {
                let m = match case["mutation"].as_str().unwrap_or("") {
                    "set 0x00" => Mutation::Zero,
                    "set 0xff" => Mutation::Ones,
                    "+1" => Mutation::Inc,
                    "truncate" => Mutation::Truncate,
                    s => Mutation::FlipBit(s.trim_start_matches("flip bit ").parse().unwrap_or(0)),
                };
                let c = Case { image: ii, file: path.clone(), offset: case["offset"].as_u64().unwrap_or(0) as usize, mutation: m };
                let slot: Arc<Mutex<Option<(String, String)>>> = Arc::new(Mutex::new(None));
                let slot2 = Arc::clone(&slot);
                let img2 = img.clone();
                let s = crate::sched::Sched::new(crate::sched::Mode::Fixed);
                let o = crate::run::run_once(&s, move || {
                    *slot2.lock().unwrap() = eval_case(&img2, &c).1;
                });
                let v = slot.lock().unwrap().take();
                let res = match (v, o) {
                    (Some(v), _) => Some(v),
                    (None, Some(crate::run::Outcome::Ok)) | (None, None) => None,
                    (None, Some(o)) => Some(("C15.panic_or_hang".to_string(), format!("{:?}", o))),
                };
                crate::report::replay_done(res);
            }
        }
    }
    let only = std::env::var("RDBCHECK_ONLY").ok();
    let mutations: Vec<Mutation> = {
        let mut m: Vec<Mutation> = (0..8).map(Mutation::FlipBit).collect();
        m.push(Mutation::Zero);
        m.push(Mutation::Ones);
        m.push(Mutation::Inc);
        let _ = t;
        m
    };
    let mut cases: Vec<Case> = vec![];
    for (ii, img) in imgs.iter().enumerate() {
        if let Some(o) = only.as_ref() {
            if !img.name.contains(o.as_str()) {
                continue;
            }
        }
        for (path, data) in img.image.iter() {
            if file_kind(path) == "other" {
                continue;
            }
            let offsets: Vec<usize> = if data.len() <= 6000 {
                (0..data.len()).collect()
            } else {
                // big file (multi-block WAL record): +-64 around each 32 KiB block boundary and
                // both ends, plus a stride
                let mut s: std::collections::BTreeSet<usize> = Default::default();
                let mut add = |c: usize| {
                    for d in 0..=64usize {
                        if c >= d {
                            s.insert(c - d);
                        }
                        if c + d < data.len() {
                            s.insert(c + d);
                        }
                    }
                };
                add(0);
                add(data.len() - 1);
                let mut b = 32768;
                while b < data.len() {
                    add(b);
                    b += 32768;
                }
                let mut x = 0;
                while x < data.len() {
                    s.insert(x);
                    x += if t { 251 } else { 1009 };
                }
                s.into_iter().collect()
            };
            for &off in offsets.iter() {
                for m in mutations.iter() {
                    cases.push(Case { image: ii, file: path.clone(), offset: off, mutation: *m });
                }
            }
            if file_kind(path) == "table" {
                for len in 0..data.len().min(6000) {
                    if t || len % 16 == 0 || len % 16 == 15 || len % 16 == 1 {
                        cases.push(Case { image: ii, file: path.clone(), offset: len, mutation: Mutation::Truncate });
                    }
                }
            }
        }
    }
    let chunk = (cases.len() / 800).max(50);
    let n_jobs = (cases.len() + chunk - 1) / chunk;
    let imgs = Arc::new(imgs);
    let cases = Arc::new(cases);
    let shm = Arc::new(Shm::new(1 << 10, 16 << 20));
    let (imgs2, cases2, shm2) = (Arc::clone(&imgs), Arc::clone(&cases), Arc::clone(&shm));
    let total = cases.len();
    let (capped, machinery) = pool(n_jobs, workers(), &shm, Some(Instant::now() + budget(tier, 45, 2400)), move |j| {
        let range = (j * chunk, ((j + 1) * chunk).min(total));
        corrupt_job(&imgs2, &cases2, range, &shm2, C_USER + j);
    });
    // a job that died (abort, e.g. allocation blow-up): the case it was working on is a violation
    for (tag, data) in shm.records() {
        if tag == b'M' {
            let s = String::from_utf8_lossy(&data).to_string();
            if let Some(j) = s.strip_prefix("job ").and_then(|r| r.split(' ').next()).and_then(|x| x.parse::<usize>().ok()) {
                let prog = shm.get(C_USER + j) as usize;
                if prog >= 1 {
                    let c = &cases[prog - 1];
                    rep.findings.push(Finding {
                        clause: "C15.abort".into(),
                        detail: format!("the process aborted while opening/reading the corrupted database ({})", s),
                        ops: vec![format!("image {}", imgs[c.image].name), format!("{} byte {} of {}", c.mutation.name(), c.offset, file_kind(&c.file))],
                        artefact: json!({"explorer": "corruptx", "case": case_json(&imgs, c), "note": "the rest of this job's chunk was not evaluated"}),
                    });
                    continue;
                }
            }
            rep.machinery.push(s);
        }
    }
    for m in machinery {
        rep.machinery.push(m);
    }
    let mut per_clause: std::collections::BTreeMap<String, usize> = Default::default();
    for (clause, detail, case, ops) in parse_found(&shm) {
        let key = format!("{}|{}|{}", clause, case["file_kind"].as_str().unwrap_or(""), case["byte_role"].as_str().unwrap_or(""));
        let n = per_clause.entry(key).or_insert(0);
        *n += 1;
        if *n <= 100_000 {
            let mut o = vec![format!("image {}", case["image"].as_str().unwrap_or("")), format!("{} byte {} of {}", case["mutation"].as_str().unwrap_or(""), case["offset"], case["file_kind"].as_str().unwrap_or(""))];
            o.extend(ops);
            rep.findings.push(Finding { clause, detail, ops: o, artefact: json!({"explorer": "corruptx", "case": case}) });
        } else {
            rep.extra_violations += 1;
        }
    }
    // log level: a damaged fragment of a multi-fragment record must never make the reader deliver
    // a record that was not appended (e.g. an orphan Last fragment taken for a whole record)
    {
        let lshm = Shm::new(1 << 4, 1 << 20);
        for c in crate::compx::log_corruption_cases() {
            crate::compx::log_corruption_case(&c, &lshm, "C15.log_record_invented");
        }
        for (clause, detail, case) in crate::compx::parse_found(&lshm) {
            rep.findings.push(Finding { clause, detail, ops: vec!["log reader".to_string(), case.to_string()], artefact: json!({"explorer": "compx", "component": "log", "case": case}) });
        }
        shm.add(C_CASES, lshm.get(C_CASES));
        shm.add(C_NONTRIVIAL, lshm.get(C_NONTRIVIAL));
        rep.cov("log_fragment_corruptions", json!(lshm.get(C_CASES)));
    }
    rep.cov("evaluations", json!(shm.get(C_CASES)));
    rep.cov("distinct_nontrivial", json!(shm.get(C_NONTRIVIAL)));
    rep.cov("exhaustive", json!(!capped));
    rep.cov("outcome_classes", json!({"all_reads_correct": shm.get(C_USER + 900), "open_failed": shm.get(C_USER + 901), "open_ok_some_read_failed": shm.get(C_USER + 902)}));
    rep.cov("finding_classes", json!(per_clause));
    for img in imgs.iter() {
        rep.cov_push("samples", json!({"image": img.name, "history": img.history.describe(), "files": img.image.iter().map(|(p, d)| format!("{} ({} B)", p.display(), d.len())).collect::<Vec<_>>()}));
    }
    rep.cov("rule", json!("one evaluation = one database image with one byte of one persistent file mutated (each bit flipped, set to 0x00; thorough also 0xff and +1; table files also truncated), opened with the real DB::open and read completely (get of every key, forward and backward scan, and for every key the cursor programs seek(k)+backwards-to-the-start and seek(k)+one-step-back+forwards-to-the-end on fresh iterators); for a damaged table file then compact_range(..) over everything and every key read again. Oracle: every result is an error or correct (a scan that ends without an error must be complete); for a WAL the damaged records may be skipped (any value ever written to the key, or absence, is accepted). distinct_nontrivial = evaluations whose outcome differed from the uncorrupted run (open failed or some read failed) plus those that violated the oracle"));
    rep.assume("single-byte corruption of one file of an otherwise intact image; large files sampled around block boundaries plus a stride");
    rep.assume("a scan that stops early without an error visible through the public iterator API counts as silently missing data");
    rep.cov("wall_build_s", json!(t0.elapsed().as_secs_f64()));
    rep.finish()
}
