//! `crashx`: for recorded histories, every prefix of the filesystem-operation log (crash), torn
//! variants of the last write, nested crashes during recovery; every position of one injected
//! fault; single-byte corruptions. All on the real database over `VerifFs`.

use std::collections::BTreeSet;
use std::path::PathBuf;
use std::sync::{Arc, Mutex};

use serde_json::{json, Value};

use raindb::{Batch, RainDbIterator, ReadOptions, WriteOptions, DB};

use crate::run::{run_once, Outcome};
use crate::sched::{Mode, Sched};
use crate::shm::*;
use crate::vfs::{FsOp, Image, VerifFs};
use crate::world::*;

#[derive(Clone, Debug)]
pub struct History {
    pub name: String,
    pub cfgs: Vec<Cfg>,
    pub keys: Vec<Vec<u8>>,
    pub ops: Vec<Op>,
}

impl History {
    pub fn describe(&self) -> Value {
        json!({
            "history": self.name,
            "configs": self.cfgs.iter().map(|c| c.name()).collect::<Vec<_>>(),
            "ops": self.ops.iter().map(|o| o.short(&self.keys)).collect::<Vec<_>>(),
        })
    }
    pub fn ops_str(&self) -> Vec<String> {
        self.ops.iter().map(|o| o.short(&self.keys)).collect()
    }
}

#[derive(Clone, Debug, Default)]
pub struct Recording {
    pub log: Vec<FsOp>,
    pub dirs: BTreeSet<PathBuf>,
    /// per client op: log length at invocation / at return
    pub spans: Vec<(usize, usize)>,
    /// models[i] = model after i acknowledged operations
    pub models: Vec<Model>,
    /// configuration in effect during op i (for the recovery open)
    pub cfg_at: Vec<Cfg>,
    pub error: Option<(String, String)>,
}

/// Execute the history once (eager background) and record everything. Must run inside a
/// controlled execution.
pub fn record(h: &History) -> Recording {
    let mut w = World::new(h.cfgs.clone(), h.keys.clone(), true, Checks::default());
    let mut rec = Recording::default();
    rec.models.push(Model::new());
    let s0 = w.fs.log_len();
    if let Err(v) = w.open() {
        rec.error = Some((v.clause, v.detail));
        return rec;
    }
    // the initial open is "operation 0" with an empty effect
    rec.spans.push((s0, w.fs.log_len()));
    rec.models.push(Model::new());
    rec.cfg_at.push(w.cfg);
    for op in h.ops.iter() {
        let start = w.fs.log_len();
        let cfg_before = w.cfg;
        if !w.enabled(op) {
            continue;
        }
        if let Err(v) = w.apply(op) {
            rec.error = Some((v.clause, v.detail));
            std::mem::forget(w);
            return rec;
        }
        rec.spans.push((start, w.fs.log_len()));
        rec.models.push(w.model.clone());
        rec.cfg_at.push(if matches!(op, Op::Reopen(_)) { w.cfg } else { cfg_before });
    }
    w.close();
    rec.log = w.fs.log();
    rec.dirs = w.fs.dirs();
    rec
}

/// Candidate models at crash prefix `p`: the model of everything acknowledged before `p`, plus —
/// if an operation is in flight — that model with the whole in-flight operation applied.
pub fn candidates(rec: &Recording, p: usize) -> (Vec<Model>, usize) {
    let mut acked = 0usize;
    for (i, (_, end)) in rec.spans.iter().enumerate() {
        // op i is acknowledged if all its filesystem operations are within the prefix and the
        // next operation has started or the prefix ends exactly there: `end <= p`
        if *end <= p {
            acked = i + 1;
        } else {
            break;
        }
    }
    let mut c = vec![rec.models[acked].clone()];
    if acked < rec.spans.len() && rec.models[acked + 1] != rec.models[acked] {
        c.push(rec.models[acked + 1].clone());
    }
    (c, acked)
}

pub fn read_contents(db: &DB, keys: &[Vec<u8>]) -> VResult<Model> {
    // scan + gets must agree
    let it = db
        .new_iterator(ReadOptions::default())
        .map_err(|e| Violation::new("recover.read_err", format!("new_iterator failed after recovery: {}", e)))?;
    let mut it: DbIter = Box::new(it);
    let kv = scan_forward(&mut it).map_err(|e| Violation::new("recover.read_err", format!("scan failed after recovery: {}", e)))?;
    drop(it);
    let m: Model = kv.into_iter().collect();
    for k in keys {
        let got = db_get(db, k, None).map_err(|e| Violation::new("recover.read_err", format!("get({}) failed after recovery: {}", esc(k), e)))?;
        if got != m.get(k).cloned() {
            return Err(Violation::new(
                "recover.get_scan_disagree",
                format!("after recovery get({}) = {:?} but the scan shows {:?}", esc(k), got.map(|v| show_val(&v)), m.get(k).map(|v| show_val(v))),
            ));
        }
    }
    Ok(m)
}

fn show_model(m: &Model) -> String {
    format!("{{{}}}", m.iter().map(|(k, v)| format!("{}={}", esc(k), show_val(v))).collect::<Vec<_>>().join(", "))
}

pub struct RecoverOpts {
    pub check_directory: bool,
    pub probe: bool,
}

/// Recover from `image` and evaluate the C02/C16 oracle. Returns the filesystem used (its log is
/// the recovery's own operation stream, for nested crashes) and the matched candidate.
pub fn recover_and_check(image: &Image, dirs: &BTreeSet<PathBuf>, cands: &[Model], keys: &[Vec<u8>], cfg: &Cfg, opts: &RecoverOpts, prefix: &str) -> VResult<(VerifFs, Model)> {
    let fs = VerifFs::from_image(image, dirs);
    let c = |s: &str| format!("{}.{}", prefix, s);
    let db = DB::open(db_options(&fs, cfg)).map_err(|e| Violation::new(&c("open_fails"), format!("DB::open fails on the crash image: {}", e)))?;
    if opts.check_directory {
        // the recovery itself reclaims what the crash left behind: once the background work it
        // started has gone idle — before any read or write of ours — the directory is exact
        let probe = db.verif_probe();
        let mut spins = 0u32;
        while probe.background_work_pending() {
            if parking_lot::verif_rt::in_execution() {
                shuttle::thread::yield_now();
            }
            spins += 1;
            if spins > 1_000_000 {
                break;
            }
        }
        if let Err(mut v) = check_directory(&db, &fs) {
            v.detail = format!("right after the recovery (no operation issued yet): {}", v.detail);
            drop(db);
            return Err(v);
        }
    }
    let got = read_contents(&db, keys).map_err(|v| Violation::new(&c(v.clause.trim_start_matches("recover.")), v.detail))?;
    let matched = match cands.iter().find(|m| **m == got) {
        Some(m) => m.clone(),
        None => {
            // classify: lost acknowledged write / partial batch / resurrected
            let base = &cands[0];
            let kind = if cands.len() == 2 && got.iter().all(|(k, v)| cands[1].get(k) == Some(v) || base.get(k) == Some(v)) && base.keys().chain(cands[1].keys()).all(|k| got.get(k) == base.get(k) || got.get(k) == cands[1].get(k)) {
                "partial_batch"
            } else if base.iter().any(|(k, v)| got.get(k) != Some(v)) {
                "lost_write"
            } else {
                "extra_data"
            };
            drop(db);
            return Err(Violation::new(
                &c(kind),
                format!(
                    "recovered contents {} but acknowledged state is {}{}",
                    show_model(&got),
                    show_model(base),
                    if cands.len() == 2 { format!(" (or with the in-flight operation: {})", show_model(&cands[1])) } else { String::new() }
                ),
            ));
        }
    };
    let mut expect = matched.clone();
    if opts.probe {
        // a WAL that holds (part of) a record spanning several blocks: the first write after the
        // recovery is itself fragmented, so that a First fragment directly follows whatever the crash
        // left behind
        let wal_has_big_record = image.iter().any(|(p, b)| p.extension().map(|e| e == "log").unwrap_or(false) && b.len() >= 32768);
        if wal_has_big_record {
            let big: Vec<u8> = (0..40_000u32).map(|i| (i % 251) as u8).collect();
            if let Err(e) = db.put(WriteOptions::default(), b"probe2".to_vec(), big.clone()) {
                drop(db);
                return Err(Violation::new(&c("probe_write_fails"), format!("a large write after recovery fails: {}", e)));
            }
            expect.insert(b"probe2".to_vec(), big);
        }
        let mut b = Batch::new();
        b.add_put(b"probe".to_vec(), b"P1".to_vec());
        b.add_put(keys[0].clone(), b"P2".to_vec());
        if let Err(e) = db.apply(WriteOptions::default(), b) {
            drop(db);
            return Err(Violation::new(&c("probe_write_fails"), format!("a write after recovery fails: {}", e)));
        }
        if let Err(e) = db.delete(WriteOptions::default(), keys[keys.len() - 1].clone()) {
            drop(db);
            return Err(Violation::new(&c("probe_write_fails"), format!("a delete after recovery fails: {}", e)));
        }
        expect.insert(b"probe".to_vec(), b"P1".to_vec());
        expect.insert(keys[0].clone(), b"P2".to_vec());
        expect.remove(&keys[keys.len() - 1]);
        let got2 = read_contents(&db, keys).map_err(|v| Violation::new(&c(v.clause.trim_start_matches("recover.")), v.detail))?;
        if got2 != expect {
            drop(db);
            return Err(Violation::new(
                &c("probe_not_visible"),
                format!("after recovery + probe writes contents are {} but should be {}", show_model(&got2), show_model(&expect)),
            ));
        }
    }
    if opts.check_directory {
        let z = flush_key();
        db.compact_range(Some(&z[..])..Some(&z[..]));
        if parking_lot::verif_rt::in_execution() {
            shuttle::thread::yield_now();
        }
        if let Err(v) = check_directory(&db, &fs) {
            drop(db);
            return Err(v);
        }
    }
    drop(db);
    // clean reopen
    let db = DB::open(db_options(&fs, cfg)).map_err(|e| Violation::new(&c("reopen_fails"), format!("clean reopen after recovery fails: {}", e)))?;
    let got3 = read_contents(&db, keys).map_err(|v| Violation::new(&c(v.clause.trim_start_matches("recover.")), v.detail))?;
    if got3 != expect {
        drop(db);
        return Err(Violation::new(
            &c("lost_after_reopen"),
            format!("after recovery, probe writes and a clean reopen contents are {} but should be {}", show_model(&got3), show_model(&expect)),
        ));
    }
    drop(db);
    Ok((fs, matched))
}

/// C06 across a crash: recover from `image`; the contents of the history's keys must equal the
/// model after some prefix of the history - never part of a batch - right after the recovery,
/// after each of three later writes to other keys (they advance the sequence number past whatever
/// the recovery installed) and after a clean reopen; a snapshot taken right after the recovery
/// keeps showing its state.
pub fn recover_and_check_atomicity(image: &Image, dirs: &BTreeSet<PathBuf>, prefixes: &[Model], keys: &[Vec<u8>], cfg: &Cfg, prefix: &str) -> VResult<()> {
    let fs = VerifFs::from_image(image, dirs);
    let c = |s: &str| format!("{}.{}", prefix, s);
    let db = DB::open(db_options(&fs, cfg)).map_err(|e| Violation::new("recover.open_fails", format!("DB::open fails on the crash image: {}", e)))?;
    let of_history = |m: Model| -> Model { m.into_iter().filter(|(k, _)| !k.starts_with(b"probe")).collect() };
    let is_prefix_state = |m: &Model| prefixes.iter().any(|p| p == m);
    let show_prefixes = || prefixes.iter().map(show_model).collect::<Vec<_>>().join(" | ");
    let s0 = of_history(read_contents(&db, keys).map_err(|v| Violation::new(&format!("recover.{}", v.clause.trim_start_matches("recover.")), v.detail))?);
    if !is_prefix_state(&s0) {
        drop(db);
        return Err(Violation::new(
            &c("recovered_state_shows_part_of_an_operation"),
            format!("right after the recovery the contents are {}, which is the state after no prefix of the history ({})", show_model(&s0), show_prefixes()),
        ));
    }
    let snap = db.get_snapshot();
    for j in 0..3u8 {
        if let Err(e) = db.put(WriteOptions::default(), format!("probe-{}", j).into_bytes(), b"P".to_vec()) {
            db.release_snapshot(snap);
            drop(db);
            return Err(Violation::new("recover.probe_write_fails", format!("a write after recovery fails: {}", e)));
        }
        let s = of_history(read_contents(&db, keys).map_err(|v| Violation::new(&format!("recover.{}", v.clause.trim_start_matches("recover.")), v.detail))?);
        if !is_prefix_state(&s) {
            db.release_snapshot(snap);
            drop(db);
            return Err(Violation::new(
                &c("batch_partially_visible_after_recovery"),
                format!(
                    "after the recovery the contents were {}; after {} later write(s) to other keys they are {}, which is the state after no prefix of the history ({})",
                    show_model(&s0),
                    j + 1,
                    show_model(&s),
                    show_prefixes()
                ),
            ));
        }
        // the snapshot taken before the writes still shows the recovered state
        for k in keys {
            let got = db_get(&db, k, Some(&snap)).ok().flatten();
            if got.as_ref() != s0.get(k) {
                db.release_snapshot(snap);
                drop(db);
                return Err(Violation::new(
                    &c("snapshot_moved_after_recovery"),
                    format!("a snapshot taken right after the recovery showed {} = {:?}; after {} later write(s) it shows {:?}", esc(k), s0.get(k).map(|v| show_val(v)), j + 1, got.as_ref().map(|v| show_val(v))),
                ));
            }
        }
    }
    db.release_snapshot(snap);
    drop(db);
    let db = DB::open(db_options(&fs, cfg)).map_err(|e| Violation::new("recover.reopen_fails", format!("clean reopen after recovery fails: {}", e)))?;
    let s3 = of_history(read_contents(&db, keys).map_err(|v| Violation::new(&format!("recover.{}", v.clause.trim_start_matches("recover.")), v.detail))?);
    drop(db);
    if !is_prefix_state(&s3) {
        return Err(Violation::new(
            &c("batch_partially_visible_after_recovery"),
            format!("after recovery, three writes to other keys and a clean reopen the contents are {}, the state after no prefix of the history ({})", show_model(&s3), show_prefixes()),
        ));
    }
    Ok(())
}

#[derive(Clone, Copy, Debug, PartialEq, Eq)]
pub enum CrashMode {
    /// every prefix of the operation log
    Prefixes,
    /// every prefix ending in a write, that write cut at the listed lengths
    Torn,
}

pub fn torn_lengths(len: usize) -> Vec<usize> {
    let mut v: BTreeSet<usize> = BTreeSet::new();
    if len <= 64 {
        for l in 1..len {
            v.insert(l);
        }
    } else {
        for l in [1usize, 2, 6, 7, 8, len / 2, len - 1] {
            if l >= 1 && l < len {
                v.insert(l);
            }
        }
        // lengths ending +-1 around a 32 KiB boundary
        let mut b = 32768usize;
        while b < len {
            for l in [b - 1, b, b + 1] {
                if l >= 1 && l < len {
                    v.insert(l);
                }
            }
            b += 32768;
        }
    }
    v.into_iter().collect()
}

#[derive(Clone, Debug)]
pub struct CrashSpec {
    pub mode: CrashMode,
    pub nested: bool,
    pub check_directory: bool,
    /// clause prefix: "C02" / "C16"
    pub prefix: &'static str,
    /// recover every crash image not only with the options that were in force at the crash but
    /// with every other configuration of the history as well (options changed between the crash
    /// and the next open: log reuse switched on or off, another memtable budget, ...)
    pub cross_cfg: bool,
    /// C06 mode: only the atomic visibility of batches is judged - the recovered contents must
    /// be one of the states the history went through (the model after some prefix of its
    /// operations), right after the recovery and again after each of a few later writes to other
    /// keys and after a clean reopen. Which prefix (durability) is C02's business.
    pub atomicity_only: bool,
}

#[derive(Clone, Debug)]
pub struct CFound {
    pub history: String,
    pub ops: Vec<String>,
    pub clause: String,
    pub detail: String,
    pub point: Value,
}

static mut CUR_POINT: (usize, usize, usize) = (0, 0, 0);

fn image_hash(img: &Image) -> u64 {
    use std::hash::{Hash, Hasher};
    let mut h = std::collections::hash_map::DefaultHasher::new();
    img.hash(&mut h);
    h.finish()
}

fn describe_point(rec: &Recording, h: &History, p: usize, torn: Option<usize>, nested: Option<usize>) -> Value {
    let (_, acked) = candidates(rec, p);
    json!({
        "crash_after_fs_ops": p,
        "of": rec.log.len(),
        "last_fs_op": if p > 0 { rec.log[p - 1].short() } else { "(none)".into() },
        "torn_to_bytes": torn,
        "nested_crash_after_recovery_fs_ops": nested,
        "acknowledged_client_ops": acked.saturating_sub(1),
        "in_flight": if acked >= 1 && acked - 1 < h.ops.len() && acked < rec.spans.len() { h.ops_str().get(acked - 1).cloned() } else { None },
    })
}

/// All crash points of one history. Runs its own executions; survives panics of single points.
pub fn crash_job(h: &History, spec: &CrashSpec, shm: &Arc<Shm>) {
    // phase 1: record
    let rec_slot: Arc<Mutex<Option<Recording>>> = Arc::new(Mutex::new(None));
    let rec_slot2 = Arc::clone(&rec_slot);
    let h2 = h.clone();
    let s = Sched::new(Mode::Fixed);
    let out = run_once(&s, move || {
        let r = record(&h2);
        *rec_slot2.lock().unwrap() = Some(r);
    });
    let rec = match (out, rec_slot.lock().unwrap().take()) {
        (Some(Outcome::Ok), Some(r)) if r.error.is_none() => r,
        (o, r) => {
            // the uninjected run itself failed: that is C01/C09 territory, reported as observation
            let detail = match (o, r.and_then(|r| r.error)) {
                (_, Some((c, d))) => format!("{}: {}", c, d),
                (o, None) => format!("{:?}", o),
            };
            push_found(shm, h, "record.failed", &detail, json!({}));
            return;
        }
    };
    let rec = Arc::new(rec);
    // enumerate points
    let mut points: Vec<(usize, Option<usize>)> = vec![];
    match spec.mode {
        CrashMode::Prefixes => {
            for p in 0..=rec.log.len() {
                points.push((p, None));
            }
        }
        CrashMode::Torn => {
            for p in 1..=rec.log.len() {
                if let FsOp::Write { data, .. } = &rec.log[p - 1] {
                    for l in torn_lengths(data.len()) {
                        points.push((p, Some(l)));
                    }
                }
            }
        }
    }
    let points = Arc::new(points);
    let mut start = 0usize;
    while start < points.len() {
        let rec2 = Arc::clone(&rec);
        let pts = Arc::clone(&points);
        let h2 = h.clone();
        let spec2 = spec.clone();
        let shm2 = Arc::clone(shm);
        let s = Sched::new(Mode::Fixed);
        let first = start;
        let out = run_once(&s, move || {
            for idx in first..pts.len() {
                unsafe { CUR_POINT = (idx, 0, 0) };
                shuttle::current::reset_step_count();
                let (p, torn) = pts[idx];
                check_point(&h2, &rec2, &spec2, &shm2, p, torn);
            }
        });
        match out {
            Some(Outcome::Ok) | None => break,
            Some(o) => {
                let (idx, _, nested) = unsafe { CUR_POINT };
                let (p, torn) = points[idx];
                let (clause, detail) = match o {
                    Outcome::Panic { msg, .. } => (format!("{}.recovery_panics", spec.prefix), format!("recovery panicked: {}", msg)),
                    Outcome::Deadlock(m) => (format!("{}.recovery_hangs", spec.prefix), m),
                    Outcome::StepBound => (format!("{}.recovery_hangs", spec.prefix), "step bound exceeded".into()),
                    Outcome::Divergence(m) => ("machinery.divergence".into(), m),
                    Outcome::Ok => unreachable!(),
                };
                push_found(shm, h, &clause, &detail, describe_point(&rec, h, p, torn, if nested > 0 { Some(nested - 1) } else { None }));
                start = idx + 1;
            }
        }
    }
}

fn push_found(shm: &Shm, h: &History, clause: &str, detail: &str, point: Value) {
    shm.add(C_VIOLATIONS, 1);
    let v = json!({"history": h.name, "ops": h.ops_str(), "clause": clause, "detail": detail, "point": point});
    shm.push_record(b'V', v.to_string().as_bytes());
}

fn cfg_for(rec: &Recording, p: usize) -> Cfg {
    let (_, acked) = candidates(rec, p);
    // the in-flight op's configuration if there is one, else the last acknowledged one's
    let i = acked.min(rec.cfg_at.len() - 1);
    rec.cfg_at[i]
}

fn check_point(h: &History, rec: &Recording, spec: &CrashSpec, shm: &Shm, p: usize, torn: Option<usize>) {
    let image = VerifFs::image_after(&Image::new(), &rec.log, p, torn);
    let (mut cands, _) = candidates(rec, p);
    if torn.is_some() {
        // the torn write belongs to the operation in flight at p-1: candidates of the prefix
        // before the write are acceptable as well
        let (c2, _) = candidates(rec, p - 1);
        for c in c2 {
            if !cands.contains(&c) {
                cands.push(c);
            }
        }
    }
    let cfg = cfg_for(rec, p);
    shm.add(C_CASES, 1);
    if shm.insert_state(image_hash(&image)) {
        shm.add(C_NONTRIVIAL, 1);
    }
    if spec.atomicity_only {
        if let Err(v) = recover_and_check_atomicity(&image, &rec.dirs, &rec.models, &h.keys, &cfg, spec.prefix) {
            push_found(shm, h, &v.clause, &v.detail, describe_point(rec, h, p, torn, None));
        }
        return;
    }
    let opts = RecoverOpts {
        check_directory: spec.check_directory,
        probe: true,
    };
    match recover_and_check(&image, &rec.dirs, &cands, &h.keys, &cfg, &opts, spec.prefix) {
        Err(v) => push_found(shm, h, &v.clause, &v.detail, describe_point(rec, h, p, torn, None)),
        Ok((_fs, _)) => {}
    }
    if spec.cross_cfg {
        let mut seen = vec![cfg];
        // the other configurations of the history, the same options with log reuse flipped, and
        // a 200-byte memtable budget (the recovery flushes several times while replaying one WAL)
        let mut pool: Vec<Cfg> = h.cfgs.clone();
        pool.push(Cfg { reuse: !cfg.reuse, ..cfg });
        pool.push(Cfg { memtable: 200, ..cfg });
        pool.push(Cfg { memtable: 200, reuse: !cfg.reuse, ..cfg });
        for other in pool.iter() {
            if seen.contains(other) {
                continue;
            }
            seen.push(*other);
            shm.add(C_CASES, 1);
            if let Err(v) = recover_and_check(&image, &rec.dirs, &cands, &h.keys, other, &opts, spec.prefix) {
                let mut pt = describe_point(rec, h, p, torn, None);
                pt["written_with_config"] = json!(cfg.name());
                pt["recovered_with_config"] = json!(other.name());
                push_found(shm, h, &v.clause, &format!("(crash image written with options {}, recovered with options {}) {}", cfg.name(), other.name(), v.detail), pt);
            }
        }
    }
    if spec.nested {
        // crash during the recovery itself: recover without probes, record its log
        let fs = VerifFs::from_image(&image, &rec.dirs);
        let opened = DB::open(db_options(&fs, &cfg));
        if let Ok(db) = opened {
            drop(db);
            let rlog = fs.log();
            for q in 0..rlog.len() {
                unsafe { CUR_POINT.2 = q + 1 };
                let img2 = VerifFs::image_after(&image, &rlog, q, None);
                shm.add(C_CASES, 1);
                shm.add(C_USER, 1);
                if shm.insert_state(image_hash(&img2) ^ 0x5555) {
                    shm.add(C_NONTRIVIAL, 1);
                }
                let o2 = RecoverOpts {
                    check_directory: false,
                    probe: true,
                };
                if let Err(v) = recover_and_check(&img2, &rec.dirs, &cands, &h.keys, &cfg, &o2, spec.prefix) {
                    push_found(shm, h, &format!("{}(nested)", v.clause), &v.detail, describe_point(rec, h, p, torn, Some(q)));
                }
            }
            unsafe { CUR_POINT.2 = 0 };
        }
    }
}

pub struct CrashResult {
    pub evaluations: u64,
    pub distinct_images: u64,
    pub nested_evaluations: u64,
    pub histories: usize,
    pub found: Vec<CFound>,
    pub machinery: Vec<String>,
    pub capped: bool,
    pub wall_s: f64,
}

pub fn parse_found(shm: &Shm) -> (Vec<CFound>, Vec<String>) {
    let mut found = vec![];
    let mut machinery = vec![];
    for (tag, data) in shm.records() {
        match tag {
            b'V' => {
                if let Ok(v) = serde_json::from_slice::<Value>(&data) {
                    let f = CFound {
                        history: v["history"].as_str().unwrap_or("").to_string(),
                        ops: v["ops"].as_array().map(|a| a.iter().map(|x| x.as_str().unwrap_or("").to_string()).collect()).unwrap_or_default(),
                        clause: v["clause"].as_str().unwrap_or("").to_string(),
                        detail: v["detail"].as_str().unwrap_or("").to_string(),
                        point: v["point"].clone(),
                    };
                    if f.clause.starts_with("machinery.") {
                        machinery.push(format!("{}: {}", f.history, f.detail));
                    }
                    found.push(f);
                }
            }
            b'M' => machinery.push(String::from_utf8_lossy(&data).to_string()),
            _ => {}
        }
    }
    (found, machinery)
}

/// Run `job` for every index in `0..n` on a pool of forked worker processes.
pub fn pool<F: Fn(usize)>(n: usize, workers: usize, shm: &Arc<Shm>, deadline: Option<std::time::Instant>, job: F) -> (bool, Vec<String>) {
    let mut pids = vec![];
    for _ in 0..workers.max(1) {
        let pid = unsafe { libc::fork() };
        if pid == 0 {
            loop {
                if let Some(d) = deadline {
                    if std::time::Instant::now() > d {
                        break;
                    }
                }
                let j = shm.add(C_NEXT_TASK, 1) as usize;
                if j >= n {
                    break;
                }
                // each job in its own process: an abort must not take the worker with it
                let jp = unsafe { libc::fork() };
                if jp == 0 {
                    crate::watchdog::arm();
                    job(j);
                    unsafe { libc::_exit(0) };
                }
                let mut st: libc::c_int = 0;
                unsafe { libc::waitpid(jp, &mut st, 0) };
                if !(libc::WIFEXITED(st) && libc::WEXITSTATUS(st) == 0) {
                    match crate::watchdog::describe_exit(st) {
                        // the subject does not terminate: a verdict, not a machinery failure
                        Some(m) => shm.push_record(b'H', format!("job {} of {}: {}", j, n, m).as_bytes()),
                        None => {
                            shm.add(C_MACHINERY, 1);
                            shm.push_record(b'M', format!("job {} died (wait status {})", j, st).as_bytes())
                        }
                    };
                }
                shm.add(C_TASKS_DONE, 1);
            }
            unsafe { libc::_exit(0) };
        }
        pids.push(pid);
    }
    let mut machinery = vec![];
    for pid in pids {
        let mut st: libc::c_int = 0;
        unsafe { libc::waitpid(pid, &mut st, 0) };
        if !(libc::WIFEXITED(st) && libc::WEXITSTATUS(st) == 0) {
            machinery.push(format!("worker died (wait status {})", st));
        }
    }
    for (tag, data) in shm.records() {
        if tag == b'H' {
            machinery.push(format!("{}{}", crate::report::NO_PROGRESS, String::from_utf8_lossy(&data)));
        }
    }
    ((shm.get(C_TASKS_DONE) as usize) < n, machinery)
}

pub fn explore_crashes(histories: &[History], spec: &CrashSpec, workers: usize, deadline: Option<std::time::Instant>) -> CrashResult {
    let t0 = std::time::Instant::now();
    let shm = Arc::new(Shm::new(1 << 22, 16 << 20));
    let hs: Vec<History> = histories.to_vec();
    let shm2 = Arc::clone(&shm);
    let spec2 = spec.clone();
    let (capped, mut machinery) = pool(hs.len(), workers, &shm, deadline, move |j| crash_job(&hs[j], &spec2, &shm2));
    let (found, m2) = parse_found(&shm);
    machinery.extend(m2);
    CrashResult {
        evaluations: shm.get(C_CASES),
        distinct_images: shm.get(C_NONTRIVIAL),
        nested_evaluations: shm.get(C_USER),
        histories: histories.len(),
        found,
        machinery,
        capped,
        wall_s: t0.elapsed().as_secs_f64(),
    }
}

/// Replay one crash point in an isolated process.
pub fn replay_crash_point(h: &History, spec: &CrashSpec, p: usize, torn: Option<usize>) -> Vec<CFound> {
    let shm = Arc::new(Shm::new(1 << 10, 1 << 20));
    let pid = unsafe { libc::fork() };
    if pid == 0 {
        crate::watchdog::arm();
        let h2 = h.clone();
        let spec2 = spec.clone();
        let shm2 = Arc::clone(&shm);
        let s = Sched::new(Mode::Fixed);
        let rec_slot: Arc<Mutex<Option<Recording>>> = Arc::new(Mutex::new(None));
        let rs2 = Arc::clone(&rec_slot);
        let h3 = h.clone();
        let _ = run_once(&s, move || {
            *rs2.lock().unwrap() = Some(record(&h3));
        });
        let rec = rec_slot.lock().unwrap().take();
        if let Some(rec) = rec {
            let rec = Arc::new(rec);
            let rec2 = Arc::clone(&rec);
            let s = Sched::new(Mode::Fixed);
            let out = run_once(&s, move || check_point(&h2, &rec2, &spec2, &shm2, p, torn));
            if let Some(o) = out {
                let cd = match o {
                    Outcome::Ok => None,
                    Outcome::Panic { msg, .. } => Some((format!("{}.recovery_panics", spec.prefix), format!("recovery panicked: {}", msg))),
                    Outcome::Deadlock(m) => Some((format!("{}.recovery_hangs", spec.prefix), m)),
                    Outcome::StepBound => Some((format!("{}.recovery_hangs", spec.prefix), "step bound exceeded".into())),
                    Outcome::Divergence(m) => Some(("machinery.divergence".to_string(), m)),
                };
                if let Some((c, d)) = cd {
                    push_found(&shm, h, &c, &d, describe_point(&rec, h, p, torn, None));
                }
            }
        }
        unsafe { libc::_exit(0) };
    }
    let mut st: libc::c_int = 0;
    unsafe { libc::waitpid(pid, &mut st, 0) };
    parse_found(&shm).0
}

// keep the iterator trait import used
#[allow(dead_code)]
fn _unused(_: &dyn RainDbIterator<Key = Vec<u8>, Error = raindb::RainDBError>) {}
