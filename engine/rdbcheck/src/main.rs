#![allow(static_mut_refs)]
#![allow(dead_code)]
mod watchdog;
mod compx;
mod corruptx;
mod crashx;
mod faultx;
mod props_c17;
mod props_comp;
mod props_crash;
mod props_sched;
mod props_seq;
mod report;
mod run;
mod sched;
mod schedx;
mod seqx;
mod shm;
mod vfs;
mod world;

use report::Report;
use serde_json::json;

fn usage() -> ! {
    eprintln!("usage: rdbcheck <C01..C17> <quick|thorough> | rdbcheck --replay <file> | rdbcheck selftest");
    std::process::exit(2);
}

/// Determinism self-test: one fixed program executed twice under the same schedule must give
/// byte-identical observation logs (results + filesystem operation log).
/// The self-test runs the subject: do it in a child process under the progress watchdog, so that a
/// subject that hangs or aborts cannot take the front end with it (that is for the checks to
/// report). Only a determinism failure is an error here.
fn selftest_isolated() -> Result<(), String> {
    let shm = shm::Shm::new(16, 1 << 16);
    let pid = unsafe { libc::fork() };
    if pid == 0 {
        watchdog::arm();
        let code = match selftest() {
            Ok(()) => 0,
            Err(e) => {
                shm.push_record(b'E', e.as_bytes());
                3
            }
        };
        unsafe { libc::_exit(code) };
    }
    let mut st: libc::c_int = 0;
    unsafe { libc::waitpid(pid, &mut st, 0) };
    if libc::WIFEXITED(st) && libc::WEXITSTATUS(st) == 3 {
        let msg = shm.records().into_iter().find(|(t, _)| *t == b'E').map(|(_, d)| String::from_utf8_lossy(&d).to_string()).unwrap_or_else(|| "self-test failed".into());
        return Err(msg);
    }
    Ok(())
}

fn selftest() -> Result<(), String> {
    use std::sync::{Arc, Mutex};
    use world::*;
    let mut logs: Vec<String> = vec![];
    for _ in 0..2 {
        let out: Arc<Mutex<String>> = Arc::new(Mutex::new(String::new()));
        let out2 = Arc::clone(&out);
        let s = sched::Sched::new(sched::Mode::Fixed);
        let o = run::run_once(&s, move || {
            let mut w = World::new(vec![Cfg::parse("M2").unwrap()], props_seq::k3(), false, Checks::all());
            let mut obs = String::new();
            w.open().unwrap();
            let prog = [
                Op::Put(0, 0),
                Op::Put(1, 0),
                Op::Batch(vec![(0, true), (2, true)]),
                Op::Snap,
                Op::Del(1),
                Op::Put(2, 0),
                Op::Compact(None, None),
                Op::Put(0, 0),
                Op::Reopen(0),
                Op::Put(1, 0),
            ];
            for op in prog.iter() {
                let r = w.apply(op).and_then(|_| w.check_all());
                obs.push_str(&format!("{:?} -> {:?}\n", op, r.map_err(|v| v.clause)));
            }
            obs.push_str(&format!("{:?}\n", w.db().verif_layout()));
            w.close();
            for op in w.fs.log() {
                obs.push_str(&op.short());
                obs.push('\n');
            }
            *out2.lock().unwrap() = obs;
        });
        if o != Some(run::Outcome::Ok) {
            // the program itself failed (a panic or hang of the database under test): that is
            // for the checks to report, not a determinism problem
            return Ok(());
        }
        logs.push(format!("{}\nsteps={}", out.lock().unwrap(), s.core().steps));
    }
    if logs[0] != logs[1] {
        return Err("self-test: two executions of the same program under the same schedule differ".into());
    }
    Ok(())
}

fn main() {
    let args: Vec<String> = std::env::args().collect();
    if args.len() < 2 {
        usage();
    }
    run::install_quiet_hook();
    if std::env::var("RDBCHECK_VERBOSE_PANICS").is_err() {
        // shuttle prints "test panicked in task ..." for every failing execution: silence stderr
        unsafe {
            let devnull = libc::open(b"/dev/null\0".as_ptr() as *const libc::c_char, libc::O_WRONLY);
            if devnull >= 0 {
                libc::dup2(devnull, 2);
            }
        }
    }
    if args[1] == "devmem" {
        use world::*;
        let s = sched::Sched::new(sched::Mode::Fixed);
        run::run_once(&s, || {
            let mut w = World::new(vec![Cfg::parse("D").unwrap()], props_seq::k3(), false, Checks::default());
            w.open().unwrap();
            println!("empty usage {}", w.db().verif_info().memtable_usage);
            for i in 0..4 {
                w.apply(&Op::Put(i % 3, 0)).unwrap();
                println!("after put {} usage {}", i, w.db().verif_info().memtable_usage);
            }
            w.apply(&Op::Batch(vec![(0, true), (1, true)])).unwrap();
            println!("after batch2 usage {}", w.db().verif_info().memtable_usage);
            w.close();
        });
        return;
    }
    if args[1] == "devfilter" {
        use compx::*;
        let shm = shm::Shm::new(16, 1 << 16);
        for l in 1990..2060 {
            let c = TableCase { keys: vec![2, 4, 5, 6], patterns: vec![0, 0, 2, 0], block_size: 1, variant: 0, big_values: false, sweep_len: Some(l), long_run: None, wide: None };
            let es = table_entries(&c);
            table_case(&c, &shm, true, 0);
            println!("L={} first val len {} violations so far {}", l, es[0].3.len(), shm.get(shm::C_VIOLATIONS));
        }
        for (t, d) in shm.records() { println!("{} {}", t as char, String::from_utf8_lossy(&d).chars().take(300).collect::<String>()); }
        return;
    }
    if args[1] == "devrun" {
        // devrun <cfg> <op>...   ops: p<k> d<k> f c r<i> q  (put/delete key index, flush, compact all, reopen cfg i, quiesce)
        use world::*;
        let cfgs: Vec<Cfg> = args[2].split(',').map(|c| Cfg::parse(c).expect("cfg")).collect();
        let ops: Vec<String> = args[3..].to_vec();
        let s = sched::Sched::new(sched::Mode::Fixed);
        run::run_once(&s, move || {
            let keys: Vec<Vec<u8>> = match std::env::var("DEVKEYS") {
                Ok(k) => k.split(',').map(|x| x.as_bytes().to_vec()).collect(),
                Err(_) => props_seq::k4(),
            };
            let mut w = World::new(cfgs.clone(), keys, std::env::var("DEVLAZY").is_err(), if std::env::var("DEVLAZY").is_err() { Checks::all() } else { Checks::default() });
            w.open().unwrap();
            for o in ops.iter() {
                let n = || o[1..].parse::<u8>().unwrap_or(0);
                let op = match &o[..1] {
                    "p" => Op::Put(n(), 0),
                    "d" => Op::Del(n()),
                    "P" => Op::Put(n(), 3),
                    "s" => Op::Snap,
                    "C" => Op::Compact(Some(o.as_bytes()[1] - b'0'), Some(o.as_bytes()[2] - b'0')),
                    "b" => Op::Batch(o[1..].bytes().map(|c| (c - b'0', true)).collect()),
                    "f" => Op::Flush,
                    "c" => Op::Compact(None, None),
                    "r" => Op::Reopen(n()),
                    "i" => Op::Iter,
                    "R" => Op::ReopenUnderLiveIter,
                    _ => Op::Quiesce,
                };
                let r = w.apply(&op);
                let chk = w.check_all();
                let lay: Vec<String> = w.db().verif_layout().iter().enumerate().filter(|(_, l)| !l.is_empty()).map(|(i, l)| format!("L{}:{:?}", i, l.iter().map(|f| f.number).collect::<Vec<_>>())).collect();
                println!("{:<4} -> {:?} {:?} | {}", o, r.err().map(|v| v.clause), chk.err().map(|v| format!("{} {}", v.clause, v.detail)), lay.join(" "));
            }
            w.close();
        });
        return;
    }
    if args[1] == "devcorrupt" {
        // devcorrupt <image-name>: every table byte with bit 0 flipped, outcome per offset
        use corruptx::*;
        let name = args[2].clone();
        let s = sched::Sched::new(sched::Mode::Fixed);
        run::run_once(&s, move || {
            let h = props_crash::c15_histories().into_iter().find(|h| h.name == name).expect("image");
            let img = build_image(&h).expect("build");
            for (p, b) in img.image.iter() {
                println!("{} {} bytes", p.display(), b.len());
                if file_kind(p) != "table" {
                    continue;
                }
                let mut line = String::new();
                for off in 0..b.len() {
                    let c = Case { image: 0, file: p.clone(), offset: off, mutation: Mutation::FlipBit(0) };
                    let (class, viol) = eval_case(&img, &c);
                    line.push(match (class.as_str(), viol.is_some()) {
                        (_, true) => 'V',
                        ("open_error", _) => 'o',
                        ("read_error", _) => 'e',
                        ("all_correct", _) => '.',
                        _ => '?',
                    });
                    if let Some((c, d)) = viol {
                        println!("  off {} {} {}", off, c, d.chars().take(160).collect::<String>());
                    }
                }
                println!("  {}", line);
            }
        });
        return;
    }
    if args[1] == "devseek" {
        use world::*;
        let s = sched::Sched::new(sched::Mode::Fixed);
        run::run_once(&s, || {
            let mut w = World::new(vec![Cfg::parse("T300").unwrap()], props_seq::k3(), true, Checks::default());
            w.open().unwrap();
            w.apply(&Op::Batch(vec![(0, true), (1, true)])).unwrap();
            w.apply(&Op::Flush).unwrap();
            println!("{:?}", w.db().verif_layout());
            for f in w.db().verif_layout().iter().flatten() { println!("{:?}", w.db().verif_file_entries(f.number)); }
            let mut it: DbIter = Box::new(w.db().new_iterator(raindb::ReadOptions::default()).unwrap());
            it.seek(&vec![b'c', 0]).unwrap();
            println!("valid={} cur={:?}", it.is_valid(), it.current().map(|(k, _)| k.clone()));
            drop(it);
            w.close();
        });
        return;
    }
    if args[1] == "selftest" {
        match selftest() {
            Ok(()) => {
                println!("selftest ok");
                return;
            }
            Err(e) => {
                println!("MACHINERY-ERROR: {}", e);
                std::process::exit(2);
            }
        }
    }
    if args[1] == "--replay" {
        if args.len() < 3 {
            usage();
        }
        let text = match std::fs::read_to_string(&args[2]) {
            Ok(t) => t,
            Err(e) => {
                println!("MACHINERY-ERROR: cannot read {}: {}", args[2], e);
                std::process::exit(2);
            }
        };
        let v: serde_json::Value = match serde_json::from_str(&text) {
            Ok(v) => v,
            Err(e) => {
                println!("MACHINERY-ERROR: {} is not a replay file: {}", args[2], e);
                std::process::exit(2);
            }
        };
        let prop = v["property"].as_str().unwrap_or("").to_string();
        let tier = v["tier"].as_str().unwrap_or("quick").to_string();
        report::set_replay(&args[2], v);
        let r = std::panic::catch_unwind(move || dispatch(&prop, &tier));
        if let Err(p) = r {
            println!("MACHINERY-ERROR: checker panicked: {}", parking_lot::verif_rt::panic_message(&*p));
        }
        std::process::exit(2);
    }
    if args.len() < 3 {
        usage();
    }
    let tier = args[2].as_str();
    if tier != "quick" && tier != "thorough" {
        usage();
    }
    if let Err(e) = selftest_isolated() {
        let mut rep = Report::new(&args[1], tier, "model_checking");
        rep.machinery.push(e);
        rep.cov("states", json!(0));
        rep.finish();
    }
    let id = args[1].clone();
    let tier2 = tier.to_string();
    let r = std::panic::catch_unwind(move || dispatch(&id, &tier2));
    if let Err(p) = r {
        println!("MACHINERY-ERROR: checker panicked: {}", parking_lot::verif_rt::panic_message(&*p));
        std::process::exit(2);
    }
}

fn dispatch(id: &str, tier: &str) {
    match id {
        "C01" => props_seq::c01(tier),
        "C02" => props_crash::c02(tier),
        "C03" => props_seq::c03(tier),
        "C04" => props_seq::c04(tier),
        "C05" => props_sched::c05(tier),
        "C06" => props_sched::c06(tier),
        "C07" => props_seq::c07(tier),
        "C08" => props_crash::c08(tier),
        "C09" => props_seq::c09(tier),
        "C10" => props_seq::c10(tier),
        "C12" => props_comp::c12(tier),
        "C13" => props_comp::c13(tier),
        "C14" => props_comp::c14(tier),
        "C15" => props_crash::c15(tier),
        "C16" => props_crash::c16(tier),
        "C17" => props_c17::c17(tier),
        "C11" => props_seq::c11(tier),
        _ => usage(),
    }
}
