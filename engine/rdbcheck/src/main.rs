#![allow(static_mut_refs)]
mod run;
mod sched;
mod seqx;
mod shm;
mod vfs;
mod world;

use world::*;

fn k3() -> Vec<Vec<u8>> {
    vec![b"c".to_vec(), b"e".to_vec(), b"f".to_vec()]
}

fn a1() -> Vec<Op> {
    vec![
        Op::Put(0, 0),
        Op::Put(1, 0),
        Op::Put(2, 0),
        Op::Del(0),
        Op::Del(1),
        Op::Del(2),
        Op::Batch(vec![(0, true), (1, true)]),
        Op::Batch(vec![(0, true), (2, true)]),
        Op::Batch(vec![(1, true), (2, true)]),
        Op::Compact(None, None),
    ]
}

fn main() {
    let args: Vec<String> = std::env::args().collect();
    run::install_quiet_hook();
    if args.len() >= 2 && args[1] == "dev" {
        let depth: usize = args.get(2).and_then(|s| s.parse().ok()).unwrap_or(3);
        let cfg = Cfg::parse(args.get(3).map(|s| s.as_str()).unwrap_or("T300")).unwrap();
        let workers: usize = args.get(4).and_then(|s| s.parse().ok()).unwrap_or(16);
        let spec = seqx::SeqSpec {
            name: "dev".into(),
            cfgs: vec![cfg],
            keys: k3(),
            alphabet: a1(),
            depth,
            eager: true,
            prefer_high: false,
            checks: Checks { reads: true, scan: true, snapshots: false, layout: true, files: false, diff: false },
            post_flush: true,
            extra: None,
            setup: vec![],
        };
        let r = seqx::explore(spec, workers, None);
        println!(
            "nodes={} transitions={} states={} execs={} steps={} violations={} machinery={} wall={:.1}s shape={}",
            r.nodes, r.transitions, r.states, r.executions, r.steps, r.violations_total, r.machinery_errors, r.wall_s, r.shape
        );
        let mut by: std::collections::BTreeMap<String, usize> = Default::default();
        for f in r.found.iter() {
            *by.entry(f.clause.clone()).or_default() += 1;
        }
        println!("{:?}", by);
        for f in r.found.iter().take(8) {
            println!("{:?} {} :: {}", f.ops, f.clause, f.detail);
        }
    }
}
