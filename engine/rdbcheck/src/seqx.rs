//! `seqx`: exhaustive enumeration of all operation sequences up to a depth over a small alphabet,
//! on the live database, with prefix sharing by `fork()`.
//!
//! The whole execution (client, RainDB's background thread as a shuttle task, `VerifFs`) lives on
//! one OS thread, so the client can `fork()` at every node of the operation tree: the child
//! applies one more operation to the *live* database, evaluates the oracles, recurses and
//! `_exit`s. Work is distributed over worker processes by sequence prefix through a shared
//! counter. Every violation is re-executed from scratch (no per-node fork) twice before it is
//! reported.

use std::sync::Arc;

use serde_json::{json, Value};

use crate::run::{run_once, Outcome};
use crate::sched::{Mode, Sched};
use crate::shm::*;
use crate::world::*;

pub type ExtraCheck = fn(&mut World, &SeqSpec, &Shm) -> VResult<()>;

#[derive(Clone)]
pub struct SeqSpec {
    pub name: String,
    pub cfgs: Vec<Cfg>,
    pub keys: Vec<Vec<u8>>,
    pub alphabet: Vec<Op>,
    pub depth: usize,
    pub eager: bool,
    pub prefer_high: bool,
    pub checks: Checks,
    /// every mutating operation is followed by `Flush`
    pub post_flush: bool,
    pub extra: Option<ExtraCheck>,
    pub extra_param: usize,
    /// operations applied (unchecked) before exploration starts
    pub setup: Vec<Op>,
}

impl SeqSpec {
    pub fn describe(&self) -> Value {
        json!({
            "family": self.name,
            "configs": self.cfgs.iter().map(|c| c.name()).collect::<Vec<_>>(),
            "keys": self.keys.iter().map(|k| esc(k)).collect::<Vec<_>>(),
            "alphabet": self.alphabet.iter().map(|o| o.short(&self.keys)).collect::<Vec<_>>(),
            "depth": self.depth,
            "policy": if self.prefer_high { "bgfirst" } else if self.eager { "eager" } else { "lazy" },
            "post_flush": self.post_flush,
            "setup": self.setup.iter().map(|o| o.short(&self.keys)).collect::<Vec<_>>(),
        })
    }

    pub fn path_str(&self, path: &[usize]) -> Vec<String> {
        path.iter().map(|&i| self.alphabet[i].short(&self.keys)).collect()
    }
}

#[derive(Clone, Debug)]
pub struct Found {
    pub spec: String,
    pub path: Vec<usize>,
    pub ops: Vec<String>,
    pub clause: String,
    pub detail: String,
}

static mut IS_CHILD: bool = false;
static mut CHILD_PATH: Vec<usize> = Vec::new();

fn is_child() -> bool {
    unsafe { IS_CHILD }
}

fn record(shm: &Shm, spec: &SeqSpec, path: &[usize], clause: &str, detail: &str) {
    shm.add(C_VIOLATIONS, 1);
    let v = json!({
        "spec": spec.name,
        "path": path,
        "ops": spec.path_str(path),
        "clause": clause,
        "detail": detail,
    });
    shm.push_record(b'V', v.to_string().as_bytes());
}

fn is_mutating(op: &Op) -> bool {
    matches!(op, Op::Put(..) | Op::Del(..) | Op::Batch(..) | Op::BatchBig(..))
}

/// Apply `op` (plus the family's post-flush) and evaluate all oracles.
/// `count = false`: the node belongs to another task (prefix replay): the oracles still run —
/// some have side effects on the database (C11's reclamation opportunity flushes) and every
/// exploration of a path must go through the same states — but nothing is counted.
fn step(w: &mut World, spec: &SeqSpec, shm: &Shm, op: &Op, count: bool) -> VResult<()> {
    w.apply(op)?;
    if count {
        shm.add(C_TRANSITIONS, 1);
    }
    if spec.post_flush && is_mutating(op) {
        w.apply(&Op::Flush)?;
        if count {
            shm.add(C_TRANSITIONS, 1);
        }
    }
    w.check_all()?;
    if let Some(extra) = spec.extra {
        // the extra oracle (cursor programs) reads through the database — seek charges, caches —
        // so it runs on every exploration of a path, like the other oracles; its counters go to a
        // scratch area when the node is not counted
        if count {
            extra(w, spec, shm)?;
        } else {
            static SCRATCH: std::sync::OnceLock<Shm> = std::sync::OnceLock::new();
            extra(w, spec, SCRATCH.get_or_init(|| Shm::new(1024, 4096)))?;
        }
    }
    if count {
        let n = shm.add(C_NODES, 1);
        if n % 7919 == 0 || n < 2 {
            let path = unsafe { CHILD_PATH.clone() };
            let v = json!({"family": spec.name, "ops": spec.path_str(&path), "model": w.model.iter().map(|(k, v)| format!("{}={}", esc(k), show_val(v))).collect::<Vec<_>>()});
            shm.push_record(b'S', v.to_string().as_bytes());
        }
        let (h, shape) = w.state_hash_and_shape();
        shm.insert_state(h);
        shm.max(C_MAX_L0, shape.max_l0);
        shm.max(C_MAX_LEVEL_FILES, shape.max_level_files);
        shm.max(C_DEEPEST_LEVEL, shape.deepest_level);
        shm.max(C_MAX_TOTAL_FILES, shape.max_total_files);
        shm.add(C_IMM_SEEN, shape.imm_seen);
        if !w.snaps.is_empty() || w.iter.is_some() {
            shm.add(C_SNAP_NODES, 1);
        }
    }
    Ok(())
}

fn dfs(w: &mut World, spec: &SeqSpec, shm: &Shm, path: &mut Vec<usize>) {
    if path.len() >= spec.depth {
        return;
    }
    for (i, op) in spec.alphabet.iter().enumerate() {
        if !w.enabled(op) {
            shm.add(C_DISABLED_OPS, 1);
            continue;
        }
        let pid = unsafe { libc::fork() };
        if pid < 0 {
            shm.add(C_MACHINERY, 1);
            shm.push_record(b'M', b"fork failed");
            return;
        }
        if pid == 0 {
            crate::watchdog::arm();
            path.push(i);
            unsafe {
                IS_CHILD = true;
                CHILD_PATH = path.clone();
            }
            match step(w, spec, shm, op, true) {
                Ok(()) => dfs(w, spec, shm, path),
                Err(v) => record(shm, spec, path, &v.clause, &v.detail),
            }
            unsafe { libc::_exit(0) };
        } else {
            // this process only waits now
            crate::watchdog::pause();
            let mut st: libc::c_int = 0;
            loop {
                let r = unsafe { libc::waitpid(pid, &mut st, 0) };
                if r == pid {
                    break;
                }
                if r < 0 && std::io::Error::last_os_error().kind() != std::io::ErrorKind::Interrupted {
                    break;
                }
            }
            let ok = libc::WIFEXITED(st) && libc::WEXITSTATUS(st) == 0;
            if !ok {
                let mut p = path.clone();
                p.push(i);
                shm.add(C_CHILD_CRASH, 1);
                if let Some(m) = crate::watchdog::describe_exit(st) {
                    record(shm, spec, &p, "C09.livelock", &m);
                    continue;
                }
                let what = if libc::WIFSIGNALED(st) {
                    format!("child process died with signal {}", libc::WTERMSIG(st))
                } else {
                    format!("child process exited with status {}", libc::WEXITSTATUS(st))
                };
                record(shm, spec, &p, "crash.abort", &what);
            }
        }
    }
}

fn outcome_to_violation(out: &Outcome) -> Option<(String, String)> {
    match out {
        Outcome::Ok => None,
        Outcome::Panic { msg, bg: true } => Some(("C09.bg_panic".into(), format!("background thread panicked: {}", msg))),
        Outcome::Panic { msg, bg: false } => Some(("C09.panic".into(), format!("a database call panicked: {}", msg))),
        Outcome::Deadlock(m) => Some(("C09.deadlock".into(), m.clone())),
        Outcome::StepBound => Some(("C09.livelock".into(), "step bound exceeded".into())),
        Outcome::Divergence(m) => Some(("machinery.divergence".into(), m.clone())),
    }
}

fn new_world(spec: &SeqSpec) -> World {
    World::new(spec.cfgs.clone(), spec.keys.clone(), spec.eager, spec.checks)
}

fn sched_for(spec: &SeqSpec) -> Sched {
    let s = Sched::new(Mode::Fixed);
    s.core().prefer_high = spec.prefer_high;
    s
}

/// Number of prefix tasks for prefix length `p`.
fn num_tasks(spec: &SeqSpec, p: usize) -> usize {
    spec.alphabet.len().pow(p as u32)
}

fn decode_task(spec: &SeqSpec, p: usize, mut t: usize) -> Vec<usize> {
    let n = spec.alphabet.len();
    let mut v = vec![0; p];
    for i in (0..p).rev() {
        v[i] = t % n;
        t /= n;
    }
    v
}

/// Run one prefix task: open, apply the prefix, DFS below it, close.
fn run_task(spec: &Arc<SeqSpec>, shm: &Arc<Shm>, prefix: Vec<usize>) {
    let sched = sched_for(spec);
    let spec2 = Arc::clone(spec);
    let shm2 = Arc::clone(shm);
    let prefix2 = prefix.clone();
    let prefix_failed = Arc::new(std::sync::atomic::AtomicBool::new(false));
    let prefix_failed2 = Arc::clone(&prefix_failed);
    let out = run_once(&sched, move || {
        let spec = &*spec2;
        let shm = &*shm2;
        let mut w = new_world(spec);
        let mut path: Vec<usize> = vec![];
        if let Err(v) = w.open() {
            if prefix2.iter().all(|&x| x == 0) {
                record(shm, spec, &path, &v.clause, &v.detail);
            }
            return;
        }
        for op in spec.setup.iter() {
            if let Err(v) = w.apply(op) {
                if prefix2.iter().all(|&x| x == 0) {
                    // a violation met while building the family's start state is a violation like
                    // any other (empty path: the replay re-executes the setup and meets it again)
                    record(shm, spec, &path, &v.clause, &format!("while building the family's start state: {}", v.detail));
                }
                return;
            }
        }
        let mut alive = true;
        for (d, &i) in prefix2.iter().enumerate() {
            let op = &spec.alphabet[i];
            // the node [prefix[..=d]] is owned by the task whose remaining digits are all 0
            let owner = prefix2[d + 1..].iter().all(|&x| x == 0);
            if !w.enabled(op) {
                if owner {
                    shm.add(C_DISABLED_OPS, 1);
                }
                alive = false;
                break;
            }
            path.push(i);
            unsafe {
                CHILD_PATH = path.clone();
            }
            if let Err(v) = step(&mut w, spec, shm, op, owner) {
                if owner {
                    record(shm, spec, &path, &v.clause, &v.detail);
                }
                // the database may be broken: do not try to close it
                prefix_failed2.store(true, std::sync::atomic::Ordering::SeqCst);
                std::mem::forget(w);
                return;
            }
        }
        if alive {
            dfs(&mut w, spec, shm, &mut path);
        }
        w.close();
    });
    shm.add(C_EXECUTIONS, 1);
    shm.add(C_STEPS, sched.core().steps);
    // Panics / deadlocks surface here: in a forked child for the node it was working on, in the
    // task's root process for the prefix itself (or for close()).
    let mut out = out.unwrap_or(Outcome::Ok);
    if !is_child() && prefix_failed.load(std::sync::atomic::Ordering::SeqCst) {
        out = Outcome::Ok;
    }
    if let Some((clause, detail)) = outcome_to_violation(&out) {
        let path = unsafe { CHILD_PATH.clone() };
        if is_child() {
            record(shm, spec, &path, &clause, &detail);
        } else {
            // failure while replaying the prefix or closing: attribute to the deepest prefix node
            // only if this task owns it, otherwise another task reports it
            let owner_depth = path.len();
            let owner = prefix[owner_depth.min(prefix.len())..].iter().all(|&x| x == 0);
            if owner {
                record(shm, spec, &path, &clause, &detail);
            }
        }
    }
    if is_child() {
        unsafe { libc::_exit(0) };
    }
}

/// Plain re-execution of one operation list (no per-node fork). Returns the first violation.
pub fn replay_path(spec: &Arc<SeqSpec>, path: &[usize]) -> Option<(String, String)> {
    let sched = sched_for(spec);
    let spec2 = Arc::clone(spec);
    let path2 = path.to_vec();
    let result: Arc<std::sync::Mutex<Option<(String, String)>>> = Arc::new(std::sync::Mutex::new(None));
    let result2 = Arc::clone(&result);
    let dummy = Arc::new(Shm::new(1024, 4096));
    let out = run_once(&sched, move || {
        let spec = &*spec2;
        let mut w = new_world(spec);
        let set = |v: Violation| {
            *result2.lock().unwrap() = Some((v.clause, v.detail));
        };
        if let Err(v) = w.open() {
            set(v);
            return;
        }
        for op in spec.setup.iter() {
            if let Err(v) = w.apply(op) {
                set(v);
                return;
            }
        }
        for &i in path2.iter() {
            let op = &spec.alphabet[i];
            if !w.enabled(op) {
                set(Violation::new("machinery.disabled_op", "replayed op not enabled".into()));
                return;
            }
            if let Err(v) = step(&mut w, spec, &dummy, op, true) {
                set(v);
                std::mem::forget(w);
                return;
            }
        }
        w.close();
    });
    let r = result.lock().unwrap().clone();
    if r.is_some() {
        return r;
    }
    outcome_to_violation(&out.unwrap_or(Outcome::Ok))
}

/// Replay in a forked subprocess (a replay may abort); result via a pipe-less shm record.
pub fn replay_path_isolated(spec: &Arc<SeqSpec>, path: &[usize]) -> Option<(String, String)> {
    let shm = Shm::new(1024, 1 << 16);
    let pid = unsafe { libc::fork() };
    if pid == 0 {
        crate::watchdog::arm();
        let r = replay_path(spec, path);
        let v = match r {
            Some((c, d)) => json!({"clause": c, "detail": d}),
            None => json!({}),
        };
        shm.push_record(b'R', v.to_string().as_bytes());
        unsafe { libc::_exit(0) };
    }
    let mut st: libc::c_int = 0;
    unsafe { libc::waitpid(pid, &mut st, 0) };
    if let Some(m) = crate::watchdog::describe_exit(st) {
        return Some(("C09.livelock".into(), m));
    }
    if !(libc::WIFEXITED(st) && libc::WEXITSTATUS(st) == 0) {
        return Some(("crash.abort".into(), format!("process died (wait status {})", st)));
    }
    for (tag, data) in shm.records() {
        if tag == b'R' {
            let v: Value = serde_json::from_slice(&data).unwrap_or(json!({}));
            if let Some(c) = v.get("clause").and_then(|c| c.as_str()) {
                return Some((c.to_string(), v["detail"].as_str().unwrap_or("").to_string()));
            }
            return None;
        }
    }
    Some(("machinery.no_result".into(), "replay child wrote no result".into()))
}

pub struct SeqResult {
    pub nodes: u64,
    pub transitions: u64,
    pub states: u64,
    pub executions: u64,
    pub steps: u64,
    pub found: Vec<Found>,
    pub violations_total: u64,
    pub log_dropped: u64,
    pub machinery_errors: u64,
    pub disabled_ops: u64,
    pub shape: Value,
    pub samples: Vec<Value>,
    pub capped: bool,
    pub wall_s: f64,
}

/// Explore one family exhaustively with `workers` processes.
pub fn explore(spec: SeqSpec, workers: usize, deadline: Option<std::time::Instant>) -> SeqResult {
    let t0 = std::time::Instant::now();
    let spec = Arc::new(spec);
    let slots: usize = std::env::var("RDBCHECK_SET_SLOTS").ok().and_then(|s| s.parse().ok()).unwrap_or(1 << 22);
    let shm = Arc::new(Shm::new(slots, 8 << 20));
    let p = spec.depth.min(if spec.alphabet.len() >= 12 { 2 } else { 3 }).min(spec.depth);
    let p = if spec.depth <= 1 { spec.depth } else { p };
    let total = num_tasks(&spec, p);
    let mut pids = vec![];
    for _ in 0..workers.max(1) {
        let pid = unsafe { libc::fork() };
        if pid == 0 {
            loop {
                if let Some(d) = deadline {
                    if std::time::Instant::now() > d {
                        break;
                    }
                }
                let t = shm.add(C_NEXT_TASK, 1) as usize;
                if t >= total {
                    break;
                }
                let prefix = decode_task(&spec, p, t);
                // each task in its own process: an abort (double panic) must not take the
                // worker and its remaining tasks with it
                let tp = unsafe { libc::fork() };
                if tp == 0 {
                    crate::watchdog::arm();
                    run_task(&spec, &shm, prefix);
                    unsafe { libc::_exit(0) };
                }
                let mut st: libc::c_int = 0;
                unsafe { libc::waitpid(tp, &mut st, 0) };
                if !(libc::WIFEXITED(st) && libc::WEXITSTATUS(st) == 0) {
                    if let Some(m) = crate::watchdog::describe_exit(st) {
                        record(&shm, &spec, &prefix, "C09.livelock", &m);
                        shm.add(C_TASKS_DONE, 1);
                        continue;
                    }
                    let what = if libc::WIFSIGNALED(st) {
                        format!("process died with signal {} while replaying the prefix or closing", libc::WTERMSIG(st))
                    } else {
                        format!("process exited with status {}", libc::WEXITSTATUS(st))
                    };
                    // attribute to the shortest enabled prefix: replay validation pins it down
                    record(&shm, &spec, &prefix, "crash.abort", &what);
                }
                shm.add(C_TASKS_DONE, 1);
            }
            unsafe { libc::_exit(0) };
        }
        pids.push(pid);
    }
    let mut worker_crashes = 0u64;
    for pid in pids {
        let mut st: libc::c_int = 0;
        unsafe { libc::waitpid(pid, &mut st, 0) };
        if !(libc::WIFEXITED(st) && libc::WEXITSTATUS(st) == 0) {
            worker_crashes += 1;
        }
    }
    let capped = (shm.get(C_TASKS_DONE) as usize) < total;
    let mut found = vec![];
    let mut samples: Vec<Value> = vec![];
    let mut machinery = shm.get(C_MACHINERY) + worker_crashes;
    for (tag, data) in shm.records() {
        match tag {
            b'V' => {
                if let Ok(v) = serde_json::from_slice::<Value>(&data) {
                    let f = Found {
                        spec: v["spec"].as_str().unwrap_or("").to_string(),
                        path: v["path"].as_array().map(|a| a.iter().map(|x| x.as_u64().unwrap_or(0) as usize).collect()).unwrap_or_default(),
                        ops: v["ops"].as_array().map(|a| a.iter().map(|x| x.as_str().unwrap_or("").to_string()).collect()).unwrap_or_default(),
                        clause: v["clause"].as_str().unwrap_or("").to_string(),
                        detail: v["detail"].as_str().unwrap_or("").to_string(),
                    };
                    if f.clause.starts_with("machinery.") {
                        machinery += 1;
                    }
                    found.push(f);
                }
            }
            b'M' => machinery += 1,
            b'S' => {
                if let Ok(v) = serde_json::from_slice::<Value>(&data) {
                    samples.push(v);
                }
            }
            _ => {}
        }
    }
    found.sort_by(|a, b| a.path.len().cmp(&b.path.len()).then(a.path.cmp(&b.path)));
    SeqResult {
        nodes: shm.get(C_NODES),
        transitions: shm.get(C_TRANSITIONS),
        states: shm.get(C_STATES),
        executions: shm.get(C_EXECUTIONS),
        steps: shm.get(C_STEPS),
        violations_total: shm.get(C_VIOLATIONS),
        log_dropped: shm.get(C_LOG_DROPPED),
        machinery_errors: machinery,
        disabled_ops: shm.get(C_DISABLED_OPS),
        shape: json!({
            "max_level0_files": shm.get(C_MAX_L0),
            "max_files_in_a_level_ge1": shm.get(C_MAX_LEVEL_FILES),
            "deepest_nonempty_level": shm.get(C_DEEPEST_LEVEL),
            "max_total_files": shm.get(C_MAX_TOTAL_FILES),
            "nodes_with_live_snapshot_or_iterator": shm.get(C_SNAP_NODES),
            "nodes_with_immutable_memtable_pending": shm.get(C_IMM_SEEN),
            "user": (C_USER..C_USER + 16).map(|i| shm.get(i)).collect::<Vec<_>>(),
        }),
        found,
        samples,
        capped,
        wall_s: t0.elapsed().as_secs_f64(),
    }
}
