//! C17: one owner at a time. Schedule exploration on the real `TmpFileSystem` (real flock), every
//! filesystem call a switch point.

use std::io;
use std::path::{Path, PathBuf};
use std::sync::atomic::{AtomicBool, AtomicI64, AtomicU64, Ordering};
use std::sync::{Arc, Mutex};
use std::time::{Duration, Instant};

use serde_json::{json, Value};

use raindb::fs::{FileLock, FileSystem, RandomAccessFile, ReadonlyRandomAccessFile, TmpFileSystem};
#[allow(unused_imports)]
use raindb::db::verif_hooks::VerifProbe;
use raindb::{DbOptions, ReadOptions, WriteOptions, DB};

use crate::crashx::pool;
use crate::props_seq::workers;
use crate::report::{Finding, Report};
use crate::run::{run_many, run_once, Outcome};
use crate::sched::{Mode, Sched};
use crate::shm::*;

struct SwitchFs {
    inner: TmpFileSystem,
    on: AtomicBool,
    /// while `on`: the write with this index (0-based) among the writes to WAL files fails, once
    fail_wal_write: Option<u64>,
    wal_writes: Arc<AtomicU64>,
    /// while `on`: the thread that creates the table file with this index (0-based, among the
    /// table files created while `on`) is parked inside `create_file` until the gate is released
    park_at_table_create: Vec<u64>,
    table_creates: AtomicU64,
    gate: Arc<Gate>,
    /// while `on`: every create / rename / remove as (task of the controlled runtime, clock, what)
    mutations: Mutex<Vec<(usize, u64, String)>>,
}

fn trace() -> bool {
    std::env::var("RDBCHECK_C17_TRACE").is_ok()
}

/// development aid: RDBCHECK_C17_TRACE=<file> appends what the gate saw and every history
fn trace_line(s: String) {
    use std::io::Write;
    if let Ok(p) = std::env::var("RDBCHECK_C17_TRACE") {
        if let Ok(mut f) = std::fs::OpenOptions::new().create(true).append(true).open(p) {
            let _ = writeln!(f, "{}", s);
        }
    }
}

/// Parks one thread of the subject at a chosen filesystem call (blocking under the controlled
/// runtime, so the other threads get scheduled) and tells the harness when it has arrived.
#[derive(Default)]
struct Gate {
    /// (threads that have arrived at a stage so far, stages released so far, the gated actor is closing)
    st: shuttle::sync::Mutex<(u32, u32, bool)>,
    cv: shuttle::sync::Condvar,
    /// the retrying opener waits on a pair of its own
    closing: shuttle::sync::Mutex<bool>,
    closing_cv: shuttle::sync::Condvar,
}

impl Gate {
    /// the calling thread has reached stage `k` (0-based) and stays there until it is released
    fn park(&self, k: u32) {
        let mut g = self.st.lock().unwrap();
        if trace() {
            trace_line(format!("[c17] a thread arrives at gate stage {} (stages released already: {})", k, g.1));
        }
        g.0 = g.0.max(k + 1);
        self.cv.notify_all();
        while g.1 <= k {
            g = self.cv.wait(g).unwrap();
        }
    }
    fn arrived(&self, k: u32) -> bool {
        self.st.lock().unwrap().0 > k
    }
    fn release(&self, k: u32) {
        let mut g = self.st.lock().unwrap();
        g.1 = g.1.max(k + 1);
        self.cv.notify_all();
    }
    /// release every stage and tell the retrying opener that the gated actor is about to close
    fn release_all_and_announce_close(&self) {
        let mut g = self.st.lock().unwrap();
        g.1 = u32::MAX;
        g.2 = true;
        self.cv.notify_all();
        drop(g);
        let mut c = self.closing.lock().unwrap();
        *c = true;
        self.closing_cv.notify_all();
    }
    fn wait_closing(&self) {
        let mut c = self.closing.lock().unwrap();
        while !*c {
            c = self.closing_cv.wait(c).unwrap();
        }
    }
}

/// A file handle whose writes are counted (WAL files only) and may be made to fail.
struct CountedFile {
    inner: Box<dyn RandomAccessFile>,
    fail_at: Option<u64>,
    counter: Arc<AtomicU64>,
    armed: bool,
}

impl CountedFile {
    fn gate(&self) -> io::Result<()> {
        if !self.armed {
            return Ok(());
        }
        let n = self.counter.fetch_add(1, Ordering::SeqCst);
        if Some(n) == self.fail_at {
            return Err(io::Error::new(io::ErrorKind::Other, "injected fault"));
        }
        Ok(())
    }
}

impl io::Read for CountedFile {
    fn read(&mut self, buf: &mut [u8]) -> io::Result<usize> {
        self.inner.read(buf)
    }
}
impl io::Seek for CountedFile {
    fn seek(&mut self, pos: io::SeekFrom) -> io::Result<u64> {
        self.inner.seek(pos)
    }
}
impl io::Write for CountedFile {
    fn write(&mut self, buf: &[u8]) -> io::Result<usize> {
        self.gate()?;
        self.inner.write(buf)
    }
    fn flush(&mut self) -> io::Result<()> {
        self.inner.flush()
    }
}
impl ReadonlyRandomAccessFile for CountedFile {
    fn read_from(&self, buf: &mut [u8], offset: usize) -> io::Result<usize> {
        self.inner.read_from(buf, offset)
    }
    fn len(&self) -> io::Result<u64> {
        self.inner.len()
    }
}
impl RandomAccessFile for CountedFile {
    fn append(&mut self, buf: &[u8]) -> io::Result<usize> {
        self.gate()?;
        self.inner.append(buf)
    }
}

impl SwitchFs {
    fn mutation(&self, what: &str, p: &Path) {
        if self.on.load(Ordering::SeqCst) {
            if let Some(t) = shuttle::current::get_current_task().map(usize::from) {
                let name = p.file_name().map(|n| n.to_string_lossy().to_string()).unwrap_or_default();
                self.mutations.lock().unwrap().push((t, tick(), format!("{} {}", what, name)));
            }
        }
    }

    fn sw(&self) {
        if self.on.load(Ordering::SeqCst) {
            parking_lot::verif_rt::harness_switch("fs");
        }
    }
}

impl FileSystem for SwitchFs {
    fn get_name(&self) -> String {
        "SwitchFs(TmpFileSystem)".into()
    }
    fn create_dir(&self, p: &Path) -> io::Result<()> {
        self.sw();
        self.inner.create_dir(p)
    }
    fn create_dir_all(&self, p: &Path) -> io::Result<()> {
        self.sw();
        self.inner.create_dir_all(p)
    }
    fn list_dir(&self, p: &Path) -> io::Result<Vec<PathBuf>> {
        self.sw();
        self.inner.list_dir(p)
    }
    fn open_file(&self, p: &Path) -> io::Result<Box<dyn ReadonlyRandomAccessFile>> {
        self.sw();
        self.inner.open_file(p)
    }
    fn rename(&self, a: &Path, b: &Path) -> io::Result<()> {
        self.sw();
        self.mutation("rename to", b);
        self.inner.rename(a, b)
    }
    fn create_file(&self, p: &Path, append: bool) -> io::Result<Box<dyn RandomAccessFile>> {
        self.sw();
        if self.on.load(Ordering::SeqCst) && !self.park_at_table_create.is_empty() && p.extension().map(|e| e == "rdb").unwrap_or(false) {
            let n = self.table_creates.fetch_add(1, Ordering::SeqCst);
            if let Some(stage) = self.park_at_table_create.iter().position(|&k| k == n) {
                self.gate.park(stage as u32);
            }
        }
        // (logged when the file is really created: after a possible stay at the gate)
        self.mutation("create", p);
        let f = self.inner.create_file(p, append)?;
        if self.fail_wal_write.is_some() && p.extension().map(|e| e == "log").unwrap_or(false) {
            return Ok(Box::new(CountedFile {
                inner: f,
                fail_at: self.fail_wal_write,
                counter: Arc::clone(&self.wal_writes),
                armed: self.on.load(Ordering::SeqCst),
            }));
        }
        Ok(f)
    }
    fn remove_file(&self, p: &Path) -> io::Result<()> {
        self.sw();
        self.mutation("remove", p);
        self.inner.remove_file(p)
    }
    fn remove_dir(&self, p: &Path) -> io::Result<()> {
        self.sw();
        self.inner.remove_dir(p)
    }
    fn remove_dir_all(&self, p: &Path) -> io::Result<()> {
        self.sw();
        self.inner.remove_dir_all(p)
    }
    fn get_file_size(&self, p: &Path) -> io::Result<u64> {
        self.sw();
        self.inner.get_file_size(p)
    }
    fn is_dir(&self, p: &Path) -> io::Result<bool> {
        self.inner.is_dir(p)
    }
    fn lock_file(&self, p: &Path) -> io::Result<FileLock> {
        self.sw();
        self.inner.lock_file(p)
    }
}

#[derive(Clone, Copy, Debug, PartialEq, Eq)]
pub enum Actor {
    /// open; put; close
    OpenPutClose,
    /// open and keep the handle until every actor is done
    OpenHold,
    /// destroy_database
    Destroy,
    /// open with error_if_exists (fails on an existing database); put; close
    OpenErrIfExists,
    /// open with create_if_missing off (fails on an absent database); put; close
    OpenNoCreate,
    /// open with reuse_log_files off (the recovery turns the WAL into a level-0 table); put; close
    OpenNoReuse,
    /// like `OpenNoReuse`, but after the open the actor waits until the background thread is parked
    /// at the program's gate (inside the table compaction that the open has set off); it then
    /// puts (the third put rotates the memtable), opens the gate and closes at once
    OpenNoReuseGated,
    /// open; 100 gets of the key "m" (each consults two tables: the table that is consulted first
    /// and does not hold the key uses up its seek allowance of 100 with the last of them and a
    /// seek-triggered compaction is scheduled); close at once
    OpenGetsClose,
    /// tries to open once; then, from the moment the gated actor starts to close, again and again
    /// (yielding in between) until it succeeds; keeps the handle
    OpenRetryHold,
}

#[derive(Clone, Copy, Debug, PartialEq, Eq)]
pub enum Initial {
    Absent,
    Closed,
    /// the main thread holds an open handle while the actors run
    Open,
    /// closed, with three overlapping level-0 tables and a non-empty WAL: the next open without
    /// log reuse adds the fourth level-0 table, so a table compaction starts in the background
    /// of that open and is still running (or has just flushed the memtable its owner rotated) when
    /// the owner closes
    ClosedCompactionDue,
    /// closed, with two overlapping level-0 tables {b,c,y} (newer) above {a,m,z}: a get of "m"
    /// consults both
    ClosedTwoOverlappingTables,
}

#[derive(Clone, Debug)]
pub struct P17 {
    pub name: String,
    pub initial: Initial,
    pub actors: Vec<Actor>,
    /// the write with this index among the actors' writes to WAL files fails once
    pub fail_wal_write: Option<u64>,
    /// the thread creating the table file with this index (among those created while the actors
    /// run) is parked there until the gated actor releases it
    pub park_at_table_create: Vec<u64>,
    /// judge every create / rename / remove made after a successful open by a thread that existed
    /// before that open began (costs one extra task per open attempt)
    pub track_foreign_mutations: bool,
}

impl P17 {
    pub fn describe(&self) -> Value {
        json!({"program": self.name, "initial": format!("{:?}", self.initial), "actors": self.actors.iter().map(|a| format!("{:?}", a)).collect::<Vec<_>>(), "failing_wal_write_index": self.fail_wal_write, "background_thread_parked_at_table_create_index": self.park_at_table_create})
    }
}

fn opts_for(fs: &Arc<SwitchFs>, a: Actor) -> DbOptions {
    let mut o = opts(fs);
    match a {
        Actor::OpenErrIfExists => o.error_if_exists = true,
        Actor::OpenNoCreate => o.create_if_missing = false,
        Actor::OpenNoReuse | Actor::OpenNoReuseGated => o.reuse_log_files = false,
        _ => {}
    }
    o
}

fn opts(fs: &Arc<SwitchFs>) -> DbOptions {
    DbOptions {
        db_path: fs.inner.get_root_path().join("db").to_str().unwrap().to_string(),
        // small enough that the third small put rotates the memtable: a close can then find a
        // background flush in progress
        max_memtable_size: 300,
        max_file_size: 2 << 20,
        max_block_size: 4096,
        filesystem_provider: Arc::clone(fs) as Arc<dyn FileSystem>,
        filter_policy: Arc::new(raindb::BloomFilterPolicy::new(10)),
        block_cache: raindb::verif::block_cache(64),
        create_if_missing: true,
        error_if_exists: false,
        reuse_log_files: true,
    }
}

#[derive(Clone, Debug)]
struct Ev {
    actor: usize,
    what: &'static str,
    invoke: u64,
    ret: u64,
    ok: bool,
    err: String,
}

static CLK: AtomicU64 = AtomicU64::new(0);
fn tick() -> u64 {
    CLK.fetch_add(1, Ordering::SeqCst)
}

/// One execution; returns the first violation.
fn body(p: &P17) -> Option<(String, String)> {
    CLK.store(0, Ordering::SeqCst);
    let orphan_exits_before = parking_lot::verif_rt::orphan_worker_exits();
    let fs = Arc::new(SwitchFs {
        inner: TmpFileSystem::new(None),
        on: AtomicBool::new(false),
        fail_wal_write: p.fail_wal_write,
        wal_writes: Arc::new(AtomicU64::new(0)),
        park_at_table_create: p.park_at_table_create.clone(),
        table_creates: AtomicU64::new(0),
        gate: Arc::new(Gate::default()),
        mutations: Mutex::new(vec![]),
    });
    let alive = Arc::new(AtomicI64::new(0));
    let max_alive = Arc::new(AtomicI64::new(0));
    let log: Arc<Mutex<Vec<Ev>>> = Arc::new(Mutex::new(vec![]));
    let acked: Arc<Mutex<Vec<Vec<u8>>>> = Arc::new(Mutex::new(vec![]));
    // probes of every instance ever opened: (actor, probe)
    let probes: Arc<Mutex<Vec<(usize, raindb::db::verif_hooks::VerifProbe)>>> = Arc::new(Mutex::new(vec![]));
    let overlap: Arc<Mutex<Option<String>>> = Arc::new(Mutex::new(None));
    // for the "previous owner still writes" oracle: the runtime tasks of the actors themselves,
    // and per successful open (actor, marker task id, clock at its return)
    let actor_tasks: Arc<Mutex<Vec<usize>>> = Arc::new(Mutex::new(vec![]));
    let opens_ok: Arc<Mutex<Vec<(usize, usize, u64)>>> = Arc::new(Mutex::new(vec![]));
    let track_foreign = p.track_foreign_mutations;
    let get = |db: &DB, k: &[u8]| db.get(ReadOptions::default(), k).ok();
    let mut owner: Option<DB> = None;
    match p.initial {
        Initial::Absent | Initial::ClosedCompactionDue | Initial::ClosedTwoOverlappingTables => {}
        Initial::Closed | Initial::Open => {
            let db = match DB::open(opts(&fs)) {
                Ok(db) => db,
                Err(e) => return Some(("C17.setup".into(), format!("initial open failed: {}", e))),
            };
            if let Err(e) = db.put(WriteOptions::default(), b"k0".to_vec(), b"v0".to_vec()) {
                return Some(("C17.setup".into(), format!("initial put failed: {}", e)));
            }
            if p.initial == Initial::Open {
                alive.fetch_add(1, Ordering::SeqCst);
                max_alive.fetch_max(1, Ordering::SeqCst);
                owner = Some(db);
            }
        }
    }
    // the two start states below are built under the scheduler's default choices (harness work,
    // not explored) and with a memtable budget that no setup write exceeds
    if p.initial == Initial::ClosedCompactionDue || p.initial == Initial::ClosedTwoOverlappingTables {
        parking_lot::verif_rt::set_oracle_mode(true);
    }
    if p.initial == Initial::ClosedCompactionDue {
        // four incarnations without log reuse: each recovery turns the WAL its predecessor left
        // behind into one more level-0 table (same key, so they overlap and stay in level 0)
        for s in 0..4 {
            let mut o = opts(&fs);
            o.reuse_log_files = false;
            let db = match DB::open(o) {
                Ok(db) => db,
                Err(e) => return Some(("C17.setup".into(), format!("setup open {} failed: {}", s, e))),
            };
            if let Err(e) = db.put(WriteOptions::default(), b"k0".to_vec(), format!("v{}", s).into_bytes()) {
                return Some(("C17.setup".into(), format!("setup put {} failed: {}", s, e)));
            }
            if s == 3 {
                let l0 = db.verif_layout().get(0).map(|l| l.len()).unwrap_or(0);
                if l0 != 3 {
                    return Some(("C17.setup".into(), format!("setup expected three level-0 tables, found {}", l0)));
                }
            }
            drop(db);
        }
    }
    if p.initial == Initial::ClosedTwoOverlappingTables {
        let sessions: [&[&[u8]]; 3] = [&[b"a", b"m", b"z"], &[b"b", b"c", b"y"], &[]];
        for (s, keys) in sessions.iter().enumerate() {
            let mut o = opts(&fs);
            o.reuse_log_files = false;
            o.max_memtable_size = 1 << 20;
            let db = match DB::open(o) {
                Ok(db) => db,
                Err(e) => return Some(("C17.setup".into(), format!("setup open {} failed: {}", s, e))),
            };
            for k in keys.iter() {
                if let Err(e) = db.put(WriteOptions::default(), k.to_vec(), b"v".to_vec()) {
                    return Some(("C17.setup".into(), format!("setup put failed: {}", e)));
                }
            }
            if s == 2 {
                let l0 = db.verif_layout().get(0).map(|l| l.len()).unwrap_or(0);
                if l0 != 2 {
                    return Some(("C17.setup".into(), format!("setup expected two level-0 tables, found {}", l0)));
                }
            }
            drop(db);
        }
    }
    parking_lot::verif_rt::set_oracle_mode(false);
    let owner_open_ret = tick();
    fs.on.store(true, Ordering::SeqCst);
    let mut handles = vec![];
    for (ai, a) in p.actors.iter().enumerate() {
        let fs = Arc::clone(&fs);
        let alive = Arc::clone(&alive);
        let max_alive = Arc::clone(&max_alive);
        let log = Arc::clone(&log);
        let acked = Arc::clone(&acked);
        let probes = Arc::clone(&probes);
        let overlap = Arc::clone(&overlap);
        let actor_tasks = Arc::clone(&actor_tasks);
        let opens_ok = Arc::clone(&opens_ok);
        let a = *a;
        handles.push(shuttle::thread::spawn(move || -> Option<DB> {
            let push = |what: &'static str, invoke: u64, ok: bool, err: String| {
                log.lock().unwrap().push(Ev { actor: ai, what, invoke, ret: tick(), ok, err });
            };
            match a {
                Actor::Destroy => {
                    let i = tick();
                    let r = DB::destroy_database(opts(&fs));
                    push("destroy", i, r.is_ok(), r.err().map(|e| e.to_string()).unwrap_or_default());
                    None
                }
                Actor::OpenPutClose | Actor::OpenHold | Actor::OpenErrIfExists | Actor::OpenNoCreate | Actor::OpenNoReuse | Actor::OpenNoReuseGated | Actor::OpenRetryHold | Actor::OpenGetsClose => {
                    if let Some(me) = shuttle::current::get_current_task().map(usize::from) {
                        actor_tasks.lock().unwrap().push(me);
                    }
                    let mut attempt = 0u32;
                    loop {
                    attempt += 1;
                    // every task of the runtime that exists now has a smaller id than a task
                    // spawned now: the tasks of the instance about to be opened have larger ones
                    // (the marker task does nothing and is never waited for: its id is known from its
                    // handle; joining it would hand the processor to every lower-numbered thread first)
                    let marker: Option<usize> = if track_foreign {
                        let h = shuttle::thread::spawn(|| ());
                        Some(usize::from(h.thread().id()))
                    } else {
                        None
                    };
                    let i = tick();
                    match DB::open(opts_for(&fs, a)) {
                        Ok(db) => {
                            let n = alive.fetch_add(1, Ordering::SeqCst) + 1;
                            max_alive.fetch_max(n, Ordering::SeqCst);
                            push("open", i, true, String::new());
                            if let Some(m) = marker {
                                opens_ok.lock().unwrap().push((ai, m, CLK.load(Ordering::SeqCst)));
                            }
                            // no other instance may still have background work in flight
                            let others: Vec<usize> = {
                                let ps = std::mem::take(&mut *probes.lock().unwrap());
                                let busy = ps.iter().filter(|(_, p)| p.background_work_pending()).map(|(a, _)| *a).collect();
                                let mut g = probes.lock().unwrap();
                                let newer = std::mem::take(&mut *g);
                                *g = ps;
                                g.extend(newer);
                                busy
                            };
                            if let Some(o) = others.first() {
                                let mut g = overlap.lock().unwrap();
                                if g.is_none() {
                                    *g = Some(format!("actor {}'s open succeeded while the instance opened by actor {} still had background work in flight", ai, o));
                                }
                            }
                            probes.lock().unwrap().push((ai, db.verif_probe()));
                            if a == Actor::OpenHold || a == Actor::OpenRetryHold {
                                return Some(db);
                            }
                            // stage 0: the background thread is inside the table compaction
                            // (creating its output) before the actor writes anything
                            let probe_own = db.verif_probe();
                            let wait_stage = |k: u32| {
                                // (a bounded number of yields: every one of them hands the processor to
                                // the background thread until that blocks, so a few are plenty; the
                                // instance's own "work is scheduled" flag is not consulted - a change
                                // that forgets to set it is among the things to be found)
                                let _ = &probe_own;
                                let mut spins = 0u32;
                                while !fs.gate.arrived(k) && spins < 50 {
                                    shuttle::thread::yield_now();
                                    spins += 1;
                                }
                            };
                            if a == Actor::OpenNoReuseGated {
                                wait_stage(0);
                            }
                            if a == Actor::OpenGetsClose {
                                for _ in 0..100 {
                                    let _ = db.get(ReadOptions::default(), b"m");
                                }
                                if trace() {
                                    trace_line(format!("[c17] after the 100 gets: background work pending = {}, layout = {:?}", db.verif_probe().background_work_pending(), db.verif_layout().iter().map(|l| l.len()).collect::<Vec<_>>()));
                                }
                                // the compaction thread is parked where it creates its output
                                wait_stage(0);
                                alive.fetch_sub(1, Ordering::SeqCst);
                                fs.gate.release_all_and_announce_close();
                                let i = tick();
                                drop(db);
                                push("close", i, true, String::new());
                                return None;
                            }
                            for j in 0..3 {
                                let i = tick();
                                let key = format!("a{}-{}", ai, j).into_bytes();
                                let r = db.put(WriteOptions::default(), key.clone(), b"x".to_vec());
                                if r.is_ok() {
                                    acked.lock().unwrap().push(key);
                                }
                                push("put", i, r.is_ok(), r.err().map(|e| e.to_string()).unwrap_or_default());
                            }
                            alive.fetch_sub(1, Ordering::SeqCst);
                            if a == Actor::OpenNoReuseGated {
                                // the memtable has been rotated: the compaction goes on, finds the
                                // immutable memtable at its next entry and starts to flush it
                                // (stage 1: it creates the flush output); only then the close begins
                                fs.gate.release(0);
                                wait_stage(1);
                                fs.gate.release_all_and_announce_close();
                            }
                            let i = tick();
                            drop(db);
                            push("close", i, true, String::new());
                            return None;
                        }
                        Err(e) => {
                            push("open", i, false, e.to_string());
                            if a == Actor::OpenNoReuseGated || a == Actor::OpenGetsClose {
                                fs.gate.release_all_and_announce_close();
                            }
                            if a != Actor::OpenRetryHold || attempt >= 40 {
                                return None;
                            }
                            if attempt == 1 {
                                fs.gate.wait_closing();
                                if trace() {
                                    trace_line(format!("[c17] the retrying opener has been told that the owner closes (clock {})", CLK.load(Ordering::SeqCst)));
                                }
                            } else {
                                shuttle::thread::yield_now();
                            }
                        }
                    }
                    }
                }
            }
        }));
    }
    let mut held: Vec<DB> = vec![];
    for h in handles {
        if let Ok(Some(db)) = h.join() {
            held.push(db);
        }
    }
    fs.on.store(false, Ordering::SeqCst);
    let actors_done = tick();
    let events = log.lock().unwrap().clone();
    let hist = || {
        let mut e = events.clone();
        e.sort_by_key(|e| e.invoke);
        e.iter().map(|e| format!("A{} {} [{}..{}] -> {}", e.actor, e.what, e.invoke, e.ret, if e.ok { "Ok".to_string() } else { format!("Err({})", e.err.chars().take(40).collect::<String>()) })).collect::<Vec<_>>().join(" | ")
    };
    // the background thread of an open that failed before it handed the thread any command (a
    // refused open, among others): in the verification build that thread reports that it has
    // reached the place where the real build would unwrap a receive error - a panic of a thread
    // of the process that owns the database
    for _ in 0..4 {
        shuttle::thread::yield_now();
    }
    let orphan_panics = parking_lot::verif_rt::orphan_worker_exits() - orphan_exits_before;
    if trace() {
        trace_line(format!(
            "[c17] {} table files created while the actors ran; history: {}; mutations: {:?}; actor tasks {:?}; opens {:?}",
            fs.table_creates.load(Ordering::SeqCst),
            hist(),
            fs.mutations.lock().unwrap().iter().map(|(t, c, w)| format!("t{}@{} {}", t, c, w)).collect::<Vec<_>>(),
            actor_tasks.lock().unwrap(),
            opens_ok.lock().unwrap()
        ));
    }
    let mut verdict: Option<(String, String)> = None;
    if let Some(m) = overlap.lock().unwrap().take() {
        verdict = Some(("C17.open_during_close".into(), format!("{}: {}", m, hist())));
    }
    if verdict.is_none() {
        // once an open has succeeded nobody but the new instance (tasks spawned after the open began)
        // and the actors' own threads may create, rename or remove anything in the directory: a task
        // that existed before the open began and still does so is a previous owner's thread
        let actors = actor_tasks.lock().unwrap().clone();
        let muts = fs.mutations.lock().unwrap().clone();
        'outer: for (ai, marker, ret) in opens_ok.lock().unwrap().iter() {
            for (t, c, what) in muts.iter() {
                // (`ret` is the next clock value at the moment the open had returned)
                if *c >= *ret && *t < *marker && !actors.contains(t) {
                    verdict = Some((
                        "C17.previous_owner_still_writing".into(),
                        format!("after actor {}'s open had succeeded, a thread that already existed before that open began (task {}, not an actor) did: {} - the previous owner's background thread is still working on the directory ({})", ai, t, what, hist()),
                    ));
                    break 'outer;
                }
            }
        }
    }
    if verdict.is_none() && orphan_panics > 0 {
        verdict = Some((
            "C17.failed_open_panics_a_thread".into(),
            format!("{} DB::open call(s) that failed left a background thread behind that panics (receive on a channel whose sender was dropped) - in a process that aborts on panic a refused open attempt kills the running owner ({})", orphan_panics, hist()),
        ));
    }
    if verdict.is_none() && max_alive.load(Ordering::SeqCst) > 1 {
        verdict = Some(("C17.two_owners".into(), format!("two successfully opened handles were alive at the same time: {}", hist())));
    }
    if verdict.is_none() && p.initial == Initial::Open {
        // everything the actors did overlapped the owner's tenure: all opens and destroys fail
        for e in events.iter() {
            if (e.what == "open" || e.what == "destroy") && e.ok && e.invoke > owner_open_ret && e.ret < actors_done {
                verdict = Some(("C17.not_refused".into(), format!("{} succeeded while the database was open elsewhere: {}", e.what, hist())));
            }
        }
        if verdict.is_none() {
            let db = owner.as_ref().unwrap();
            if let Err(e) = db.put(WriteOptions::default(), b"k1".to_vec(), b"v1".to_vec()) {
                verdict = Some(("C17.owner_disturbed".into(), format!("the owner's put failed after the attempts: {} ({})", e, hist())));
            } else if get(db, b"k0") != Some(b"v0".to_vec()) || get(db, b"k1") != Some(b"v1".to_vec()) {
                verdict = Some(("C17.owner_disturbed".into(), format!("the owner's data is not readable after the attempts ({})", hist())));
            } else {
                // the owner can still flush its memtable (its directories are intact) and go on writing
                let z: &[u8] = &[0xff, 0xff, 0xff];
                db.compact_range(Some(z)..Some(z));
                if let Err(e) = db.put(WriteOptions::default(), b"k2".to_vec(), b"v2".to_vec()) {
                    verdict = Some(("C17.owner_disturbed".into(), format!("after the attempts the owner cannot flush and go on writing: {} ({})", e, hist())));
                } else if get(db, b"k0") != Some(b"v0".to_vec()) || get(db, b"k2") != Some(b"v2".to_vec()) {
                    verdict = Some(("C17.owner_disturbed".into(), format!("the owner's data is not readable after the attempts and a flush ({})", hist())));
                }
            }
        }
    }
    if verdict.is_none() && p.initial != Initial::Open && !p.actors.contains(&Actor::Destroy) {
        let holders = p.actors.iter().filter(|a| **a == Actor::OpenHold).count();
        if holders == p.actors.len() && held.len() != 1 {
            verdict = Some(("C17.not_exactly_one".into(), format!("{} of {} racing opens (all keeping their handle) succeeded: {}", held.len(), holders, hist())));
        }
    }
    // while any handle is still open (the main thread's or an actor's), one more open — issued now,
    // after every actor has returned — is refused like any other
    if verdict.is_none() && (owner.is_some() || !held.is_empty()) {
        if let Ok(second) = DB::open(opts(&fs)) {
            verdict = Some(("C17.two_owners".into(), format!("after the actors returned a handle is still open, yet one more DB::open on the path succeeds ({})", hist())));
            drop(second);
        }
    }
    // every handle that is still open now (whatever destroy attempts ran meanwhile) is a working
    // database: a write through it succeeds and is there after close + reopen
    let mut survivor_keys: Vec<Vec<u8>> = vec![];
    for (i, db) in held.iter().enumerate() {
        let key = format!("survivor-{}", i).into_bytes();
        match db.put(WriteOptions::default(), key.clone(), b"s".to_vec()) {
            Ok(()) => survivor_keys.push(key),
            Err(e) => {
                if verdict.is_none() {
                    verdict = Some(("C17.owner_disturbed".into(), format!("a put through a handle that was opened successfully and is still open fails: {} ({})", e, hist())));
                }
            }
        }
    }
    // release everything, then the data of a surviving database must be there
    for db in held.drain(..) {
        alive.fetch_sub(1, Ordering::SeqCst);
        drop(db);
    }
    if verdict.is_none() && !survivor_keys.is_empty() {
        match DB::open(opts(&fs)) {
            Ok(db) => {
                for k in survivor_keys.iter() {
                    if get(&db, k).is_none() {
                        verdict = Some(("C17.owner_disturbed".into(), format!("a write acknowledged to the last open handle is gone after close + reopen ({})", hist())));
                        break;
                    }
                }
            }
            Err(e) => verdict = Some(("C17.owner_disturbed".into(), format!("the database of the last open handle cannot be opened after its close: {} ({})", e, hist()))),
        }
    }
    // every put acknowledged by any owner is there after everybody closed (unless a destroy ran)
    let destroyed = events.iter().any(|e| e.what == "destroy" && e.ok) || p.actors.contains(&Actor::Destroy);
    if verdict.is_none() && !destroyed && owner.is_none() {
        let keys = acked.lock().unwrap().clone();
        // (also without acknowledged writes: an attempt that failed must not keep the lock)
        {
            match DB::open(opts(&fs)) {
                Ok(db) => {
                    // two instances active on one path leave duplicate / overlapping file records
                    // (the layout and the descriptor are compared with each other: wait until the
                    // background work this open may have started - a compaction that was due - has
                    // gone idle, or a version installed between the two reads looks like a mismatch)
                    let probe = db.verif_probe();
                    let mut spins = 0u32;
                    while probe.background_work_pending() && spins < 1_000_000 {
                        if parking_lot::verif_rt::in_execution() {
                            shuttle::thread::yield_now();
                        }
                        spins += 1;
                    }
                    let layout = db.verif_layout();
                    if let Err(v) = crate::world::check_layout_wellformed(&db, &layout, true) {
                        verdict = Some(("C17.shared_state_damaged".into(), format!("after everybody closed the database's table layout is ill-formed ({}: {}) — two instances were active on the path at once ({})", v.clause, v.detail, hist())));
                    }
                    for k in keys.iter() {
                        if verdict.is_some() {
                            break;
                        }
                        if get(&db, k).is_none() {
                            verdict = Some((
                                "C17.acknowledged_write_lost".into(),
                                format!("put({}) was acknowledged to an owner but is gone after everybody closed ({})", String::from_utf8_lossy(k), hist()),
                            ));
                            break;
                        }
                    }
                }
                Err(e) => verdict = Some((if keys.is_empty() { "C17.cannot_reopen".into() } else { "C17.acknowledged_write_lost".into() }, format!("the database cannot be opened after everybody closed: {} ({})", e, hist()))),
            }
        }
    }
    if let Some(db) = owner.take() {
        drop(db);
        if verdict.is_none() {
            match DB::open(opts(&fs)) {
                Ok(db) => {
                    if get(&db, b"k0") != Some(b"v0".to_vec()) || get(&db, b"k1") != Some(b"v1".to_vec()) {
                        verdict = Some(("C17.owner_data_lost".into(), format!("after the owner closed, its data is gone ({})", hist())));
                    }
                }
                Err(e) => verdict = Some(("C17.owner_data_lost".into(), format!("after the owner closed the database cannot be opened: {} ({})", e, hist()))),
            }
        }
    }
    verdict
}

pub fn programs() -> Vec<P17> {
    use Actor::*;
    let mk = |name: &str, initial: Initial, actors: Vec<Actor>| P17 { name: name.to_string(), initial, actors, fail_wal_write: None, park_at_table_create: vec![], track_foreign_mutations: false };
    let mkf = |name: &str, initial: Initial, actors: Vec<Actor>, k: u64| P17 { name: name.to_string(), initial, actors, fail_wal_write: Some(k), park_at_table_create: vec![], track_foreign_mutations: false };
    vec![
        // the owner's third put rotates the memtable (a flush is scheduled) and its WAL append
        // fails: the close that follows must still hold the lock until the flush has ended
        mkf("closed:openclose(3rd wal write fails)||hold", Initial::Closed, vec![OpenPutClose, OpenHold], 2),
        mkf("closed:openclose(2nd wal write fails)||openclose", Initial::Closed, vec![OpenPutClose, OpenPutClose], 1),
        mk("open:open||open", Initial::Open, vec![OpenHold, OpenPutClose]),
        mk("open:open||destroy", Initial::Open, vec![OpenPutClose, Destroy]),
        mk("open:destroy||destroy", Initial::Open, vec![Destroy, Destroy]),
        // close while a table compaction is running in the background of the closing instance
        mk("compaction-due:open-noreuse||hold", Initial::ClosedCompactionDue, vec![OpenNoReuse, OpenHold]),
        // the same with the compaction thread parked twice: where it creates its output table, until
        // the owner has rotated its memtable; and where it creates the table of the flush of that
        // memtable (which it does in the middle of its merge loop), until the owner starts to close.
        // The flush then ends and signals it while the compaction is still at work: the closing
        // owner must go on waiting. The second actor keeps trying to open all the while
        P17 { name: "compaction-due:open-noreuse(compaction parked until close)||retry-hold".to_string(), initial: Initial::ClosedCompactionDue, actors: vec![OpenNoReuseGated, OpenRetryHold], fail_wal_write: None, park_at_table_create: vec![1, 2], track_foreign_mutations: true },
        // a get-triggered (seek) compaction is scheduled by the owner's last read and parked where it
        // creates its output table until the owner starts to close; the other actor keeps trying to open
        P17 { name: "seek-compaction-due:open-100gets-close||retry-hold".to_string(), initial: Initial::ClosedTwoOverlappingTables, actors: vec![OpenGetsClose, OpenRetryHold], fail_wal_write: None, park_at_table_create: vec![0], track_foreign_mutations: true },
        mk("closed:hold||hold", Initial::Closed, vec![OpenHold, OpenHold]),
        mk("closed:hold||hold||hold", Initial::Closed, vec![OpenHold, OpenHold, OpenHold]),
        mk("absent:hold||hold", Initial::Absent, vec![OpenHold, OpenHold]),
        mk("closed:hold||openclose", Initial::Closed, vec![OpenHold, OpenPutClose]),
        mk("closed:openclose||openclose", Initial::Closed, vec![OpenPutClose, OpenPutClose]),
        mk("absent:openclose||openclose||hold", Initial::Absent, vec![OpenPutClose, OpenPutClose, OpenHold]),
        mk("closed:destroy||hold", Initial::Closed, vec![Destroy, OpenHold]),
        mk("closed:destroy||hold||hold", Initial::Closed, vec![Destroy, OpenHold, OpenHold]),
        mk("closed:destroy||openclose||hold", Initial::Closed, vec![Destroy, OpenPutClose, OpenHold]),
        mk("absent:destroy||hold", Initial::Absent, vec![Destroy, OpenHold]),
        // attempts that fail for a reason of their own (error_if_exists on an existing database,
        // create_if_missing off on an absent one) must neither disturb the owner nor keep the lock
        mk("open:open-eie||open", Initial::Open, vec![OpenErrIfExists, OpenPutClose]),
        mk("closed:open-eie||openclose", Initial::Closed, vec![OpenErrIfExists, OpenPutClose]),
        mk("closed:open-eie||open-eie", Initial::Closed, vec![OpenErrIfExists, OpenErrIfExists]),
        mk("absent:open-eie||open-eie", Initial::Absent, vec![OpenErrIfExists, OpenErrIfExists]),
        mk("absent:open-nocreate||openclose", Initial::Absent, vec![OpenNoCreate, OpenPutClose]),
        mk("absent:open-nocreate||open-nocreate", Initial::Absent, vec![OpenNoCreate, OpenNoCreate]),
        mk("open:open-nocreate||destroy", Initial::Open, vec![OpenNoCreate, Destroy]),
    ]
}

fn job(p: &P17, bound: (usize, usize), part: (usize, usize), shm: &Arc<Shm>, slot: usize, deadline: Option<Instant>) -> bool {
    let sched = Sched::new(Mode::Dfs { bound: bound.0, max_dev: bound.1 });
    sched.core().partition = Some(part);
    sched.core().deadline = deadline;
    let record = |sched: &Sched, clause: &str, detail: &str| {
        shm.add(C_VIOLATIONS, 1);
        let core = sched.core();
        let v = json!({"prog": p.name, "clause": clause, "detail": detail, "choices": core.current_choices(),
            "preempts": core.cur_preempts.iter().map(|(d, q)| format!("{}@{}", q, d)).collect::<Vec<_>>()});
        drop(core);
        shm.push_record(b'V', v.to_string().as_bytes());
    };
    loop {
        let p2 = p.clone();
        let shm2 = Arc::clone(shm);
        let sched2 = sched.clone();
        let failed = run_many(&sched, move || {
            let v = body(&p2);
            if sched2.core().first_is_foreign {
                return;
            }
            shm2.add(C_EXECUTIONS, 1);
            shm2.add(C_USER + slot, 1);
            if let Some((c, d)) = v {
                shm2.add(C_VIOLATIONS, 1);
                let core = sched2.core();
                let rec = json!({"prog": p2.name, "clause": c, "detail": d, "choices": core.current_choices(),
                    "preempts": core.cur_preempts.iter().map(|(d, q)| format!("{}@{}", q, d)).collect::<Vec<_>>()});
                drop(core);
                shm2.push_record(b'V', rec.to_string().as_bytes());
            }
        });
        match failed {
            None => break,
            Some(Outcome::Divergence(m)) => {
                shm.add(C_MACHINERY, 1);
                shm.push_record(b'M', format!("{}: {}", p.name, m).as_bytes());
                return false;
            }
            Some(o) => {
                if sched.core().first_is_foreign {
                    continue;
                }
                shm.add(C_EXECUTIONS, 1);
                shm.add(C_USER + slot, 1);
                let (c, d) = match o {
                    Outcome::Panic { msg, .. } => ("C17.panic", msg),
                    Outcome::Deadlock(m) => ("C17.hang", m),
                    Outcome::StepBound => ("C17.hang", "step bound exceeded".to_string()),
                    _ => ("machinery.other", String::new()),
                };
                record(&sched, c, &d);
            }
        }
    }
    let core = sched.core();
    shm.add(C_STEPS, core.steps);
    shm.add(C_NODES, core.nodes_created);
    !core.stopped_by_deadline
}

fn replay(p: &P17, choices: &[usize]) -> Option<String> {
    let shm = Shm::new(1 << 4, 1 << 16);
    let pid = unsafe { libc::fork() };
    if pid == 0 {
        crate::watchdog::arm();
        let sched = Sched::new(Mode::Fixed);
        sched.core().forced = choices.to_vec();
        let slot: Arc<Mutex<Option<(String, String)>>> = Arc::new(Mutex::new(None));
        let s2 = Arc::clone(&slot);
        let p2 = p.clone();
        let o = run_once(&sched, move || {
            *s2.lock().unwrap() = body(&p2);
        });
        let c = match (slot.lock().unwrap().take(), o) {
            (Some((c, _)), _) => c,
            (None, Some(Outcome::Ok)) => "none".to_string(),
            (None, Some(Outcome::Panic { .. })) => "C17.panic".into(),
            (None, Some(Outcome::Deadlock(_))) | (None, Some(Outcome::StepBound)) => "C17.hang".into(),
            _ => "other".into(),
        };
        shm.push_record(b'R', c.as_bytes());
        unsafe { libc::_exit(0) };
    }
    let mut st: libc::c_int = 0;
    unsafe { libc::waitpid(pid, &mut st, 0) };
    shm.records().into_iter().find(|(t, _)| *t == b'R').map(|(_, d)| String::from_utf8_lossy(&d).to_string())
}

/// quick tier: programs with three actors get one deviation less, so that the whole list completes
/// within the quick budget (the bound of every program is in the evidence)
fn bound_for(p: &P17, bound: (usize, usize), thorough: bool) -> (usize, usize) {
    // (also the programs with the most schedules per deviation: two full open/put/close bodies,
    // and the attempts that fail for a reason of their own)
    let heavy = p.name.starts_with("compaction-due") || p.name.starts_with("seek-compaction-due") || p.name.contains("open-eie") || p.name.contains("open-nocreate") || p.name == "open:open||open" || p.name.ends_with("||openclose");
    // the gated programs have several hundred decisions per execution (100 gets; a compaction with
    // every filesystem call a switch point): one deviation in the quick tier - the gates already
    // put the threads where the window is
    if !thorough && (p.name.starts_with("seek-compaction-due") || p.name.contains("compaction parked")) {
        return (bound.0, 1);
    }
    if !thorough && (p.actors.len() >= 3 || heavy) {
        (bound.0, bound.1 - 1)
    } else {
        bound
    }
}

pub fn c17(tier: &str) -> ! {
    let mut rep = Report::new("C17", tier, "model_checking");
    let t = tier == "thorough";
    let bound = if t { (2, 4) } else { (1, 3) };
    let parts = if t { 16 } else { 8 };
    let budget = Duration::from_secs(match std::env::var("RDBCHECK_BUDGET_S").ok().and_then(|s| s.parse().ok()) {
        Some(s) => s,
        None => {
            if t {
                crate::report::scaled(Duration::from_secs(2400)).as_secs()
            } else {
                45
            }
        }
    });
    let only = std::env::var("RDBCHECK_ONLY").ok();
    let progs: Vec<P17> = programs().into_iter().filter(|p| only.as_ref().map(|o| p.name.contains(o.as_str())).unwrap_or(true)).collect();
    if let Some(req) = crate::report::replay_request("c17") {
        let want = req["artefact"]["program"].as_str().unwrap_or("");
        if let Some(p) = progs.iter().find(|p| p.name == want) {
            let len = req["artefact"]["schedule_len"].as_u64().unwrap_or(0) as usize;
            let mut choices = vec![0usize; len];
            if let Some(devs) = req["artefact"]["deviations"].as_array() {
                for d in devs {
                    let i = d[0].as_u64().unwrap_or(0) as usize;
                    if i < len {
                        choices[i] = d[1].as_u64().unwrap_or(0) as usize;
                    }
                }
            }
            let r = replay(p, &choices);
            crate::report::replay_done(match r.as_deref() {
                Some("none") | None => None,
                Some(c) => Some((c.to_string(), "see the recorded history in the replay file".to_string())),
            });
        }
    }
    let t0 = Instant::now();
    parking_lot::verif_rt::set_named_level(0);
    let shm = Arc::new(Shm::new(1 << 10, 16 << 20));
    // partition-major order: when the budget runs out (a loaded machine) every program has had some
    // of its partitions explored instead of the first programs all and the last ones none
    let nprogs = progs.len();
    let jobs: Vec<(usize, usize)> = (0..parts).flat_map(|i| (0..nprogs).map(move |p| (p, i))).collect();
    let (progs2, shm2, jobs2) = (progs.clone(), Arc::clone(&shm), jobs.clone());
    let deadline = Instant::now() + budget;
    let (capped, machinery) = pool(jobs.len(), workers(), &shm, Some(deadline), move |j| {
        let (p, i) = jobs2[j];
        if !job(&progs2[p], bound_for(&progs2[p], bound, t), (i, parts), &shm2, p, Some(deadline)) {
            shm2.add(C_USER + 500, 1);
        }
    });
    for m in machinery {
        rep.machinery.push(m);
    }
    let mut seen = std::collections::BTreeSet::new();
    let mut validated = 0;
    for (tag, data) in shm.records() {
        match tag {
            b'V' => {
                if let Ok(v) = serde_json::from_slice::<Value>(&data) {
                    let clause = v["clause"].as_str().unwrap_or("").to_string();
                    let prog = v["prog"].as_str().unwrap_or("").to_string();
                    let choices: Vec<usize> = v["choices"].as_array().map(|a| a.iter().map(|x| x.as_u64().unwrap_or(0) as usize).collect()).unwrap_or_default();
                    if seen.insert(format!("{}|{}", prog, clause)) {
                        let p = progs.iter().find(|p| p.name == prog).unwrap();
                        let a = replay(p, &choices);
                        let b = replay(p, &choices);
                        if a.as_deref() == Some(clause.as_str()) && b.as_deref() == Some(clause.as_str()) {
                            validated += 1;
                            rep.validated_findings += 1;
                        } else {
                            rep.machinery.push(format!("finding {} {} did not reproduce on replay: {:?} / {:?}", prog, clause, a, b));
                        }
                    }
                    let pre: Vec<String> = v["preempts"].as_array().map(|a| a.iter().map(|x| format!("preempt {}", x.as_str().unwrap_or(""))).collect()).unwrap_or_default();
                    let deviations: Vec<(usize, usize)> = choices.iter().enumerate().filter(|(_, &c)| c != 0).map(|(i, &c)| (i, c)).collect();
                    rep.findings.push(Finding {
                        clause,
                        detail: v["detail"].as_str().unwrap_or("").to_string(),
                        ops: std::iter::once(format!("program {}", prog)).chain(pre).collect(),
                        artefact: json!({"explorer": "c17", "program": prog, "schedule_len": choices.len(), "deviations": deviations}),
                    });
                }
            }
            b'M' => rep.machinery.push(String::from_utf8_lossy(&data).to_string()),
            _ => {}
        }
    }
    let incomplete = shm.get(C_USER + 500) > 0 || capped;
    rep.cov("states", json!(shm.get(C_NODES)));
    rep.cov("transitions", json!(shm.get(C_STEPS)));
    rep.cov("traces_validated_against_impl", json!(shm.get(C_EXECUTIONS)));
    rep.cov("exhaustive", json!(!incomplete));
    rep.cov("preemption_bound", json!(bound.0));
    rep.cov("deviation_bound", json!(bound.1));
    rep.cov("findings_revalidated_by_replay", json!(validated));
    for (i, p) in progs.iter().enumerate() {
        let mut d = p.describe();
        d["schedules_explored"] = json!(shm.get(C_USER + i));
        let b = bound_for(p, bound, t);
        d["preemption_bound"] = json!(b.0);
        d["deviation_bound"] = json!(b.1);
        rep.cov_push("thread_programs", d.clone());
        if i < 3 {
            rep.cov_push("samples", d);
        }
    }
    rep.cov("wall_explore_s", json!(t0.elapsed().as_secs_f64()));
    rep.cov("oracle", json!("at no moment two successfully opened handles are alive; while the main thread holds the database open every other open (also one with error_if_exists or without create_if_missing) and every destroy_database returns Err and the owner's later put/get succeed and its data is there after close + reopen; among racers that all keep their handle exactly one open succeeds; after everybody closed (attempts that failed included) the database can be opened again; every handle that is still open at the end (whatever destroy attempts ran meanwhile) accepts a write that is there after close + reopen; no panic, no hang"));
    rep.assume("real TmpFileSystem (flock through fs2) in a fresh temp directory per execution; every FileSystem trait call is a switch point (destroy_database has no lock operation of its own); try_lock_exclusive is non-blocking so the controlled scheduler owns the interleaving");
    rep.assume("all schedules within the stated preemption / deviation bound; threads of one process (flock is per open file description, so handles of one process exclude each other like processes do)");
    rep.finish()
}
