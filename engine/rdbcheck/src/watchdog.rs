//! Progress watchdog for worker processes.
//!
//! The explorers only regain control at scheduling points and filesystem calls. A defect that
//! makes the subject spin on the CPU without reaching one (an iterator that never advances, a
//! loop that does not terminate) would otherwise hang a check for ever. Every worker process arms
//! an interval timer; the handler looks at a heartbeat counter that is bumped at every scheduling
//! decision, every filesystem call of the harness filesystem and every enumerated case of the
//! component explorers. Four consecutive periods without a beat (40 to 50 s), or one execution longer than 60 s, end the process
//! with exit status 77, which the pool reports ("no progress").

use std::sync::atomic::{AtomicU64, Ordering};

static BEAT: AtomicU64 = AtomicU64::new(0);
static LAST_SEEN: AtomicU64 = AtomicU64::new(0);
static STALLS: AtomicU64 = AtomicU64::new(0);

pub const EXIT_NO_PROGRESS: i32 = 77;
const PERIOD_S: i64 = 10;
const MAX_STALLS: u64 = 4;

#[inline]
pub fn beat() {
    BEAT.fetch_add(1, Ordering::Relaxed);
}

static FS_CALLS: AtomicU64 = AtomicU64::new(0);
/// No execution (and no job of the component explorers) comes near this number of filesystem
/// calls; a subject that loops over reads (an iterator that never advances) reaches it within
/// seconds. The counter is reset at the start of every execution under the scheduler.
const MAX_FS_CALLS: u64 = 20_000_000;

static EXEC_START: AtomicU64 = AtomicU64::new(0);
/// Wall-clock bound for one execution under the scheduler / one enumerated case. Executions take
/// milliseconds to a few seconds; a subject that spins while still reaching scheduling points
/// (a loop around a lock) is stopped by this bound.
const MAX_EXEC_S: u64 = 60;

fn now_s() -> u64 {
    let mut ts = libc::timespec { tv_sec: 0, tv_nsec: 0 };
    unsafe { libc::clock_gettime(libc::CLOCK_MONOTONIC, &mut ts) };
    ts.tv_sec as u64
}

pub fn new_execution() {
    FS_CALLS.store(0, Ordering::Relaxed);
    EXEC_START.store(now_s(), Ordering::Relaxed);
}

/// One call of the harness filesystem: a beat, and a bound on the total per process.
#[inline]
pub fn fs_call() {
    beat();
    if FS_CALLS.fetch_add(1, Ordering::Relaxed) > MAX_FS_CALLS {
        unsafe { libc::_exit(EXIT_NO_PROGRESS) };
    }
}

extern "C" fn on_alarm(_sig: libc::c_int) {
    // async-signal-safe: atomics, clock_gettime and _exit only
    let started = EXEC_START.load(Ordering::Relaxed);
    if started != 0 && now_s().saturating_sub(started) > max_exec_s() {
        unsafe { libc::_exit(EXIT_NO_PROGRESS) };
    }
    let b = BEAT.load(Ordering::Relaxed);
    if b == LAST_SEEN.load(Ordering::Relaxed) {
        if STALLS.fetch_add(1, Ordering::Relaxed) + 1 >= MAX_STALLS {
            unsafe { libc::_exit(EXIT_NO_PROGRESS) };
        }
    } else {
        LAST_SEEN.store(b, Ordering::Relaxed);
        STALLS.store(0, Ordering::Relaxed);
    }
}

/// Arm the watchdog in the calling process (timers are not inherited across fork: every worker
/// process arms its own).
pub fn arm() {
    if std::env::var("RDBCHECK_NO_WATCHDOG").is_ok() {
        return;
    }
    LAST_SEEN.store(BEAT.load(Ordering::Relaxed), Ordering::Relaxed);
    STALLS.store(0, Ordering::Relaxed);
    if let Some(v) = std::env::var("RDBCHECK_MAX_EXEC_S").ok().and_then(|s| s.parse::<u64>().ok()) {
        MAX_EXEC_OVERRIDE.store(v, Ordering::Relaxed);
    }
    new_execution();
    unsafe {
        libc::signal(libc::SIGALRM, on_alarm as usize);
        let it = libc::itimerval {
            it_interval: libc::timeval { tv_sec: period(), tv_usec: 0 },
            it_value: libc::timeval { tv_sec: period(), tv_usec: 0 },
        };
        libc::setitimer(libc::ITIMER_REAL, &it, std::ptr::null_mut());
    }
}

static MAX_EXEC_OVERRIDE: AtomicU64 = AtomicU64::new(0);

fn max_exec_s() -> u64 {
    match MAX_EXEC_OVERRIDE.load(Ordering::Relaxed) {
        0 => MAX_EXEC_S,
        v => v,
    }
}

fn period() -> i64 {
    std::env::var("RDBCHECK_WATCHDOG_PERIOD_S").ok().and_then(|s| s.parse().ok()).unwrap_or(PERIOD_S)
}

/// Stop the timer (a process that only waits for its children makes no progress of its own).
pub fn pause() {
    unsafe {
        let it = libc::itimerval {
            it_interval: libc::timeval { tv_sec: 0, tv_usec: 0 },
            it_value: libc::timeval { tv_sec: 0, tv_usec: 0 },
        };
        libc::setitimer(libc::ITIMER_REAL, &it, std::ptr::null_mut());
    }
}

pub fn describe_exit(status: libc::c_int) -> Option<String> {
    if libc::WIFEXITED(status) && libc::WEXITSTATUS(status) == EXIT_NO_PROGRESS {
        Some(format!(
            "no progress: the process reached no scheduling point, filesystem call or enumerated case for {} s, or one execution made more than 2*10^7 filesystem calls or ran longer than 60 s (the subject spins?)",
            period() as u64 * MAX_STALLS
        ))
    } else {
        None
    }
}
