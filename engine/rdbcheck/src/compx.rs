//! `compx`: exhaustive enumeration of component inputs up to a bound, against boring reference
//! models: log files (C12), table files (C13), filters (C14). Driven through the
//! `cfg(raindb_verif)` wrappers over RainDB's crate-private types.

use std::collections::BTreeSet;
use std::path::{Path, PathBuf};
use std::sync::Arc;

use serde_json::{json, Value};

use raindb::fs::FileSystem;
use raindb::verif::{VerifLogReader, VerifLogWriter};

use crate::shm::*;
use crate::vfs::{Image, VerifFs};

pub const B: usize = 32768;
pub const H: usize = 7;

pub fn payload(rec_idx: usize, len: usize) -> Vec<u8> {
    // position dependent: a glued, shifted or truncated record can never equal an appended one
    (0..len).map(|j| ((rec_idx * 131 + j * 7 + (j >> 8) * 13 + 1) & 0xff) as u8).collect()
}

/// Reference model of the physical layout: fragment end offsets of each record.
pub fn layout(lens: &[usize]) -> (Vec<Vec<usize>>, usize) {
    let mut pos = 0usize;
    let mut out = vec![];
    for &l in lens {
        let mut rem = l;
        let mut frags = vec![];
        loop {
            let avail = B - pos % B;
            if avail < H {
                pos += avail;
            }
            let space = B - pos % B - H;
            let chunk = rem.min(space);
            pos += H + chunk;
            frags.push(pos);
            rem -= chunk;
            if rem == 0 {
                break;
            }
        }
        out.push(frags);
    }
    (out, pos)
}

fn log_path() -> PathBuf {
    PathBuf::from("/log/test.log")
}

fn new_fs() -> VerifFs {
    let fs = VerifFs::new();
    let _ = fs.create_dir_all(Path::new("/log"));
    fs
}

fn arc_fs(fs: &VerifFs) -> Arc<dyn FileSystem> {
    Arc::new(fs.clone()) as Arc<dyn FileSystem>
}

/// Write the records; `reopen_before[i]` = close the writer and open a new one in append mode
/// before record i (i >= 1).
pub fn write_log(fs: &VerifFs, lens: &[usize], reopen_before: &[bool], first_idx: usize, append_to_existing: bool) -> Result<(), String> {
    let mut w = VerifLogWriter::new(arc_fs(fs), &log_path(), append_to_existing)?;
    for (i, &l) in lens.iter().enumerate() {
        if i > 0 && reopen_before[i] {
            drop(w);
            w = VerifLogWriter::new(arc_fs(fs), &log_path(), true)?;
        }
        w.append(&payload(first_idx + i, l))?;
    }
    Ok(())
}

pub fn read_all(fs: &VerifFs, max: usize) -> Result<Vec<Vec<u8>>, String> {
    let mut r = VerifLogReader::new(arc_fs(fs), &log_path())?;
    let mut out = vec![];
    loop {
        match r.read_record()? {
            None => return Ok(out),
            Some(rec) => {
                out.push(rec);
                if out.len() > max {
                    return Err(format!("reader returned more than {} records", max));
                }
            }
        }
    }
}

fn short(recs: &[Vec<u8>]) -> String {
    format!(
        "[{}]",
        recs.iter()
            .map(|r| format!("{}B:{:02x?}", r.len(), &r[..r.len().min(4)]))
            .collect::<Vec<_>>()
            .join(", ")
    )
}

#[derive(Clone, Debug)]
pub struct LogCase {
    pub lens: Vec<usize>,
    /// bitmask: bit i set = reopen the writer before record i
    pub split: u32,
    pub truncations: bool,
    pub stop_between_fragments: bool,
}

pub fn found(shm: &Shm, clause: &str, detail: &str, case: Value) {
    shm.add(C_VIOLATIONS, 1);
    let v = json!({"clause": clause, "detail": detail, "case": case});
    shm.push_record(b'V', v.to_string().as_bytes());
}

fn truncation_points(frags: &[Vec<usize>], file_len: usize) -> Vec<usize> {
    let mut pts: BTreeSet<usize> = BTreeSet::new();
    if file_len < 1024 {
        for t in 0..file_len {
            pts.insert(t);
        }
        return pts.into_iter().collect();
    }
    let mut add_around = |c: usize| {
        for d in 0..=16usize {
            if c >= d {
                pts.insert(c - d);
            }
            if c + d < file_len {
                pts.insert(c + d);
            }
        }
    };
    add_around(0);
    let mut prev = 0usize;
    for rec in frags {
        for &e in rec {
            add_around(e); // fragment end = next header start
            add_around(prev + H); // end of the header of this fragment (approximately, if no trailer skip)
            prev = e;
        }
    }
    let mut b = B;
    while b < file_len {
        add_around(b);
        b += B;
    }
    let mut t = 997;
    while t < file_len {
        pts.insert(t);
        t += 997;
    }
    pts.into_iter().filter(|&t| t < file_len).collect()
}

pub fn log_case(c: &LogCase, shm: &Shm) {
    let desc = || json!({"record_lengths": c.lens, "writer_reopened_before_record_mask": c.split, "kind": "roundtrip"});
    let n = c.lens.len();
    let reopen: Vec<bool> = (0..n).map(|i| i > 0 && (c.split >> i) & 1 == 1).collect();
    let fs = new_fs();
    if let Err(e) = write_log(&fs, &c.lens, &reopen, 0, false) {
        found(shm, "C12.write_err", &format!("append failed: {}", e), desc());
        return;
    }
    let want: Vec<Vec<u8>> = (0..n).map(|i| payload(i, c.lens[i])).collect();
    let (frags, model_len) = layout(&c.lens);
    let img = fs.image();
    let data = img.get(&log_path()).cloned().unwrap_or_default();
    shm.add(C_CASES, 1);
    let plain_len: usize = c.lens.iter().map(|l| H + l).sum();
    let nontrivial = frags.iter().any(|f| f.len() > 1) || model_len != plain_len || c.split != 0;
    if nontrivial {
        shm.add(C_NONTRIVIAL, 1);
    }
    if data.len() != model_len {
        found(
            shm,
            "C12.layout",
            &format!("file length {} differs from the format's reference layout {}", data.len(), model_len),
            desc(),
        );
        return;
    }
    match read_all(&fs, n + 4) {
        Ok(got) => {
            if got != want {
                found(shm, "C12.roundtrip", &format!("read back {} but appended {}", short(&got), short(&want)), desc());
                return;
            }
        }
        Err(e) => {
            found(shm, "C12.roundtrip", &format!("reading back failed: {}", e), desc());
            return;
        }
    }
    if c.truncations {
        let ends: Vec<usize> = frags.iter().map(|f| *f.last().unwrap()).collect();
        for t in truncation_points(&frags, data.len()) {
            let mut im = Image::new();
            im.insert(log_path(), data[..t].to_vec());
            let dirs: BTreeSet<PathBuf> = [PathBuf::from("/log"), PathBuf::from("/")].into_iter().collect();
            let tfs = VerifFs::from_image(&im, &dirs);
            shm.add(C_CASES, 1);
            shm.add(C_USER, 1);
            if nontrivial {
                shm.add(C_NONTRIVIAL, 1);
            }
            let k = ends.iter().filter(|&&e| e <= t).count();
            let d = || json!({"record_lengths": c.lens, "writer_reopened_before_record_mask": c.split, "kind": "truncation", "truncated_to": t, "file_len": data.len()});
            match read_all(&tfs, n + 4) {
                Ok(got) => {
                    if got != want[..k] {
                        found(
                            shm,
                            "C12.truncation",
                            &format!("file cut at {} of {}: read {} but the complete records in the prefix are {}", t, data.len(), short(&got), short(&want[..k])),
                            d(),
                        );
                        return;
                    }
                }
                Err(e) => {
                    found(shm, "C12.truncation", &format!("file cut at {} of {}: reader failed: {}", t, data.len(), e), d());
                    return;
                }
            }
        }
    }
    if c.stop_between_fragments {
        // a writer that died between two fragments of record i, then a new writer appends two
        // records: the reader returns the complete earlier records and the later two only
        for (i, rec) in frags.iter().enumerate() {
            if rec.len() < 2 {
                continue;
            }
            for &cut in &rec[..rec.len() - 1] {
              // the appended records are small (Full fragments) or start with a record that is
              // itself fragmented (a First fragment right after the orphaned fragments)
              for later in [[5usize, 40], [70_000, 5]] {
                let mut im = Image::new();
                im.insert(log_path(), data[..cut].to_vec());
                let dirs: BTreeSet<PathBuf> = [PathBuf::from("/log"), PathBuf::from("/")].into_iter().collect();
                let tfs = VerifFs::from_image(&im, &dirs);
                shm.add(C_CASES, 1);
                shm.add(C_NONTRIVIAL, 1);
                shm.add(C_USER + 1, 1);
                let d = || json!({"record_lengths": c.lens, "kind": "writer_stopped_between_fragments", "record": i, "file_cut_at_fragment_end": cut, "then_appended_lengths": later});
                if let Err(e) = write_log(&tfs, &later, &[false, false], 100, true) {
                    found(shm, "C12.write_err", &format!("append after the cut failed: {}", e), d());
                    return;
                }
                let mut expect: Vec<Vec<u8>> = want[..i].to_vec();
                expect.push(payload(100, later[0]));
                expect.push(payload(101, later[1]));
                match read_all(&tfs, n + 6) {
                    Ok(got) => {
                        if got != expect {
                            found(
                                shm,
                                "C12.append_after_partial",
                                &format!(
                                    "writer stopped after fragment ending at {} of record {}, two records appended: read {} but expected {}",
                                    cut,
                                    i,
                                    short(&got),
                                    short(&expect)
                                ),
                                d(),
                            );
                            return;
                        }
                    }
                    Err(e) => {
                        found(shm, "C12.append_after_partial", &format!("reader failed: {}", e), d());
                        return;
                    }
                }
              }
            }
        }
    }
}

/// Log writer under a failing filesystem: for every index of a write / flush call made while the
/// records are appended (once and sticky), the records whose `append` returned Ok before the
/// first failing `append` must all be read back, in order, and nothing that was not appended may
/// be returned. In particular, if no `append` reports the injected failure, every record must be
/// there (a swallowed failure of the block-trailer padding write loses the framing of everything
/// behind it).
pub fn log_fault_case(lens: &[usize], shm: &Shm, clause: &str) {
    use crate::vfs::{class, Fault};
    let n = lens.len();
    let want: Vec<Vec<u8>> = (0..n).map(|i| payload(i, lens[i])).collect();
    for sticky in [false, true] {
        let mut at = 0u64;
        loop {
            let fs = new_fs();
            {
                let mut st = fs.state();
                st.fault = Some(Fault {
                    at_call: at,
                    sticky,
                    classes: class::WRITE | class::FLUSH,
                    fired: false,
                    partial: 0,
                });
                st.calls = 0;
            }
            let mut results: Vec<bool> = vec![];
            match VerifLogWriter::new(arc_fs(&fs), &log_path(), false) {
                Ok(mut w) => {
                    for (i, &l) in lens.iter().enumerate() {
                        results.push(w.append(&payload(i, l)).is_ok());
                    }
                }
                Err(_) => {}
            }
            let fired = fs.state().faults_fired > 0;
            if !fired {
                break;
            }
            fs.state().fault = None;
            shm.add(C_CASES, 1);
            shm.add(C_NONTRIVIAL, 1);
            shm.add(C_USER + 5, 1);
            let d = || json!({"kind": "append_under_fault", "record_lengths": lens, "failing_call_index": at, "sticky": sticky, "append_results_ok": results});
            let acked = results.iter().take_while(|ok| **ok).count();
            match read_all(&fs, n + 2) {
                Ok(got) => {
                    let prefix_ok = got.len() >= acked && got[..acked] == want[..acked];
                    // what follows the acknowledged prefix: appended records only, in order
                    let mut j = acked;
                    let mut rest_ok = true;
                    for g in got.iter().skip(acked) {
                        match (j..n).find(|k| want[*k] == *g) {
                            Some(k) => j = k + 1,
                            None => rest_ok = false,
                        }
                    }
                    if !prefix_ok || !rest_ok {
                        found(
                            shm,
                            clause,
                            &format!(
                                "call {} of the appends fails ({}): append results {:?}, the {} records acknowledged before the first failure must be read back but the reader returns {}",
                                at,
                                if sticky { "sticky" } else { "once" },
                                results,
                                acked,
                                short(&got)
                            ),
                            d(),
                        );
                        return;
                    }
                }
                Err(e) => {
                    found(shm, clause, &format!("call {} fails: reading the log back fails: {}", at, e), d());
                    return;
                }
            }
            at += 1;
            if at > 10_000 {
                break;
            }
        }
    }
}

pub fn log_fault_cases() -> Vec<Vec<usize>> {
    let mut v = vec![];
    for r in 0..=8usize {
        v.push(vec![B - H - r, 5, 5, 40_000, 3]);
    }
    v.push(vec![5, 5, 5]);
    v.push(vec![70_000, 5]);
    v
}

/// Damage one payload byte of every fragment of every multi-fragment record (one at a time):
/// whatever the reader returns must be a subsequence of the appended records, in order, and must
/// not contain the damaged record — never a record that was not appended.
pub fn log_corruption_case(c: &LogCase, shm: &Shm, clause: &str) {
    let n = c.lens.len();
    let fs = new_fs();
    if write_log(&fs, &c.lens, &vec![false; n], 0, false).is_err() {
        return;
    }
    let want: Vec<Vec<u8>> = (0..n).map(|i| payload(i, c.lens[i])).collect();
    let (frags, _) = layout(&c.lens);
    let img = fs.image();
    let data = img.get(&log_path()).cloned().unwrap_or_default();
    for (ri, rec) in frags.iter().enumerate() {
        if rec.len() < 2 {
            continue;
        }
        let mut start = if ri == 0 { 0 } else { *frags[ri - 1].last().unwrap() };
        for (fi, &end) in rec.iter().enumerate() {
            // the fragment occupies [start', end) where start' skips a possible trailer: its
            // payload ends at `end`; damage the last payload byte and one in the middle
            let frag_start = {
                let left = B - start % B;
                if left < H {
                    start + left
                } else {
                    start
                }
            };
            let payload_start = frag_start + H;
            if end > payload_start {
                for off in [payload_start, payload_start + (end - payload_start) / 2, end - 1] {
                    let mut d2 = data.clone();
                    d2[off] ^= 0x40;
                    let mut im = Image::new();
                    im.insert(log_path(), d2);
                    let dirs: BTreeSet<PathBuf> = [PathBuf::from("/log"), PathBuf::from("/")].into_iter().collect();
                    let tfs = VerifFs::from_image(&im, &dirs);
                    shm.add(C_CASES, 1);
                    shm.add(C_NONTRIVIAL, 1);
                    shm.add(C_USER + 4, 1);
                    let d = || json!({"record_lengths": c.lens, "kind": "corrupted_fragment", "record": ri, "fragment": fi, "byte": off});
                    match read_all(&tfs, n + 4) {
                        Ok(got) => {
                            // subsequence of `want` without record ri
                            let mut wi = 0usize;
                            let mut ok = true;
                            for g in got.iter() {
                                while wi < n && (&want[wi] != g || wi == ri) {
                                    wi += 1;
                                }
                                if wi == n {
                                    ok = false;
                                    break;
                                }
                                wi += 1;
                            }
                            if !ok {
                                found(
                                    shm,
                                    clause,
                                    &format!("fragment {} of record {} damaged at byte {}: the reader returned {} but appended were {} (a returned record was never appended, or the damaged one was delivered)", fi, ri, off, short(&got), short(&want)),
                                    d(),
                                );
                                return;
                            }
                        }
                        Err(_) => {} // an error is an acceptable answer to corruption
                    }
                }
            }
            start = end;
        }
    }
}

pub fn log_corruption_cases() -> Vec<LogCase> {
    let mut v = vec![];
    for lens in [
        vec![10usize, 40_000, 9],
        vec![B - H - 3, 70_000, 20],
        vec![5, 2 * (B - H), 7],
        vec![40_000, 40_000],
        vec![100, 3 * B + 11, 0, 50],
    ] {
        v.push(LogCase { lens, split: 0, truncations: false, stop_between_fragments: false });
    }
    v
}

pub fn log_cases(thorough: bool) -> Vec<LogCase> {
    let mut l2s: Vec<usize> = vec![];
    if thorough {
        l2s.extend(0..=32);
        l2s.extend((B - H - 16)..=(B - H + 16));
        l2s.extend((2 * (B - H) - 16)..=(2 * (B - H) + 16));
        l2s.push(3 * B);
        l2s.push(3 * (B - H));
    } else {
        l2s.extend(0..=16);
        l2s.extend((B - H - 8)..=(B - H + 8));
        l2s.extend((2 * (B - H) - 8)..=(2 * (B - H) + 8));
        l2s.push(3 * B);
    }
    let l3s: Vec<usize> = if thorough { vec![0, 1, 7, 100, B - H, B + 1] } else { vec![0, 1, 100] };
    let mut v = vec![];
    for r in 0..=(if thorough { 32usize } else { 16 }) {
        let l1 = B - H - r;
        for &l2 in l2s.iter() {
            for &l3 in l3s.iter() {
                for split in [0u32, 2, 4, 6] {
                    v.push(LogCase {
                        lens: vec![l1, l2, l3],
                        split,
                        truncations: split == 0 && (thorough || l3 == 1),
                        stop_between_fragments: split == 0,
                    });
                }
            }
        }
    }
    // small files: every truncation byte
    for a in [0usize, 1, 5, 100] {
        for b in [0usize, 3, 200] {
            for split in [0u32, 2] {
                v.push(LogCase {
                    lens: vec![a, b, 7],
                    split,
                    truncations: true,
                    stop_between_fragments: false,
                });
            }
        }
    }
    // long logs: n blocks that each end in a t-byte trailer (t = 1..6: too short for a header),
    // then a tiny last record. Whatever a reader keeps about its position across trailers has n
    // chances to drift; the last record is smaller than any plausible drift
    for n in [3usize, 4, 6, 9] {
        for t in 1..=6usize {
            for tail in [0usize, 1, 3, 30] {
                let mut lens = vec![B - H - t; n];
                lens.push(tail);
                v.push(LogCase {
                    lens,
                    split: if t % 2 == 0 { 0 } else { 4 },
                    truncations: false,
                    stop_between_fragments: false,
                });
            }
        }
    }
    // a record starting at offset 0 that spans blocks (first fragment fills a whole block)
    for l in [B - H + 1, 40_000, 2 * B, 3 * B + 5] {
        v.push(LogCase {
            lens: vec![l, 9],
            split: 0,
            truncations: true,
            stop_between_fragments: true,
        });
        v.push(LogCase {
            lens: vec![12, l, 9],
            split: 0,
            truncations: thorough,
            stop_between_fragments: true,
        });
    }
    v
}

pub fn parse_found(shm: &Shm) -> Vec<(String, String, Value)> {
    let mut out = vec![];
    for (tag, data) in shm.records() {
        if tag == b'V' {
            if let Ok(v) = serde_json::from_slice::<Value>(&data) {
                out.push((
                    v["clause"].as_str().unwrap_or("").to_string(),
                    v["detail"].as_str().unwrap_or("").to_string(),
                    v["case"].clone(),
                ));
            }
        }
    }
    out
}

// ------------------------------------------------------------------------------------------------
// C13: table files give back exactly what was put in
// ------------------------------------------------------------------------------------------------

use raindb::verif::{table_build, table_open, VerifEntry, VerifGet};
use raindb::DbOptions;

pub fn table_keys() -> Vec<Vec<u8>> {
    vec![vec![], vec![0x00], b"a".to_vec(), vec![b'a', 0x00], b"ab".to_vec(), b"b".to_vec(), vec![0xff], vec![0xff, 0xff]]
}

/// extra probe keys: separators / neighbours of the stored keys
pub fn probe_keys() -> Vec<Vec<u8>> {
    let mut v = table_keys();
    v.extend([vec![0x00, 0x00], vec![b'a', 0x00, 0x00], b"aa".to_vec(), b"abc".to_vec(), b"ac".to_vec(), b"c".to_vec(), vec![0xfe], vec![0xff, 0x00], vec![0xff, 0xff, 0xff]]);
    v.sort();
    v.dedup();
    v
}

/// version patterns per key: newest first; true = put
pub const PATTERNS: &[&[bool]] = &[&[true], &[false], &[true, true], &[false, true], &[true, false, true]];

pub const VALUE_SIZES: &[usize] = &[0, 1, 100, 5000];

#[derive(Clone, Debug)]
pub struct TableCase {
    pub keys: Vec<usize>,
    pub patterns: Vec<usize>,
    pub block_size: usize,
    pub variant: usize,
    pub big_values: bool,
    /// if set, the first put's value is this many incompressible bytes (sweeps the offset of the
    /// following blocks over every residue of the 2 KiB filter ranges)
    pub sweep_len: Option<usize>,
    /// if set: a long run of this many user keys with shared prefixes (several restart points per
    /// block; the restart interval is 16), every 5th key with two versions
    pub long_run: Option<usize>,
    /// if set: (key length, value length) at the boundaries of the variable-length integer coding
    /// (127/128, 16383/16384): three keys of that length sharing all but the last byte between a
    /// short first and a short last key; the middle one has two versions, its newest value has the
    /// given length
    pub wide: Option<(usize, usize)>,
}

/// keys of a long run: shared prefixes of varying length, sorted, unique
pub fn long_run_keys(n: usize) -> Vec<Vec<u8>> {
    let mut v: Vec<Vec<u8>> = (0..n)
        .map(|i| {
            let mut k = b"key".to_vec();
            k.extend_from_slice(format!("{:03}", i / 3).as_bytes());
            match i % 3 {
                0 => {}
                1 => k.push(b'a'),
                _ => k.extend_from_slice(b"a\xff".as_ref()),
            }
            k
        })
        .collect();
    v.sort();
    v.dedup();
    v
}

pub fn table_entries(c: &TableCase) -> Vec<VerifEntry> {
    if let Some(n) = c.long_run {
        let keys = long_run_keys(n);
        let total = keys.len() + keys.len() / 5 + 1;
        let mut seq = total as u64 + 1;
        let mut out = vec![];
        for (i, k) in keys.iter().enumerate() {
            let versions = if i % 5 == 0 { 2 } else { 1 };
            for v in 0..versions {
                seq -= 1;
                let is_put = !(i % 7 == 3 && v == 0);
                let size = VALUE_SIZES[(i + v + c.variant) % 3];
                let val: Vec<u8> = if is_put { (0..size).map(|j| ((i * 37 + j * 11 + 5) & 0xff) as u8).collect() } else { vec![] };
                out.push((k.clone(), seq, is_put, val));
            }
        }
        return out;
    }
    if let Some((kl, vl)) = c.wide {
        let long = |last: u8| {
            let mut k = vec![b'k'; kl.saturating_sub(1)];
            k.push(last);
            k
        };
        let val = |n: usize, salt: usize| -> Vec<u8> { (0..n).map(|j| ((salt * 37 + j * 11 + 5) & 0xff) as u8).collect() };
        return vec![
            (b"a".to_vec(), 6, true, val(100, 1)),
            (long(b'a'), 5, true, val(1, 2)),
            (long(b'b'), 4, true, val(vl, 3)),
            (long(b'b'), 3, true, val(100, 4)),
            (long(b'c'), 2, c.variant == 0, if c.variant == 0 { val(0, 5) } else { vec![] }),
            (b"z".to_vec(), 1, true, val(vl, 6)),
        ];
    }
    let ks = table_keys();
    let total: usize = c.patterns.iter().map(|&p| PATTERNS[p].len()).sum();
    let mut seq = total as u64 + 1;
    let mut out = vec![];
    let mut idx = 0usize;
    let mut swept = false;
    // keys ascending; within a key sequence numbers descending
    let mut pairs: Vec<(usize, usize)> = c.keys.iter().copied().zip(c.patterns.iter().copied()).collect();
    pairs.sort_by(|a, b| ks[a.0].cmp(&ks[b.0]));
    // sequence numbers: assign so that they are unique and descending within a key
    for (k, p) in pairs {
        for &is_put in PATTERNS[p] {
            seq -= 1;
            let size = if c.big_values { 3000 } else { VALUE_SIZES[(idx + c.variant) % VALUE_SIZES.len()] };
            let mut val: Vec<u8> = if is_put { (0..size).map(|j| ((idx * 37 + j * 11 + 5) & 0xff) as u8).collect() } else { vec![] };
            if let (Some(l), true, true) = (c.sweep_len, is_put, !swept) {
                swept = true;
                let mut x: u64 = 0x2545F4914F6CDD1D ^ (l as u64);
                val = (0..l)
                    .map(|_| {
                        x ^= x << 13;
                        x ^= x >> 7;
                        x ^= x << 17;
                        (x >> 32) as u8
                    })
                    .collect();
            }
            out.push((ks[k].clone(), seq, is_put, val));
            idx += 1;
        }
    }
    out
}

fn ikey_less(a: (&[u8], u64), b: (&[u8], u64)) -> bool {
    a.0 < b.0 || (a.0 == b.0 && a.1 > b.1)
}

fn table_options(fs: &VerifFs, block_size: usize) -> DbOptions {
    DbOptions {
        db_path: "/t".to_string(),
        max_memtable_size: 4 << 20,
        max_file_size: 2 << 20,
        max_block_size: block_size,
        filesystem_provider: arc_fs(fs),
        filter_policy: Arc::new(raindb::BloomFilterPolicy::new(10)),
        block_cache: raindb::verif::block_cache(64),
        create_if_missing: true,
        error_if_exists: false,
        reuse_log_files: true,
    }
}

fn show_entry(e: &VerifEntry) -> String {
    format!("{}@{}{}({}B)", crate::world::esc(&e.0), e.1, if e.2 { "" } else { "del" }, e.3.len())
}

pub fn table_case_json(c: &TableCase) -> Value {
    json!({
        "entries": table_entries(c).iter().map(show_entry).collect::<Vec<_>>(),
        "max_block_size": c.block_size,
        "keys": c.keys, "patterns": c.patterns, "variant": c.variant, "big_values": c.big_values, "sweep_len": c.sweep_len, "long_run": c.long_run, "wide": c.wide.map(|(a, b)| vec![a, b]),
    })
}

/// model cursor over the entry vector
fn model_seek(entries: &[VerifEntry], key: &[u8], seq: u64) -> Option<usize> {
    entries.iter().position(|e| !ikey_less((&e.0, e.1), (key, seq)))
}

pub fn table_case(c: &TableCase, shm: &Shm, check_filters: bool, cursor_len: usize) {
    let entries = table_entries(c);
    let fs = VerifFs::new();
    let _ = fs.create_dir_all(Path::new("/t/data"));
    let opts = table_options(&fs, c.block_size);
    shm.add(C_CASES, 1);
    let fail = |clause: &str, detail: String| found(shm, clause, &detail, table_case_json(c));
    if let Err(e) = table_build(opts.clone(), 7, &entries) {
        fail("C13.build_err", format!("building the table failed: {}", e));
        return;
    }
    let t = match table_open(opts.clone(), 7) {
        Ok(t) => t,
        Err(e) => {
            fail("C13.open_err", format!("opening the table failed: {}", e));
            return;
        }
    };
    // blocks: every entry is in exactly one block, in order
    let blocks = match t.blocks() {
        Ok(b) => b,
        Err(e) => {
            fail("C13.blocks_err", format!("reading the blocks failed: {}", e));
            return;
        }
    };
    let flat: Vec<VerifEntry> = blocks.iter().flat_map(|b| b.2.iter().cloned()).collect();
    if flat != entries {
        fail("C13.blocks_content", format!("blocks hold {:?} but the table was built from {:?}", flat.iter().map(show_entry).collect::<Vec<_>>(), entries.iter().map(show_entry).collect::<Vec<_>>()));
        return;
    }
    if blocks.len() > 1 || entries.len() > 3 {
        shm.add(C_NONTRIVIAL, 1);
    }
    shm.max(C_MAX_FILE_ENTRIES, blocks.len() as u64);
    if check_filters {
        // C14 (ii): the filter consulted with a block's offset matches every user key in it
        for (off, _size, es) in blocks.iter() {
            for e in es {
                shm.add(C_USER + 2, 1);
                if t.filter_may_match(*off, &e.0) == Some(false) {
                    found(
                        shm,
                        "C14.block_filter",
                        &format!("the filter for the block at offset {} answers 'no match' for user key {} stored in that block", off, crate::world::esc(&e.0)),
                        table_case_json(c),
                    );
                    return;
                }
                // and the lookup finds every stored (key, seq)
                match t.get(&e.0, e.1) {
                    VerifGet::Value(v) if e.2 && v == e.3 => {}
                    VerifGet::Deleted if !e.2 => {}
                    o => {
                        found(
                            shm,
                            "C14.lookup_cut_short",
                            &format!("get({}, {}) on the table that stores it answers {:?}", crate::world::esc(&e.0), e.1, match o { VerifGet::Value(v) => format!("Value({}B)", v.len()), x => format!("{:?}", x) }),
                            table_case_json(c),
                        );
                        return;
                    }
                }
            }
        }
    }
    // forward / backward iteration
    let mut it = t.iter();
    let mut fwd = vec![];
    if let Err(e) = it.seek_to_first() {
        fail("C13.iter_err", format!("seek_to_first failed: {}", e));
        return;
    }
    while it.is_valid() {
        match it.current() {
            Some(e) => fwd.push(e),
            None => break,
        }
        if fwd.len() > entries.len() + 2 {
            break;
        }
        it.next();
    }
    if fwd != entries {
        fail("C13.forward", format!("forward iteration yields {:?} but the table holds {:?}", fwd.iter().map(show_entry).collect::<Vec<_>>(), entries.iter().map(show_entry).collect::<Vec<_>>()));
        return;
    }
    let mut bwd = vec![];
    if let Err(e) = it.seek_to_last() {
        fail("C13.iter_err", format!("seek_to_last failed: {}", e));
        return;
    }
    while it.is_valid() {
        match it.current() {
            Some(e) => bwd.push(e),
            None => break,
        }
        if bwd.len() > entries.len() + 2 {
            break;
        }
        it.prev();
    }
    bwd.reverse();
    if bwd != entries {
        fail("C13.backward", format!("backward iteration yields {:?} but the table holds {:?}", bwd.iter().map(show_entry).collect::<Vec<_>>(), entries.iter().map(show_entry).collect::<Vec<_>>()));
        return;
    }
    // probes
    let seqs: Vec<u64> = (0..=(entries.len() as u64 + 2)).chain(std::iter::once((1u64 << 56) - 1)).collect();
    let probes: Vec<Vec<u8>> = if c.long_run.is_some() || c.wide.is_some() {
        let mut p: Vec<Vec<u8>> = vec![vec![], b"key".to_vec(), b"kez".to_vec()];
        for e in entries.iter() {
            p.push(e.0.clone());
            let mut g = e.0.clone();
            g.push(0x00);
            p.push(g);
        }
        p.sort();
        p.dedup();
        p
    } else {
        probe_keys()
    };
    let seqs: Vec<u64> = if c.long_run.is_some() || c.wide.is_some() { vec![0, 1, entries.len() as u64 / 2, entries.len() as u64 + 2, (1u64 << 56) - 1] } else { seqs };
    for k in probes {
        for &s in seqs.iter() {
            shm.add(C_USER, 1);
            // seek
            let want = model_seek(&entries, &k, s);
            if let Err(e) = it.seek(&k, s) {
                fail("C13.iter_err", format!("seek({}, {}) failed: {}", crate::world::esc(&k), s, e));
                return;
            }
            let got = if it.is_valid() { it.current() } else { None };
            if got.as_ref() != want.map(|i| &entries[i]) {
                fail(
                    "C13.seek",
                    format!("seek({}@{}) lands on {:?} but the first entry not less than the target is {:?}", crate::world::esc(&k), s, got.as_ref().map(show_entry), want.map(|i| show_entry(&entries[i]))),
                );
                return;
            }
            // get
            let newest = entries.iter().find(|e| e.0 == k && e.1 <= s);
            let want_get = match newest {
                Some(e) if e.2 => VerifGet::Value(e.3.clone()),
                Some(_) => VerifGet::Deleted,
                None => VerifGet::NotInFile,
            };
            let got_get = t.get(&k, s);
            if got_get != want_get {
                let sh = |g: &VerifGet| match g {
                    VerifGet::Value(v) => format!("Value({}B)", v.len()),
                    o => format!("{:?}", o),
                };
                fail("C13.get", format!("get({}, seq<={}) = {} but the table says {}", crate::world::esc(&k), s, sh(&got_get), sh(&want_get)));
                return;
            }
        }
    }
    // cursor programs of length <= cursor_len from every start position
    // ops: 0 first, 1 last, 2 next, 3 prev, 4.. seek to entry i / just past entry i
    let n = entries.len();
    let n_ops = 4 + n;
    let cursor_len = if c.long_run.is_some() { cursor_len.min(2) } else { cursor_len };
    let mut prog = vec![0usize; cursor_len];
    let total = n_ops.pow(cursor_len as u32);
    for code in 0..total {
        let mut x = code;
        for p in prog.iter_mut() {
            *p = x % n_ops;
            x /= n_ops;
        }
        let mut cur: Option<usize> = None;
        let mut it = t.iter();
        let mut trace = vec![];
        for &op in prog.iter() {
            match op {
                0 => {
                    let _ = it.seek_to_first();
                    cur = if n > 0 { Some(0) } else { None };
                    trace.push("first".to_string());
                }
                1 => {
                    let _ = it.seek_to_last();
                    cur = if n > 0 { Some(n - 1) } else { None };
                    trace.push("last".to_string());
                }
                2 => {
                    if cur.is_none() {
                        continue;
                    }
                    it.next();
                    cur = cur.and_then(|i| if i + 1 < n { Some(i + 1) } else { None });
                    trace.push("next".to_string());
                }
                3 => {
                    if cur.is_none() {
                        continue;
                    }
                    it.prev();
                    cur = cur.and_then(|i| if i > 0 { Some(i - 1) } else { None });
                    trace.push("prev".to_string());
                }
                j => {
                    let e = &entries[j - 4];
                    let _ = it.seek(&e.0, e.1);
                    cur = Some(j - 4);
                    trace.push(format!("seek({})", show_entry(e)));
                }
            }
            shm.add(C_USER + 1, 1);
            let got = if it.is_valid() { it.current() } else { None };
            if got.as_ref() != cur.map(|i| &entries[i]) {
                fail("C13.cursor", format!("after [{}] the cursor is at {:?} but should be at {:?}", trace.join(", "), got.as_ref().map(show_entry), cur.map(|i| show_entry(&entries[i]))));
                return;
            }
        }
    }
}

/// Table builder under a failing filesystem: for every index of a create / write / flush call
/// made while the table is built (once), either `table_build` reports the failure, or the table
/// it claims to have written reads back completely.
pub fn table_fault_case(c: &TableCase, shm: &Shm, clause: &str) {
    use crate::vfs::{class, Fault};
    let entries = table_entries(c);
    let mut at = 0u64;
    loop {
        let fs = VerifFs::new();
        let _ = fs.create_dir_all(Path::new("/t/data"));
        let opts = table_options(&fs, c.block_size);
        {
            let mut st = fs.state();
            st.fault = Some(Fault {
                at_call: at,
                sticky: false,
                classes: class::CREATE | class::WRITE | class::FLUSH,
                fired: false,
                partial: 0,
            });
            st.calls = 0;
        }
        let built = table_build(opts.clone(), 7, &entries);
        let fired = fs.state().faults_fired > 0;
        if !fired {
            break;
        }
        fs.state().fault = None;
        shm.add(C_CASES, 1);
        shm.add(C_USER + 6, 1);
        if built.is_ok() {
            // the failure was not reported: then the file must be complete
            let mut d = table_case_json(c);
            d["failing_call_index"] = json!(at);
            let ok = match table_open(opts.clone(), 7) {
                Ok(t) => match t.blocks() {
                    Ok(blocks) => blocks.iter().flat_map(|b| b.2.iter().cloned()).collect::<Vec<VerifEntry>>() == entries,
                    Err(_) => false,
                },
                Err(_) => false,
            };
            if !ok {
                found(
                    shm,
                    clause,
                    &format!("filesystem call {} of the table build fails once, the build reports success, but the table file does not read back as the {} entries it was built from", at, entries.len()),
                    d,
                );
                return;
            }
        }
        at += 1;
        if at > 10_000 {
            break;
        }
    }
}

pub fn table_cases(max_keys: usize, block_sizes: &[usize], variants: usize) -> Vec<TableCase> {
    let nk = table_keys().len();
    let mut subsets: Vec<Vec<usize>> = vec![];
    fn rec(start: usize, nk: usize, max: usize, cur: &mut Vec<usize>, out: &mut Vec<Vec<usize>>) {
        if !cur.is_empty() {
            out.push(cur.clone());
        }
        if cur.len() == max {
            return;
        }
        for i in start..nk {
            cur.push(i);
            rec(i + 1, nk, max, cur, out);
            cur.pop();
        }
    }
    rec(0, nk, max_keys, &mut vec![], &mut subsets);
    let mut v = vec![];
    for s in subsets.iter() {
        let np = PATTERNS.len();
        let total = np.pow(s.len() as u32);
        for code in 0..total {
            let mut x = code;
            let pats: Vec<usize> = s
                .iter()
                .map(|_| {
                    let p = x % np;
                    x /= np;
                    p
                })
                .collect();
            for &b in block_sizes {
                for variant in 0..variants {
                    v.push(TableCase { keys: s.clone(), patterns: pats.clone(), block_size: b, variant, big_values: false, sweep_len: None, long_run: None, wide: None });
                }
            }
        }
    }
    v
}

/// long runs: more entries per block than the restart interval
pub fn long_run_cases() -> Vec<TableCase> {
    let mut v = vec![];
    for n in [15usize, 16, 17, 31, 32, 33, 48, 100] {
        for &b in &[64usize, 256, 1024, 1 << 20] {
            for variant in 0..2 {
                v.push(TableCase { keys: vec![], patterns: vec![], block_size: b, variant, big_values: false, sweep_len: None, long_run: Some(n), wide: None });
            }
        }
    }
    v
}

/// keys and values whose lengths sit on the boundaries of the varint coding
pub fn wide_cases() -> Vec<TableCase> {
    let mut v = vec![];
    let lens = [1usize, 126, 127, 128, 129, 255, 256, 16382, 16383, 16384, 16385];
    for &kl in lens.iter() {
        for &vl in [0usize, 1, 127, 128, 16383, 16384, 70000].iter() {
            for &b in &[1usize, 4096, 1 << 20] {
                for variant in 0..2 {
                    v.push(TableCase { keys: vec![], patterns: vec![], block_size: b, variant, big_values: false, sweep_len: None, long_run: None, wide: Some((kl, vl)) });
                }
            }
        }
    }
    v
}

/// C14 (ii) extras: 3000-byte values (one block spans several 2 KiB filter ranges) and 1-byte
/// blocks (many blocks per range)
pub fn filter_table_cases() -> Vec<TableCase> {
    let mut v = vec![];
    for keys in [vec![0usize, 2, 4, 5, 6], vec![1, 2, 3, 4, 7], vec![0, 1, 2, 3, 4, 5, 6, 7]] {
        for p in 0..PATTERNS.len() {
            for &b in &[1usize, 16, 2048, 4096, 1 << 20] {
                for big in [false, true] {
                    v.push(TableCase { keys: keys.clone(), patterns: keys.iter().map(|_| p).collect(), block_size: b, variant: 0, big_values: big, sweep_len: None, long_run: None, wide: None });
                }
            }
        }
    }
    // sweep: the first block's length takes every value of a 2 KiB window (+ margin), so the
    // offsets of the following blocks take every residue modulo the filter range size
    for l in 1900..=(1900 + 2048 + 200) {
        for &b in &[1usize, 64] {
            v.push(TableCase { keys: vec![2, 4, 5, 6], patterns: vec![0, 0, 2, 0], block_size: b, variant: 0, big_values: false, sweep_len: Some(l), long_run: None, wide: None });
        }
    }
    v
}

// ------------------------------------------------------------------------------------------------
// C14 (i): the public Bloom filter policy
// ------------------------------------------------------------------------------------------------

pub fn bloom_alphabet_keys() -> Vec<Vec<u8>> {
    let a = [0x00u8, 0x61, 0xff];
    let mut v: Vec<Vec<u8>> = vec![vec![]];
    for len in 1..=3usize {
        let total = 3usize.pow(len as u32);
        for code in 0..total {
            let mut x = code;
            let mut k = vec![];
            for _ in 0..len {
                k.push(a[x % 3]);
                x /= 3;
            }
            v.push(k);
        }
    }
    v
}

pub fn generated_keys(n: usize, salt: u64) -> Vec<Vec<u8>> {
    let mut s = salt.wrapping_mul(0x9E3779B97F4A7C15) | 1;
    (0..n)
        .map(|i| {
            s ^= s << 13;
            s ^= s >> 7;
            s ^= s << 17;
            let len = (s % 24) as usize;
            let mut k: Vec<u8> = (0..len).map(|j| ((s >> ((j % 8) * 8)) as u8) ^ (j as u8)).collect();
            k.extend_from_slice(&(i as u32).to_le_bytes());
            k
        })
        .collect()
}

/// One job = one bits_per_key value over all key sets.
pub fn bloom_job(bits: usize, shm: &Shm, max_set: usize, big_sets: &[usize]) {
    use raindb::FilterPolicy;
    let policy = raindb::BloomFilterPolicy::new(bits);
    let ks = bloom_alphabet_keys();
    let n = ks.len();
    let mut check = |set: &[Vec<u8>], label: &str| -> bool {
        let filter = policy.create_filter(set);
        shm.add(C_CASES, 1);
        if set.len() >= 2 {
            shm.add(C_NONTRIVIAL, 1);
        }
        for k in set {
            shm.add(C_USER + 3, 1);
            match policy.key_may_match(k, &filter) {
                Ok(true) => {}
                other => {
                    found(
                        shm,
                        "C14.bloom_false_negative",
                        &format!("bits_per_key={}: key {} of the set answers {:?}", bits, crate::world::esc(k), other.map_err(|e| e.to_string())),
                        json!({"bits_per_key": bits, "set": label, "keys": set.iter().map(|k| crate::world::esc(k)).collect::<Vec<_>>().iter().take(12).collect::<Vec<_>>()}),
                    );
                    return false;
                }
            }
        }
        true
    };
    if !check(&[], "empty") {
        return;
    }
    // a filter is read back by whatever policy the database is opened with later: the number of
    // probes is stored in the filter, so a policy with another bits_per_key must give the same
    // answers for the members
    for &other_bits in &[1usize, 4, 10, 20, 64] {
        if other_bits == bits {
            continue;
        }
        let reader = raindb::BloomFilterPolicy::new(other_bits);
        for sz in [1usize, 3, 50] {
            let set = generated_keys(sz, 77 + bits as u64);
            let filter = policy.create_filter(&set);
            shm.add(C_CASES, 1);
            for k in set.iter() {
                shm.add(C_USER + 3, 1);
                match reader.key_may_match(k, &filter) {
                    Ok(true) => {}
                    other => {
                        found(
                            shm,
                            "C14.bloom_false_negative",
                            &format!(
                                "filter built with bits_per_key={} and read by a policy with bits_per_key={}: key {} of the set answers {:?}",
                                bits,
                                other_bits,
                                crate::world::esc(k),
                                other.map_err(|e| e.to_string())
                            ),
                            json!({"bits_per_key": bits, "reader_bits_per_key": other_bits, "set": format!("generated{}", sz)}),
                        );
                        return;
                    }
                }
            }
        }
    }
    // all multisets of size 1..=max_set (with duplicates)
    for i in 0..n {
        if !check(&[ks[i].clone()], "1") {
            return;
        }
        if max_set >= 2 {
            for j in i..n {
                if !check(&[ks[i].clone(), ks[j].clone()], "2") {
                    return;
                }
                if max_set >= 3 {
                    for l in j..n {
                        if !check(&[ks[i].clone(), ks[j].clone(), ks[l].clone()], "3") {
                            return;
                        }
                    }
                }
            }
        }
    }
    for &sz in big_sets {
        let set = generated_keys(sz, sz as u64 + bits as u64 * 1000);
        if !check(&set, &format!("generated{}", sz)) {
            return;
        }
        // with duplicates
        let mut dup = set.clone();
        dup.extend(set.iter().take(sz / 2).cloned());
        if !check(&dup, &format!("generated{}+dups", sz)) {
            return;
        }
    }
}
