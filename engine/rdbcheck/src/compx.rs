//! `compx`: exhaustive enumeration of component inputs up to a bound, against boring reference
//! models: log files (C12), table files (C13), filters (C14). Driven through the
//! `cfg(raindb_verif)` wrappers over RainDB's crate-private types.

use std::collections::BTreeSet;
use std::path::{Path, PathBuf};
use std::sync::Arc;

use serde_json::{json, Value};

use raindb::fs::FileSystem;
use raindb::verif::{VerifLogReader, VerifLogWriter};

use crate::shm::*;
use crate::vfs::{Image, VerifFs};

pub const B: usize = 32768;
pub const H: usize = 7;

pub fn payload(rec_idx: usize, len: usize) -> Vec<u8> {
    // position dependent: a glued, shifted or truncated record can never equal an appended one
    (0..len).map(|j| ((rec_idx * 131 + j * 7 + (j >> 8) * 13 + 1) & 0xff) as u8).collect()
}

/// Reference model of the physical layout: fragment end offsets of each record.
pub fn layout(lens: &[usize]) -> (Vec<Vec<usize>>, usize) {
    let mut pos = 0usize;
    let mut out = vec![];
    for &l in lens {
        let mut rem = l;
        let mut frags = vec![];
        loop {
            let avail = B - pos % B;
            if avail < H {
                pos += avail;
            }
            let space = B - pos % B - H;
            let chunk = rem.min(space);
            pos += H + chunk;
            frags.push(pos);
            rem -= chunk;
            if rem == 0 {
                break;
            }
        }
        out.push(frags);
    }
    (out, pos)
}

fn log_path() -> PathBuf {
    PathBuf::from("/log/test.log")
}

fn new_fs() -> VerifFs {
    let fs = VerifFs::new();
    let _ = fs.create_dir_all(Path::new("/log"));
    fs
}

fn arc_fs(fs: &VerifFs) -> Arc<dyn FileSystem> {
    Arc::new(fs.clone()) as Arc<dyn FileSystem>
}

/// Write the records; `reopen_before[i]` = close the writer and open a new one in append mode
/// before record i (i >= 1).
pub fn write_log(fs: &VerifFs, lens: &[usize], reopen_before: &[bool], first_idx: usize, append_to_existing: bool) -> Result<(), String> {
    let mut w = VerifLogWriter::new(arc_fs(fs), &log_path(), append_to_existing)?;
    for (i, &l) in lens.iter().enumerate() {
        if i > 0 && reopen_before[i] {
            drop(w);
            w = VerifLogWriter::new(arc_fs(fs), &log_path(), true)?;
        }
        w.append(&payload(first_idx + i, l))?;
    }
    Ok(())
}

pub fn read_all(fs: &VerifFs, max: usize) -> Result<Vec<Vec<u8>>, String> {
    let mut r = VerifLogReader::new(arc_fs(fs), &log_path())?;
    let mut out = vec![];
    loop {
        match r.read_record()? {
            None => return Ok(out),
            Some(rec) => {
                out.push(rec);
                if out.len() > max {
                    return Err(format!("reader returned more than {} records", max));
                }
            }
        }
    }
}

fn short(recs: &[Vec<u8>]) -> String {
    format!(
        "[{}]",
        recs.iter()
            .map(|r| format!("{}B:{:02x?}", r.len(), &r[..r.len().min(4)]))
            .collect::<Vec<_>>()
            .join(", ")
    )
}

#[derive(Clone, Debug)]
pub struct LogCase {
    pub lens: Vec<usize>,
    /// bitmask: bit i set = reopen the writer before record i
    pub split: u32,
    pub truncations: bool,
    pub stop_between_fragments: bool,
}

pub fn found(shm: &Shm, clause: &str, detail: &str, case: Value) {
    shm.add(C_VIOLATIONS, 1);
    let v = json!({"clause": clause, "detail": detail, "case": case});
    shm.push_record(b'V', v.to_string().as_bytes());
}

fn truncation_points(frags: &[Vec<usize>], file_len: usize) -> Vec<usize> {
    let mut pts: BTreeSet<usize> = BTreeSet::new();
    if file_len < 1024 {
        for t in 0..file_len {
            pts.insert(t);
        }
        return pts.into_iter().collect();
    }
    let mut add_around = |c: usize| {
        for d in 0..=16usize {
            if c >= d {
                pts.insert(c - d);
            }
            if c + d < file_len {
                pts.insert(c + d);
            }
        }
    };
    add_around(0);
    let mut prev = 0usize;
    for rec in frags {
        for &e in rec {
            add_around(e); // fragment end = next header start
            add_around(prev + H); // end of the header of this fragment (approximately, if no trailer skip)
            prev = e;
        }
    }
    let mut b = B;
    while b < file_len {
        add_around(b);
        b += B;
    }
    let mut t = 997;
    while t < file_len {
        pts.insert(t);
        t += 997;
    }
    pts.into_iter().filter(|&t| t < file_len).collect()
}

pub fn log_case(c: &LogCase, shm: &Shm) {
    let desc = || json!({"record_lengths": c.lens, "writer_reopened_before_record_mask": c.split, "kind": "roundtrip"});
    let n = c.lens.len();
    let reopen: Vec<bool> = (0..n).map(|i| i > 0 && (c.split >> i) & 1 == 1).collect();
    let fs = new_fs();
    if let Err(e) = write_log(&fs, &c.lens, &reopen, 0, false) {
        found(shm, "C12.write_err", &format!("append failed: {}", e), desc());
        return;
    }
    let want: Vec<Vec<u8>> = (0..n).map(|i| payload(i, c.lens[i])).collect();
    let (frags, model_len) = layout(&c.lens);
    let img = fs.image();
    let data = img.get(&log_path()).cloned().unwrap_or_default();
    shm.add(C_CASES, 1);
    let plain_len: usize = c.lens.iter().map(|l| H + l).sum();
    let nontrivial = frags.iter().any(|f| f.len() > 1) || model_len != plain_len || c.split != 0;
    if nontrivial {
        shm.add(C_NONTRIVIAL, 1);
    }
    if data.len() != model_len {
        found(
            shm,
            "C12.layout",
            &format!("file length {} differs from the format's reference layout {}", data.len(), model_len),
            desc(),
        );
        return;
    }
    match read_all(&fs, n + 4) {
        Ok(got) => {
            if got != want {
                found(shm, "C12.roundtrip", &format!("read back {} but appended {}", short(&got), short(&want)), desc());
                return;
            }
        }
        Err(e) => {
            found(shm, "C12.roundtrip", &format!("reading back failed: {}", e), desc());
            return;
        }
    }
    if c.truncations {
        let ends: Vec<usize> = frags.iter().map(|f| *f.last().unwrap()).collect();
        for t in truncation_points(&frags, data.len()) {
            let mut im = Image::new();
            im.insert(log_path(), data[..t].to_vec());
            let dirs: BTreeSet<PathBuf> = [PathBuf::from("/log"), PathBuf::from("/")].into_iter().collect();
            let tfs = VerifFs::from_image(&im, &dirs);
            shm.add(C_CASES, 1);
            shm.add(C_USER, 1);
            if nontrivial {
                shm.add(C_NONTRIVIAL, 1);
            }
            let k = ends.iter().filter(|&&e| e <= t).count();
            let d = || json!({"record_lengths": c.lens, "writer_reopened_before_record_mask": c.split, "kind": "truncation", "truncated_to": t, "file_len": data.len()});
            match read_all(&tfs, n + 4) {
                Ok(got) => {
                    if got != want[..k] {
                        found(
                            shm,
                            "C12.truncation",
                            &format!("file cut at {} of {}: read {} but the complete records in the prefix are {}", t, data.len(), short(&got), short(&want[..k])),
                            d(),
                        );
                        return;
                    }
                }
                Err(e) => {
                    found(shm, "C12.truncation", &format!("file cut at {} of {}: reader failed: {}", t, data.len(), e), d());
                    return;
                }
            }
        }
    }
    if c.stop_between_fragments {
        // a writer that died between two fragments of record i, then a new writer appends two
        // records: the reader returns the complete earlier records and the later two only
        for (i, rec) in frags.iter().enumerate() {
            if rec.len() < 2 {
                continue;
            }
            for &cut in &rec[..rec.len() - 1] {
                let mut im = Image::new();
                im.insert(log_path(), data[..cut].to_vec());
                let dirs: BTreeSet<PathBuf> = [PathBuf::from("/log"), PathBuf::from("/")].into_iter().collect();
                let tfs = VerifFs::from_image(&im, &dirs);
                shm.add(C_CASES, 1);
                shm.add(C_NONTRIVIAL, 1);
                shm.add(C_USER + 1, 1);
                let later = [5usize, 40];
                let d = || json!({"record_lengths": c.lens, "kind": "writer_stopped_between_fragments", "record": i, "file_cut_at_fragment_end": cut, "then_appended_lengths": later});
                if let Err(e) = write_log(&tfs, &later, &[false, false], 100, true) {
                    found(shm, "C12.write_err", &format!("append after the cut failed: {}", e), d());
                    return;
                }
                let mut expect: Vec<Vec<u8>> = want[..i].to_vec();
                expect.push(payload(100, later[0]));
                expect.push(payload(101, later[1]));
                match read_all(&tfs, n + 6) {
                    Ok(got) => {
                        if got != expect {
                            found(
                                shm,
                                "C12.append_after_partial",
                                &format!(
                                    "writer stopped after fragment ending at {} of record {}, two records appended: read {} but expected {}",
                                    cut,
                                    i,
                                    short(&got),
                                    short(&expect)
                                ),
                                d(),
                            );
                            return;
                        }
                    }
                    Err(e) => {
                        found(shm, "C12.append_after_partial", &format!("reader failed: {}", e), d());
                        return;
                    }
                }
            }
        }
    }
}

pub fn log_cases(thorough: bool) -> Vec<LogCase> {
    let mut l2s: Vec<usize> = vec![];
    if thorough {
        l2s.extend(0..=16);
        l2s.extend((B - H - 8)..=(B - H + 8));
        l2s.extend((2 * (B - H) - 8)..=(2 * (B - H) + 8));
        l2s.push(3 * B);
    } else {
        l2s.extend([0, 1, 6, 7, 8, 16]);
        l2s.extend([B - H - 1, B - H, B - H + 1, B - H + 7]);
        l2s.extend([2 * (B - H) - 1, 2 * (B - H), 2 * (B - H) + 1]);
        l2s.push(3 * B);
    }
    let l3s: Vec<usize> = if thorough { vec![0, 1, 100] } else { vec![1] };
    let mut v = vec![];
    for r in 0..=16usize {
        let l1 = B - H - r;
        for &l2 in l2s.iter() {
            for &l3 in l3s.iter() {
                for split in [0u32, 2, 4, 6] {
                    v.push(LogCase {
                        lens: vec![l1, l2, l3],
                        split,
                        truncations: split == 0 && (thorough || l3 == 1),
                        stop_between_fragments: split == 0,
                    });
                }
            }
        }
    }
    // small files: every truncation byte
    for a in [0usize, 1, 5, 100] {
        for b in [0usize, 3, 200] {
            for split in [0u32, 2] {
                v.push(LogCase {
                    lens: vec![a, b, 7],
                    split,
                    truncations: true,
                    stop_between_fragments: false,
                });
            }
        }
    }
    // a record starting at offset 0 that spans blocks (first fragment fills a whole block)
    for l in [B - H + 1, 40_000, 2 * B, 3 * B + 5] {
        v.push(LogCase {
            lens: vec![l, 9],
            split: 0,
            truncations: true,
            stop_between_fragments: true,
        });
        v.push(LogCase {
            lens: vec![12, l, 9],
            split: 0,
            truncations: thorough,
            stop_between_fragments: true,
        });
    }
    v
}

pub fn parse_found(shm: &Shm) -> Vec<(String, String, Value)> {
    let mut out = vec![];
    for (tag, data) in shm.records() {
        if tag == b'V' {
            if let Ok(v) = serde_json::from_slice::<Value>(&data) {
                out.push((
                    v["clause"].as_str().unwrap_or("").to_string(),
                    v["detail"].as_str().unwrap_or("").to_string(),
                    v["case"].clone(),
                ));
            }
        }
    }
    out
}
