//! Running one controlled execution of a closure and classifying how it ended.

use std::panic::{self, AssertUnwindSafe};
use std::sync::Mutex;

use shuttle::{Config, FailurePersistence, MaxSteps, Runner};

use crate::sched::{OneShot, Sched};

#[derive(Clone, Debug, PartialEq, Eq)]
pub enum Outcome {
    Ok,
    /// a task panicked (RainDB assertion, unwrap, ...); `bg` = it was RainDB's background thread
    Panic { msg: String, bg: bool },
    Deadlock(String),
    StepBound,
    /// machinery error: the schedule could not be followed
    Divergence(String),
}

static LAST_PANIC: Mutex<Option<String>> = Mutex::new(None);
static HOOK_SET: std::sync::Once = std::sync::Once::new();

/// Scheduling decisions per execution before the runtime calls it a livelock. One execution of the
/// sequence explorer carries the extra check of its node (C04: every cursor program of the stated
/// length, a few decisions per iterator call), which alone takes more than 10^6 decisions for
/// programs of length 4; a subject that really spins is ended by the progress watchdog long before
/// it has made 10^7 decisions.
pub const MAX_STEPS: usize = 10_000_000;

pub fn shuttle_config() -> Config {
    let mut c = Config::new();
    c.stack_size = 1 << 20;
    c.failure_persistence = FailurePersistence::None;
    c.max_steps = MaxSteps::FailAfter(MAX_STEPS);
    c.silence_warnings = true;
    c
}

/// Install a quiet panic hook that only remembers the message. Must be called after shuttle has
/// installed its own (it does so once, at its first execution).
pub fn install_quiet_hook() {
    HOOK_SET.call_once(|| {
        // make shuttle install its hook first
        let s = Sched::new(crate::sched::Mode::Fixed);
        let _ = run_once(&s, || {});
        let _ = panic::take_hook();
        panic::set_hook(Box::new(|info| {
            let msg = parking_lot::verif_rt::panic_message(info.payload());
            let loc = info.location().map(|l| format!(" at {}:{}", l.file(), l.line())).unwrap_or_default();
            if std::env::var("RDBCHECK_VERBOSE_PANICS").is_ok() {
                eprintln!("[panic] {}{}", msg, loc);
                if std::env::var("RDBCHECK_VERBOSE_PANICS").map(|v| v == "bt").unwrap_or(false) {
                    eprintln!("{}", std::backtrace::Backtrace::force_capture());
                }
            }
            let mut g = match LAST_PANIC.lock() {
                Ok(g) => g,
                Err(p) => p.into_inner(),
            };
            // keep the first panic of an execution: later ones are usually consequences
            if g.is_none() {
                *g = Some(format!("{}{}", msg, loc));
            }
        }));
    });
}

pub fn take_last_panic() -> Option<String> {
    let mut g = match LAST_PANIC.lock() {
        Ok(g) => g,
        Err(p) => p.into_inner(),
    };
    g.take()
}

/// Run exactly one execution of `f` under `sched` (which decides whether this is the next DFS
/// schedule, the single `Seq` schedule or a replay). Returns `None` if the scheduler has no
/// further execution to offer.
pub fn run_once<F>(sched: &Sched, f: F) -> Option<Outcome>
where
    F: Fn() + Send + Sync + 'static,
{
    let before = sched.core().executions;
    let _ = take_last_panic();
    parking_lot::verif_rt::clear_background_panics();
    let one = OneShot {
        inner: sched.clone(),
        fired: false,
    };
    let runner = Runner::new(one, shuttle_config());
    let res = panic::catch_unwind(AssertUnwindSafe(|| runner.run(f)));
    let after = sched.core().executions;
    if let Some(d) = sched.core().divergence.take() {
        return Some(Outcome::Divergence(d));
    }
    match res {
        Ok(_) => {
            if after == before {
                None
            } else {
                Some(Outcome::Ok)
            }
        }
        Err(payload) => {
            let msg = parking_lot::verif_rt::panic_message(&*payload);
            let first = take_last_panic();
            if msg.starts_with("deadlock!") {
                Some(Outcome::Deadlock(msg))
            } else if msg.contains("exceeded max_steps") {
                Some(Outcome::StepBound)
            } else {
                let bg = !parking_lot::verif_rt::background_panics().is_empty();
                Some(Outcome::Panic {
                    msg: first.unwrap_or(msg),
                    bg,
                })
            }
        }
    }
}

/// Run executions of `f` under `sched` until the scheduler is exhausted (returns `None`) or one
/// execution fails (returns its outcome; call again to continue the exploration). One shuttle
/// `Runner` (and so one continuation-stack pool) serves all executions of a call.
pub fn run_many<F>(sched: &Sched, f: F) -> Option<Outcome>
where
    F: Fn() + Send + Sync + 'static,
{
    let _ = take_last_panic();
    parking_lot::verif_rt::clear_background_panics();
    let runner = Runner::new(sched.clone(), shuttle_config());
    let res = panic::catch_unwind(AssertUnwindSafe(|| runner.run(f)));
    if let Some(d) = sched.core().divergence.take() {
        return Some(Outcome::Divergence(d));
    }
    match res {
        Ok(_) => None,
        Err(payload) => {
            let msg = parking_lot::verif_rt::panic_message(&*payload);
            let first = take_last_panic();
            if msg.starts_with("deadlock!") {
                Some(Outcome::Deadlock(msg))
            } else if msg.contains("exceeded max_steps") {
                Some(Outcome::StepBound)
            } else {
                let bg = !parking_lot::verif_rt::background_panics().is_empty();
                Some(Outcome::Panic {
                    msg: first.unwrap_or(msg),
                    bg,
                })
            }
        }
    }
}
