//! The driver of the real database plus the reference model and the oracles.
//!
//! `World` owns a `VerifFs`, an open `raindb::DB`, the model (`BTreeMap`), frozen model copies for
//! every live snapshot / held iterator, and applies `Op`s to both sides. All oracles return a
//! `Violation` (clause id + human detail) instead of panicking, so the explorers can classify.

use std::collections::BTreeMap;
use std::sync::Arc;

use raindb::db::DatabaseDescriptor;
use raindb::fs::FileSystem;
use raindb::verif::{VerifEntry, VerifFileMeta};
use raindb::{Batch, DbOptions, RainDBError, RainDbIterator, ReadOptions, Snapshot, WriteOptions, DB};

use crate::vfs::VerifFs;

pub type Model = BTreeMap<Vec<u8>, Vec<u8>>;
pub type DbIter = Box<dyn RainDbIterator<Key = Vec<u8>, Error = RainDBError>>;

pub const DB_PATH: &str = "/db";

#[derive(Clone, Copy, Debug, PartialEq, Eq, Hash)]
pub struct Cfg {
    pub memtable: usize,
    pub file: u64,
    pub block: usize,
    pub reuse: bool,
    /// size limit of each of the levels 1..=5 in bytes (0 = RainDB's defaults of 10 MiB x 10^(l-1));
    /// small values let a bounded exploration fill the deep levels (hook `set_level_size_limits`)
    pub level_limit: u64,
    /// use a filter policy that answers 'may match' for every key (a legal policy: no false
    /// negatives): every lookup reaches the data blocks, so the block-search paths that a Bloom
    /// filter hides for 99% of the absent keys are exercised
    pub permissive_filter: bool,
    /// block cache with room for two blocks only: every read evicts
    pub tiny_block_cache: bool,
    /// bits per key of the Bloom filter policy (RainDB's default is 10); reopening with another
    /// value reads filters that were built with a different number of probes
    pub bloom_bits: usize,
    /// how many snapshots may be alive at once in the sequence explorer (default 2)
    pub max_snapshots: usize,
}

impl Cfg {
    pub const fn new(memtable: usize, file: u64, block: usize, reuse: bool) -> Self {
        Cfg {
            memtable,
            file,
            block,
            reuse,
            level_limit: 0,
            permissive_filter: false,
            tiny_block_cache: false,
            bloom_bits: 10,
            max_snapshots: 2,
        }
    }
    pub const fn with_bloom_bits(mut self, bits: usize) -> Self {
        self.bloom_bits = bits;
        self
    }
    pub const fn with_max_snapshots(mut self, n: usize) -> Self {
        self.max_snapshots = n;
        self
    }
    pub const fn with_tiny_block_cache(mut self) -> Self {
        self.tiny_block_cache = true;
        self
    }
    pub const fn with_permissive_filter(mut self) -> Self {
        self.permissive_filter = true;
        self
    }
    pub const fn with_level_limit(mut self, bytes: u64) -> Self {
        self.level_limit = bytes;
        self
    }
    pub fn name(&self) -> String {
        format!(
            "mem{}_file{}_blk{}_{}{}",
            self.memtable,
            self.file,
            self.block,
            if self.reuse { "reuse" } else { "noreuse" },
            if self.level_limit > 0 { format!("_levels{}", self.level_limit) } else { String::new() }
        ) + if self.permissive_filter { "_filterAlwaysTrue" } else { "" }
            + if self.tiny_block_cache { "_blockcache2" } else { "" }
            + &if self.bloom_bits != 10 { format!("_bloom{}", self.bloom_bits) } else { String::new() }
            + &if self.max_snapshots != 2 { format!("_snapshots{}", self.max_snapshots) } else { String::new() }
    }
    pub fn parse(s: &str) -> Option<Cfg> {
        // T1 | T300 | M2 | D, optional suffix "n" = reuse_log_files false
        let (base, reuse) = match s.strip_suffix('n') {
            Some(b) => (b, false),
            None => (s, true),
        };
        Some(match base {
            "T1" => Cfg::new(4 << 20, 1, 1, reuse),
            "T300" => Cfg::new(4 << 20, 300, 1, reuse),
            "T300b" => Cfg::new(4 << 20, 300, 64, reuse),
            "M2" => Cfg::new(M2_MEMTABLE, 300, 16, reuse),
            // every second small write rotates the memtable
            "R" => Cfg::new(200, 300, 16, reuse),
            "M2b" => Cfg::new(M2_MEMTABLE, 1 << 20, 4096, reuse),
            // a memtable budget below the size of an empty memtable: every write rotates, also an
            // empty memtable (flushes that produce no table)
            "M0" => Cfg::new(1, 300, 16, reuse),
            // zero for the file and block size limits
            "Z" => Cfg::new(4 << 20, 0, 0, reuse),
            // "no limit": the largest values the option types admit
            "MAX" => Cfg::new(4 << 20, u64::MAX, usize::MAX, reuse),
            "Zb0" => Cfg::new(4 << 20, 0, 0, reuse).with_bloom_bits(0),
            "D" => Cfg::new(4 << 20, 2 << 20, 4096, reuse),
            // every level 1..=5 overflows with its second ~150-byte file: data cascades to level 6
            "L" => Cfg::new(4 << 20, 300, 1, reuse).with_level_limit(250),
            "L1" => Cfg::new(4 << 20, 1, 1, reuse).with_level_limit(250),
            // one entry per block / per file, every lookup passes the filter
            "T300p" => Cfg::new(4 << 20, 300, 1, reuse).with_permissive_filter(),
            "T1p" => Cfg::new(4 << 20, 1, 1, reuse).with_permissive_filter(),
            // two-entry block cache (the smallest RainDB accepts), one entry per block
            "T300c" => Cfg::new(4 << 20, 300, 1, reuse).with_tiny_block_cache(),
            // other Bloom filter sizes (filters written under one are read under another after a reopen)
            "T300b2" => Cfg::new(4 << 20, 300, 1, reuse).with_bloom_bits(2),
            "T300b30" => Cfg::new(4 << 20, 300, 64, reuse).with_bloom_bits(30),
            // up to four live snapshots
            "T300s4" => Cfg::new(4 << 20, 300, 1, reuse).with_max_snapshots(4),
            // 1000-byte files, 512-byte blocks: with one 1120-byte value (class 13) a compaction output
            // is closed right behind the entry after it
            "F1000" => Cfg::new(4 << 20, 1000, 512, reuse),
            _ => return None,
        })
    }
}

/// Memtable budget of the `M2` configurations: an empty skip-list memtable reports ~170 bytes and
/// a small put adds ~150; with this budget the third small write rotates the memtable.
pub const M2_MEMTABLE: usize = 500;

#[derive(Clone, Debug, PartialEq, Eq, Hash)]
pub enum Op {
    /// put key[k] with a fresh value of the given class (0 small, 1 > WAL block, 2 > memtable)
    Put(u8, u8),
    Del(u8),
    /// batch of (key index, is_put)
    Batch(Vec<(u8, bool)>),
    /// batch of puts whose first value is larger than a WAL block (the log record spans blocks)
    BatchBig(Vec<u8>),
    /// `compact_range(Some(z)..Some(z))`, z above every key: flushes the memtable only
    Flush,
    /// `compact_range(begin..end)`, key indices or open
    Compact(Option<u8>, Option<u8>),
    Reopen(u8),
    Quiesce,
    Snap,
    Release(u8),
    Iter,
    DropIter,
    /// n puts of one key, one after the other (a "hot" key: n versions of one user key next to
    /// each other in the memtable and, under a live snapshot, in the tables - iterators step over
    /// them, blocks and filter ranges are crossed inside one user key)
    PutMany(u8, u16),
    /// n gets of one key (exhausts allowed seeks -> seek compaction)
    GetMany(u8, u16),
    /// n fresh iterators, each seeking one key (iterators sample the entries they parse: charges
    /// seeks through `record_read_sample`, the other route to a seek-triggered compaction)
    IterSeekMany(u8, u16),
    Get(u8),
    /// 0..=6 NumFilesAtLevel(l), 7 NumFilesAtLevel(7) (invalid), 8 Stats, 9 SSTables
    Desc(u8),
    /// scan with a fresh iterator (forward + backward)
    Scan,
    /// close the database while the held iterator is still alive, scan the iterator, drop it, reopen
    CloseHoldingIter,
    /// close the database while the held iterator is still alive and open it again *at once*: either
    /// the open is refused (the closed handle's iterator still uses the directory) or the new owner
    /// works - it overwrites every key, flushes and compacts everything - without taking anything
    /// away from the old iterator, which is scanned afterwards
    ReopenUnderLiveIter,
}

impl Op {
    pub fn short(&self, keys: &[Vec<u8>]) -> String {
        let k = |i: &u8| String::from_utf8_lossy(&keys[*i as usize]).to_string();
        match self {
            Op::Put(i, c) => {
                if *c == 0 {
                    format!("put {}", esc(&keys[*i as usize]))
                } else {
                    format!("put{} {}", c, esc(&keys[*i as usize]))
                }
            }
            Op::Del(i) => format!("del {}", esc(&keys[*i as usize])),
            Op::Batch(v) => format!(
                "batch[{}]",
                v.iter()
                    .map(|(i, p)| format!("{}{}", if *p { "+" } else { "-" }, esc(&keys[*i as usize])))
                    .collect::<Vec<_>>()
                    .join(",")
            ),
            Op::BatchBig(v) => format!("batchbig[{}]", v.iter().map(|i| esc(&keys[*i as usize])).collect::<Vec<_>>().join(",")),
            Op::Flush => "flush".into(),
            Op::Compact(a, b) => format!(
                "compact({}..{})",
                a.as_ref().map(k).unwrap_or_else(|| "".into()),
                b.as_ref().map(k).unwrap_or_else(|| "".into())
            ),
            Op::Reopen(c) => format!("reopen#{}", c),
            Op::Quiesce => "quiesce".into(),
            Op::Snap => "snap".into(),
            Op::Release(i) => format!("release{}", i),
            Op::Iter => "iter".into(),
            Op::DropIter => "dropiter".into(),
            Op::PutMany(i, n) => format!("put*{} {}", n, esc(&keys[*i as usize])),
            Op::GetMany(i, n) => format!("get*{} {}", n, esc(&keys[*i as usize])),
            Op::IterSeekMany(i, n) => format!("iterseek*{} {}", n, esc(&keys[*i as usize])),
            Op::Get(i) => format!("get {}", esc(&keys[*i as usize])),
            Op::Desc(d) => format!("desc{}", d),
            Op::Scan => "scan".into(),
            Op::CloseHoldingIter => "close-holding-iterator".into(),
            Op::ReopenUnderLiveIter => "close+reopen-under-live-iterator".into(),
        }
    }
}

pub fn esc(b: &[u8]) -> String {
    let mut s = String::new();
    for &c in b {
        if c.is_ascii_graphic() && c != b'\\' {
            s.push(c as char);
        } else {
            s.push_str(&format!("\\x{:02x}", c));
        }
    }
    if s.is_empty() {
        s.push_str("\"\"");
    }
    s
}

#[derive(Clone, Debug)]
pub struct Violation {
    /// stable clause id, e.g. "C01.get"
    pub clause: String,
    pub detail: String,
}

impl Violation {
    pub fn new(clause: &str, detail: String) -> Self {
        Violation {
            clause: clause.to_string(),
            detail,
        }
    }
}

pub type VResult<T> = Result<T, Violation>;

#[derive(Clone, Copy, Debug, Default)]
pub struct Checks {
    pub reads: bool,
    pub scan: bool,
    pub snapshots: bool,
    pub layout: bool,
    pub files: bool,
    pub diff: bool,
}

impl Checks {
    pub fn all() -> Self {
        Checks {
            reads: true,
            scan: true,
            snapshots: true,
            layout: true,
            files: true,
            diff: true,
        }
    }
}

#[derive(Clone, Debug, Default)]
pub struct Shape {
    pub max_l0: u64,
    pub max_level_files: u64,
    pub deepest_level: u64,
    pub max_versions_of_key: u64,
    pub max_total_files: u64,
    pub rotations_seen: u64,
    pub imm_seen: u64,
}

pub struct World {
    pub fs: VerifFs,
    pub cfg: Cfg,
    pub cfgs: Vec<Cfg>,
    pub keys: Vec<Vec<u8>>,
    pub db: Option<DB>,
    pub model: Model,
    pub snaps: Vec<(Snapshot, Model)>,
    pub iter: Option<(DbIter, Model)>,
    pub stamp: u64,
    pub eager: bool,
    pub checks: Checks,
    pub shape: Shape,
    /// files that were live at the last check (to compute removed-while-live)
    pub last_desc_ok: bool,
}

pub fn flush_key() -> Vec<u8> {
    vec![0xff, 0xff, 0xff]
}

pub fn value_for(stamp: u64, key_idx: u8, class: u8, cfg: &Cfg) -> Vec<u8> {
    let base = format!("{:05}:{:02}", stamp, key_idx).into_bytes();
    let len = match class {
        0 => 8,
        1 => 40_000,
        2 => (cfg.memtable.min(1 << 20)) + 1000,
        // the boundaries of the varint length coding (batch records, block entries)
        5 => 127,
        6 => 128,
        7 => 16383,
        8 => 16384,
        // as the first record of a WAL with a 1-byte key: the record ends 7 resp. 6 bytes before
        // the end of the first 32 KiB block (7 header + 8 sequence + 1 count + 1 operation + 1 + 1
        // key + 3 length + value), so the next record starts with a zero-length First fragment
        // resp. behind a 6-byte trailer
        9 => 32739,
        10 => 32740,
        _ => 8,
    };
    if class == 4 {
        return vec![];
    }
    if class == 11 {
        return value_with_embedded_log_record(&base);
    }
    if class == 12 {
        // 40000 bytes; as the value of the very first record of a write-ahead log under a one-byte
        // key, the record's second fragment (behind the first 32 KiB block) begins with value
        // byte 32746 - and there the value holds a serialized batch `put f = GHOST`: a reader that
        // takes that fragment for a complete record (type byte Last -> Full) delivers it
        let mut v: Vec<u8> = (0..40_000usize).map(|i| (i % 251) as u8 | 0x80).collect();
        v[..base.len()].copy_from_slice(&base);
        let mut ghost: Vec<u8> = vec![];
        ghost.extend_from_slice(&700u64.to_le_bytes());
        ghost.push(1);
        ghost.push(1);
        ghost.push(GHOST_KEY.len() as u8);
        ghost.extend_from_slice(GHOST_KEY);
        ghost.push(GHOST_VALUE.len() as u8);
        ghost.extend_from_slice(GHOST_VALUE);
        v[32746..32746 + ghost.len()].copy_from_slice(&ghost);
        return v;
    }
    if class == 13 {
        // 1120 bytes of hexadecimal text that the block compression hardly shrinks
        let mut x: u64 = 0x9E37_79B9_7F4A_7C15 ^ (stamp << 8) ^ key_idx as u64;
        let mut v = base.clone();
        while v.len() < 1120 {
            x ^= x << 13;
            x ^= x >> 7;
            x ^= x << 17;
            v.extend_from_slice(format!("{:016x}", x).as_bytes());
        }
        v.truncate(1120);
        return v;
    }
    if class == 3 {
        // 3000 incompressible bytes: a table block of its own, 1.5 filter ranges (2 KiB) long
        let mut x: u64 = 0x9E37_79B9_7F4A_7C15 ^ (stamp << 8) ^ key_idx as u64;
        let mut v = base.clone();
        while v.len() < 3000 {
            x ^= x << 13;
            x ^= x >> 7;
            x ^= x << 17;
            v.push((x >> 24) as u8);
        }
        return v;
    }
    let mut v = Vec::with_capacity(len);
    let mut i = 0usize;
    while v.len() < len {
        // position dependent so shifted / glued payloads never look right
        let b = base[i % base.len()];
        v.push(if i < 8 { b } else { b ^ ((i / 8) as u8) });
        i += 1;
    }
    v
}

/// Key and value of the write that a log reader must never deliver: it exists only as bytes
/// inside another write's value (value class 11).
pub const GHOST_KEY: &[u8] = b"f";
pub const GHOST_VALUE: &[u8] = b"GHOST";

/// A 600-byte value whose bytes 498.. are the complete image of a physical log record (written by
/// RainDB's own log writer) that holds a one-operation batch `put f = GHOST`. As the value of a put
/// with a one-byte key the write-ahead-log record is 7 + 614 (0x0266) bytes long and the image
/// starts 512 bytes into its payload: a reader that believes a damaged length field (low byte
/// zeroed: 0x0200) and resumes parsing right behind the bytes that length covers lands exactly on
/// the image and delivers a write that was never made. Everything behind the image is zero.
fn value_with_embedded_log_record(base: &[u8]) -> Vec<u8> {
    use crate::vfs::VerifFs;
    use raindb::fs::FileSystem;
    use std::io::Read;
    use std::path::Path;
    let mut payload: Vec<u8> = vec![];
    payload.extend_from_slice(&500u64.to_le_bytes()); // starting sequence number
    payload.push(1); // one operation
    payload.push(1); // Put
    payload.push(GHOST_KEY.len() as u8);
    payload.extend_from_slice(GHOST_KEY);
    payload.push(GHOST_VALUE.len() as u8);
    payload.extend_from_slice(GHOST_VALUE);
    let fs = VerifFs::new();
    let _ = fs.create_dir_all(Path::new("/scratch"));
    let path = Path::new("/scratch/image.log");
    let mut image: Vec<u8> = vec![];
    {
        let mut w = raindb::verif::VerifLogWriter::new(std::sync::Arc::new(fs.clone()) as std::sync::Arc<dyn FileSystem>, path, false).expect("scratch log writer");
        w.append(&payload).expect("scratch log append");
    }
    if let Ok(mut f) = fs.open_file(path) {
        let mut buf = vec![0u8; 64];
        loop {
            match f.read(&mut buf) {
                Ok(0) | Err(_) => break,
                Ok(n) => image.extend_from_slice(&buf[..n]),
            }
        }
    }
    let mut v = vec![0x55u8; 600];
    v[..base.len()].copy_from_slice(base);
    for b in v[498..].iter_mut() {
        *b = 0;
    }
    v[498..498 + image.len()].copy_from_slice(&image);
    v
}

/// A filter policy without false negatives and with nothing but false positives.
#[derive(Debug)]
pub struct AlwaysMayMatch;

impl raindb::FilterPolicy for AlwaysMayMatch {
    fn get_name(&self) -> String {
        "verif.AlwaysMayMatch".to_string()
    }
    fn create_filter(&self, _keys: &[Vec<u8>]) -> Vec<u8> {
        vec![1]
    }
    fn key_may_match(&self, _key: &[u8], _serialized_filter: &[u8]) -> Result<bool, raindb::filter_policy::FilterPolicyError> {
        Ok(true)
    }
}

pub fn db_options(fs: &VerifFs, cfg: &Cfg) -> DbOptions {
    // every field spelled out: `DbOptions::default()` allocates an 8 Mi-entry cache table and
    // asks the OS for the current directory
    raindb::verif::set_level_size_limits(cfg.level_limit, 100);
    DbOptions {
        db_path: DB_PATH.to_string(),
        max_memtable_size: cfg.memtable,
        max_file_size: cfg.file,
        max_block_size: cfg.block,
        filesystem_provider: Arc::new(fs.clone()) as Arc<dyn FileSystem>,
        filter_policy: if cfg.permissive_filter { Arc::new(AlwaysMayMatch) } else { Arc::new(raindb::BloomFilterPolicy::new(cfg.bloom_bits)) },
        block_cache: raindb::verif::block_cache(if cfg.tiny_block_cache { 2 } else { 4096 }),
        create_if_missing: true,
        error_if_exists: false,
        reuse_log_files: cfg.reuse,
    }
}

pub fn is_not_found(e: &RainDBError) -> bool {
    matches!(e, RainDBError::KeyNotFound)
}

/// get -> Ok(Some(v)) | Ok(None) for KeyNotFound | Err(msg)
pub fn db_get(db: &DB, key: &[u8], snap: Option<&Snapshot>) -> Result<Option<Vec<u8>>, String> {
    let ro = ReadOptions {
        fill_cache: true,
        snapshot: snap.cloned(),
    };
    match db.get(ro, key) {
        Ok(v) => Ok(Some(v)),
        Err(e) if is_not_found(&e) => Ok(None),
        Err(e) => Err(e.to_string()),
    }
}

pub fn scan_forward(it: &mut DbIter) -> Result<Vec<(Vec<u8>, Vec<u8>)>, String> {
    let mut out = vec![];
    it.seek_to_first().map_err(|e| e.to_string())?;
    while it.is_valid() {
        let (k, v) = it.current().ok_or_else(|| "valid iterator without current".to_string())?;
        out.push((k.clone(), v.clone()));
        if out.len() > 10_000 {
            return Err("scan does not terminate".into());
        }
        it.next();
    }
    // an iterator that became invalid either ran off the end or failed
    if let Some(e) = it.take_error() {
        return Err(e.to_string());
    }
    Ok(out)
}

pub fn scan_backward(it: &mut DbIter) -> Result<Vec<(Vec<u8>, Vec<u8>)>, String> {
    let mut out = vec![];
    it.seek_to_last().map_err(|e| e.to_string())?;
    while it.is_valid() {
        let (k, v) = it.current().ok_or_else(|| "valid iterator without current".to_string())?;
        out.push((k.clone(), v.clone()));
        if out.len() > 10_000 {
            return Err("scan does not terminate".into());
        }
        it.prev();
    }
    if let Some(e) = it.take_error() {
        return Err(e.to_string());
    }
    out.reverse();
    Ok(out)
}

fn model_vec(m: &Model) -> Vec<(Vec<u8>, Vec<u8>)> {
    m.iter().map(|(k, v)| (k.clone(), v.clone())).collect()
}

fn show_kv(v: &[(Vec<u8>, Vec<u8>)]) -> String {
    v.iter()
        .map(|(k, v)| format!("{}={}", esc(k), show_val(v)))
        .collect::<Vec<_>>()
        .join(" ")
}

pub fn show_val(v: &[u8]) -> String {
    if v.len() <= 16 {
        esc(v)
    } else {
        format!("{}..({}B)", esc(&v[..8]), v.len())
    }
}

fn show_opt(v: &Option<Vec<u8>>) -> String {
    match v {
        Some(v) => show_val(v),
        None => "KeyNotFound".into(),
    }
}

impl World {
    pub fn new(cfgs: Vec<Cfg>, keys: Vec<Vec<u8>>, eager: bool, checks: Checks) -> Self {
        World {
            fs: VerifFs::new(),
            cfg: cfgs[0],
            cfgs,
            keys,
            db: None,
            model: Model::new(),
            snaps: vec![],
            iter: None,
            stamp: 0,
            eager,
            checks,
            shape: Shape::default(),
            last_desc_ok: true,
        }
    }

    pub fn open(&mut self) -> VResult<()> {
        let opts = db_options(&self.fs, &self.cfg);
        match DB::open(opts) {
            Ok(db) => {
                self.db = Some(db);
                Ok(())
            }
            Err(e) => Err(Violation::new("open.err", format!("DB::open failed: {}", e))),
        }
    }

    pub fn close(&mut self) {
        self.iter = None;
        if let Some(db) = self.db.as_ref() {
            for (s, _) in self.snaps.drain(..) {
                db.release_snapshot(s);
            }
        }
        self.db = None;
    }

    pub fn db(&self) -> &DB {
        self.db.as_ref().expect("db open")
    }

    /// Let background work run until it blocks (single-schedule policies only).
    pub fn quiesce(&self) {
        if parking_lot::verif_rt::in_execution() {
            shuttle::thread::yield_now();
        }
    }

    pub fn enabled(&self, op: &Op) -> bool {
        match op {
            Op::Release(i) => (*i as usize) < self.snaps.len(),
            Op::Snap => self.snaps.len() < self.cfgs[0].max_snapshots,
            Op::Iter => self.iter.is_none(),
            Op::DropIter => self.iter.is_some(),
            Op::Reopen(_) => self.snaps.is_empty() && self.iter.is_none(),
            Op::CloseHoldingIter | Op::ReopenUnderLiveIter => self.snaps.is_empty() && self.iter.is_some(),
            _ => true,
        }
    }

    fn write_result(&self, what: &str, r: Result<(), RainDBError>) -> VResult<()> {
        r.map_err(|e| Violation::new("write.err", format!("{} returned an error with no fault injected: {}", what, e)))
    }

    /// Apply one operation to the database and to the model.
    pub fn apply(&mut self, op: &Op) -> VResult<()> {
        match op {
            Op::Put(k, class) => {
                self.stamp += 1;
                let key = self.keys[*k as usize].clone();
                let val = value_for(self.stamp, *k, *class, &self.cfg);
                let r = self.db().put(WriteOptions::default(), key.clone(), val.clone());
                self.write_result("put", r)?;
                self.model.insert(key, val);
            }
            Op::Del(k) => {
                self.stamp += 1;
                let key = self.keys[*k as usize].clone();
                let r = self.db().delete(WriteOptions::default(), key.clone());
                self.write_result("delete", r)?;
                self.model.remove(&key);
            }
            Op::Batch(items) => {
                self.stamp += 1;
                let mut b = Batch::new();
                let mut staged: Vec<(Vec<u8>, Option<Vec<u8>>)> = vec![];
                for (j, (k, is_put)) in items.iter().enumerate() {
                    let key = self.keys[*k as usize].clone();
                    if *is_put {
                        let val = value_for(self.stamp * 10 + j as u64, *k, 0, &self.cfg);
                        b.add_put(key.clone(), val.clone());
                        staged.push((key, Some(val)));
                    } else {
                        b.add_delete(key.clone());
                        staged.push((key, None));
                    }
                }
                let r = self.db().apply(WriteOptions::default(), b);
                self.write_result("apply", r)?;
                for (k, v) in staged {
                    match v {
                        Some(v) => {
                            self.model.insert(k, v);
                        }
                        None => {
                            self.model.remove(&k);
                        }
                    }
                }
            }
            Op::BatchBig(items) => {
                self.stamp += 1;
                let mut b = Batch::new();
                let mut staged: Vec<(Vec<u8>, Vec<u8>)> = vec![];
                for (j, k) in items.iter().enumerate() {
                    let key = self.keys[*k as usize].clone();
                    let val = value_for(self.stamp * 10 + j as u64, *k, if j == 0 { 1 } else { 0 }, &self.cfg);
                    b.add_put(key.clone(), val.clone());
                    staged.push((key, val));
                }
                let r = self.db().apply(WriteOptions::default(), b);
                self.write_result("apply", r)?;
                for (k, v) in staged {
                    self.model.insert(k, v);
                }
            }
            Op::Flush => {
                let before = self.dump_if_diff()?;
                let z = flush_key();
                self.db().compact_range(Some(&z[..])..Some(&z[..]));
                self.compare_dump("flush", before)?;
            }
            Op::Compact(a, b) => {
                let before = self.dump_if_diff()?;
                let ka = a.map(|i| self.keys[i as usize].clone());
                let kb = b.map(|i| self.keys[i as usize].clone());
                self.db().compact_range(ka.as_deref()..kb.as_deref());
                self.compare_dump("compact_range", before)?;
            }
            Op::Reopen(c) => {
                self.close();
                self.cfg = self.cfgs[*c as usize % self.cfgs.len()];
                self.open()?;
            }
            Op::Quiesce => {
                let before = self.dump_if_diff()?;
                self.quiesce();
                self.compare_dump("quiesce", before)?;
            }
            Op::Snap => {
                let s = self.db().get_snapshot();
                self.snaps.push((s, self.model.clone()));
            }
            Op::Release(i) => {
                let (s, _) = self.snaps.remove(*i as usize);
                self.db().release_snapshot(s);
            }
            Op::Iter => {
                let it = self
                    .db()
                    .new_iterator(ReadOptions::default())
                    .map_err(|e| Violation::new("iter.err", format!("new_iterator failed: {}", e)))?;
                self.iter = Some((Box::new(it), self.model.clone()));
            }
            Op::DropIter => {
                self.iter = None;
            }
            Op::IterSeekMany(k, n) => {
                let key = self.keys[*k as usize].clone();
                // the first visible key at or after `key`, with its value
                let want = self.model.range(key.clone()..).next().map(|(k, v)| (k.clone(), v.clone()));
                for _ in 0..*n {
                    let it = self
                        .db()
                        .new_iterator(ReadOptions::default())
                        .map_err(|e| Violation::new("iter.err", format!("new_iterator failed: {}", e)))?;
                    let mut it: DbIter = Box::new(it);
                    it.seek(&key).map_err(|e| Violation::new("C04.err", format!("seek({}) failed: {}", esc(&key), e)))?;
                    let got = if it.is_valid() { it.current().map(|(k, v)| (k.clone(), v.clone())) } else { None };
                    if got != want {
                        return Err(Violation::new(
                            "C04.cursor",
                            format!(
                                "a fresh iterator after seek({}) is at {:?} but a sorted map would be at {:?}",
                                esc(&key),
                                got.as_ref().map(|(k, v)| format!("{}={}", esc(k), show_val(v))),
                                want.as_ref().map(|(k, v)| format!("{}={}", esc(k), show_val(v)))
                            ),
                        ));
                    }
                }
            }
            Op::PutMany(k, n) => {
                let key = self.keys[*k as usize].clone();
                for _ in 0..*n {
                    self.stamp += 1;
                    let val = value_for(self.stamp, *k, 0, &self.cfg);
                    let r = self.db().put(WriteOptions::default(), key.clone(), val.clone());
                    self.write_result("put", r)?;
                    self.model.insert(key.clone(), val);
                }
            }
            Op::GetMany(k, n) => {
                let key = self.keys[*k as usize].clone();
                let want = self.model.get(&key).cloned();
                for _ in 0..*n {
                    let got = db_get(self.db(), &key, None)
                        .map_err(|e| Violation::new("C01.get_err", format!("get({}) failed: {}", esc(&key), e)))?;
                    if got != want {
                        return Err(Violation::new(
                            "C01.get",
                            format!("get({}) = {} but model says {}", esc(&key), show_opt(&got), show_opt(&want)),
                        ));
                    }
                }
            }
            Op::Get(k) => {
                let key = self.keys[*k as usize].clone();
                let want = self.model.get(&key).cloned();
                let got = db_get(self.db(), &key, None)
                    .map_err(|e| Violation::new("C01.get_err", format!("get({}) failed: {}", esc(&key), e)))?;
                if got != want {
                    return Err(Violation::new(
                        "C01.get",
                        format!("get({}) = {} but model says {}", esc(&key), show_opt(&got), show_opt(&want)),
                    ));
                }
            }
            Op::Desc(d) => {
                let desc = match d {
                    0..=7 => DatabaseDescriptor::NumFilesAtLevel(*d as usize),
                    8 => DatabaseDescriptor::Stats,
                    _ => DatabaseDescriptor::SSTables,
                };
                let r = self.db().get_descriptor(desc);
                match (d, r) {
                    (7, Ok(s)) => {
                        return Err(Violation::new(
                            "C09.desc",
                            format!("NumFilesAtLevel(7) should be rejected, got {}", s),
                        ))
                    }
                    (7, Err(_)) => {}
                    (_, Err(e)) => return Err(Violation::new("C09.desc", format!("descriptor {} failed: {}", d, e))),
                    _ => {}
                }
            }
            Op::Scan => {
                self.check_scan(None, &self.model.clone(), "C04.scan")?;
            }
            Op::CloseHoldingIter => {
                // nothing in the API ties the iterator's lifetime to the database handle
                self.db = None;
                if let Some((it, frozen)) = self.iter.as_mut() {
                    let want: Vec<(Vec<u8>, Vec<u8>)> = frozen.iter().map(|(k, v)| (k.clone(), v.clone())).collect();
                    let got = scan_forward(it).map_err(|e| Violation::new("C03.iter_scan", format!("iterator scan after close failed: {}", e)))?;
                    if got != want {
                        return Err(Violation::new("C03.iter_scan", "an iterator outliving its database handle no longer yields its frozen state".into()));
                    }
                }
                self.iter = None;
                self.open()?;
            }
            Op::ReopenUnderLiveIter => {
                self.db = None;
                let opened = DB::open(db_options(&self.fs, &self.cfg));
                let refused = opened.is_err();
                if let Ok(db) = opened {
                    self.db = Some(db);
                    // the new owner rewrites everything and lets the garbage collection run
                    for k in 0..self.keys.len() {
                        self.stamp += 1;
                        let key = self.keys[k].clone();
                        let val = value_for(self.stamp, k as u8, 0, &self.cfg);
                        let r = self.db().put(WriteOptions::default(), key.clone(), val.clone());
                        self.write_result("put", r)?;
                        self.model.insert(key, val);
                    }
                    let z = flush_key();
                    self.db().compact_range(Some(&z[..])..Some(&z[..]));
                    self.db().compact_range(None..None);
                    self.quiesce();
                }
                if let Some((it, frozen)) = self.iter.as_mut() {
                    let want: Vec<(Vec<u8>, Vec<u8>)> = frozen.iter().map(|(k, v)| (k.clone(), v.clone())).collect();
                    let got = scan_forward(it).map_err(|e| {
                        Violation::new(
                            "C11.live_deleted",
                            format!("the iterator of a closed handle fails after the directory was opened again and compacted by a new owner (the open was {}): {}", if refused { "refused" } else { "accepted" }, e),
                        )
                    })?;
                    if got != want {
                        return Err(Violation::new(
                            "C11.live_deleted",
                            format!("the iterator of a closed handle no longer yields its frozen state after the directory was opened again and compacted by a new owner (the open was {})", if refused { "refused" } else { "accepted" }),
                        ));
                    }
                }
                self.iter = None;
                if self.db.is_none() {
                    self.open()?;
                }
            }
        }
        if self.eager && !matches!(op, Op::Quiesce) {
            self.quiesce();
        }
        Ok(())
    }

    // ---- C07 differential dump ---------------------------------------------------------------

    fn dump(&self) -> VResult<Vec<String>> {
        let mut out = vec![];
        let db = self.db();
        let mut views: Vec<Option<&Snapshot>> = vec![None];
        for (s, _) in self.snaps.iter() {
            views.push(Some(s));
        }
        for (vi, view) in views.iter().enumerate() {
            for k in self.keys.iter() {
                let got = db_get(db, k, *view).map_err(|e| Violation::new("C07.read_err", format!("get failed: {}", e)))?;
                out.push(format!("v{} get {} = {}", vi, esc(k), show_opt(&got)));
            }
            let ro = ReadOptions {
                fill_cache: true,
                snapshot: view.cloned(),
            };
            let it = db
                .new_iterator(ro)
                .map_err(|e| Violation::new("C07.read_err", format!("new_iterator failed: {}", e)))?;
            let mut it: DbIter = Box::new(it);
            let kv = scan_forward(&mut it).map_err(|e| Violation::new("C07.read_err", format!("scan failed: {}", e)))?;
            out.push(format!("v{} scan {}", vi, show_kv(&kv)));
        }
        Ok(out)
    }

    fn dump_if_diff(&self) -> VResult<Option<Vec<String>>> {
        if self.checks.diff {
            Ok(Some(self.dump()?))
        } else {
            Ok(None)
        }
    }

    fn compare_dump(&self, what: &str, before: Option<Vec<String>>) -> VResult<()> {
        if let Some(before) = before {
            let after = self.dump()?;
            if before != after {
                let diff: Vec<String> = before
                    .iter()
                    .zip(after.iter())
                    .filter(|(a, b)| a != b)
                    .map(|(a, b)| format!("[{}] -> [{}]", a, b))
                    .collect();
                return Err(Violation::new(
                    "C07.diff",
                    format!("contents changed across {}: {}", what, diff.join("; ")),
                ));
            }
            // once more after background work went idle
            self.quiesce();
            let after2 = self.dump()?;
            if before != after2 {
                return Err(Violation::new(
                    "C07.diff",
                    format!("contents changed after background work following {} went idle", what),
                ));
            }
        }
        Ok(())
    }

    // ---- oracles -------------------------------------------------------------------------------

    fn check_scan(&self, snap: Option<&Snapshot>, want: &Model, clause: &str) -> VResult<()> {
        let ro = ReadOptions {
            fill_cache: true,
            snapshot: snap.cloned(),
        };
        let it = self
            .db()
            .new_iterator(ro)
            .map_err(|e| Violation::new("iter.err", format!("new_iterator failed: {}", e)))?;
        let mut it: DbIter = Box::new(it);
        let want_v = model_vec(want);
        let fwd = scan_forward(&mut it).map_err(|e| Violation::new(clause, format!("forward scan failed: {}", e)))?;
        if fwd != want_v {
            return Err(Violation::new(
                clause,
                format!("forward scan = [{}] but model = [{}]", show_kv(&fwd), show_kv(&want_v)),
            ));
        }
        let bwd = scan_backward(&mut it).map_err(|e| Violation::new(clause, format!("backward scan failed: {}", e)))?;
        if bwd != want_v {
            return Err(Violation::new(
                clause,
                format!("backward scan = [{}] but model = [{}]", show_kv(&bwd), show_kv(&want_v)),
            ));
        }
        Ok(())
    }

    pub fn check_reads(&self) -> VResult<()> {
        let db = self.db();
        for k in self.keys.iter() {
            let want = self.model.get(k).cloned();
            let got = db_get(db, k, None)
                .map_err(|e| Violation::new("C01.get_err", format!("get({}) failed with no fault injected: {}", esc(k), e)))?;
            if got != want {
                return Err(Violation::new(
                    "C01.get",
                    format!("get({}) = {} but model says {}", esc(k), show_opt(&got), show_opt(&want)),
                ));
            }
        }
        Ok(())
    }

    pub fn check_snapshots(&mut self) -> VResult<()> {
        for (si, (s, frozen)) in self.snaps.iter().enumerate() {
            for k in self.keys.iter() {
                let want = frozen.get(k).cloned();
                let got = db_get(self.db(), k, Some(s))
                    .map_err(|e| Violation::new("C03.get_err", format!("get({}, snap{}) failed: {}", esc(k), si, e)))?;
                if got != want {
                    return Err(Violation::new(
                        "C03.snap_get",
                        format!(
                            "get({}, snap{}) = {} but the snapshot's frozen model says {}",
                            esc(k),
                            si,
                            show_opt(&got),
                            show_opt(&want)
                        ),
                    ));
                }
            }
            self.check_scan(Some(s), frozen, "C03.snap_scan")?;
        }
        if let Some((it, frozen)) = self.iter.as_mut() {
            let want_v = model_vec(frozen);
            let fwd = scan_forward(it).map_err(|e| Violation::new("C03.iter_scan", format!("held iterator scan failed: {}", e)))?;
            if fwd != want_v {
                return Err(Violation::new(
                    "C03.iter_scan",
                    format!("held iterator yields [{}] but its frozen model is [{}]", show_kv(&fwd), show_kv(&want_v)),
                ));
            }
            let bwd = scan_backward(it).map_err(|e| Violation::new("C03.iter_scan", format!("held iterator scan failed: {}", e)))?;
            if bwd != want_v {
                return Err(Violation::new(
                    "C03.iter_scan",
                    format!(
                        "held iterator (backward) yields [{}] but its frozen model is [{}]",
                        show_kv(&bwd),
                        show_kv(&want_v)
                    ),
                ));
            }
        }
        Ok(())
    }

    pub fn check_layout(&self) -> VResult<()> {
        let db = self.db();
        let layout = db.verif_layout();
        check_layout_wellformed(db, &layout, true)?;
        Ok(())
    }

    /// C11 (a): exactly the needed files are on disk. Precondition: no live snapshot / iterator.
    pub fn check_files(&mut self) -> VResult<()> {
        if !self.snaps.is_empty() || self.iter.is_some() {
            return self.check_live_files_exist();
        }
        // one reclamation opportunity: flush the (possibly empty) memtable, background idle
        let z = flush_key();
        self.db().compact_range(Some(&z[..])..Some(&z[..]));
        self.quiesce();
        check_directory(self.db(), &self.fs)
    }

    /// every table of the current layout exists on disk
    pub fn check_live_files_exist(&self) -> VResult<()> {
        let layout = self.db().verif_layout();
        let data = std::path::Path::new(DB_PATH).join("data");
        let have: Vec<String> = self.fs.file_names_in(&data);
        for files in layout.iter() {
            for f in files {
                let name = format!("{}.rdb", f.number);
                if !have.contains(&name) {
                    return Err(Violation::new(
                        "C11.live_deleted",
                        format!("table {} is part of the current version but not on disk", name),
                    ));
                }
            }
        }
        Ok(())
    }

    pub fn check_all(&mut self) -> VResult<()> {
        if self.checks.reads {
            self.check_reads()?;
        }
        if self.checks.scan {
            self.check_scan(None, &self.model.clone(), "C04.scan")?;
        }
        if self.checks.snapshots {
            self.check_snapshots()?;
        }
        if self.checks.layout {
            self.check_layout()?;
        }
        if self.checks.files {
            self.check_files()?;
            // the reclamation opportunity must not have changed contents
            if self.checks.reads {
                self.check_reads()?;
            }
        }
        Ok(())
    }

    /// Canonical abstract state (evidence only: distinct states visited) and shape counters.
    pub fn state_hash_and_shape(&self) -> (u64, Shape) {
        use std::hash::{Hash, Hasher};
        let mut h = std::collections::hash_map::DefaultHasher::new();
        let mut shape = Shape::default();
        self.model.hash(&mut h);
        if let Some(db) = self.db.as_ref() {
            let layout = db.verif_layout();
            let mut total = 0u64;
            for (lvl, files) in layout.iter().enumerate() {
                lvl.hash(&mut h);
                total += files.len() as u64;
                if lvl == 0 {
                    shape.max_l0 = files.len() as u64;
                } else {
                    shape.max_level_files = shape.max_level_files.max(files.len() as u64);
                }
                if !files.is_empty() {
                    shape.deepest_level = lvl as u64;
                }
                for f in files {
                    f.smallest.hash(&mut h);
                    f.largest.hash(&mut h);
                    f.size.hash(&mut h);
                }
            }
            shape.max_total_files = total;
            let info = db.verif_info();
            info.memtable_entries.hash(&mut h);
            info.immutable_entries.hash(&mut h);
            info.has_immutable_memtable.hash(&mut h);
            if info.has_immutable_memtable {
                shape.imm_seen = 1;
            }
        }
        self.snaps.len().hash(&mut h);
        for (_, m) in self.snaps.iter() {
            m.hash(&mut h);
        }
        self.iter.is_some().hash(&mut h);
        self.cfg.hash(&mut h);
        (h.finish(), shape)
    }
}

fn ikey_cmp(a: &(Vec<u8>, u64, bool), b: &(Vec<u8>, u64, bool)) -> std::cmp::Ordering {
    // internal key order: user key ascending, sequence descending, operation (put=1 > delete=0) descending
    a.0.cmp(&b.0).then(b.1.cmp(&a.1)).then(b.2.cmp(&a.2))
}

fn show_ikey(k: &(Vec<u8>, u64, bool)) -> String {
    format!("{}@{}{}", esc(&k.0), k.1, if k.2 { "" } else { "(del)" })
}

/// C10: the reported shape is well formed.
pub fn check_layout_wellformed(db: &DB, layout: &[Vec<VerifFileMeta>], check_entries: bool) -> VResult<()> {
    let mut seen = std::collections::BTreeSet::new();
    for (lvl, files) in layout.iter().enumerate() {
        for f in files.iter() {
            if !seen.insert(f.number) {
                return Err(Violation::new(
                    "C10.dup_file",
                    format!("file number {} appears twice in the layout", f.number),
                ));
            }
            if ikey_cmp(&f.smallest, &f.largest) == std::cmp::Ordering::Greater {
                return Err(Violation::new(
                    "C10.bounds_order",
                    format!(
                        "level {} file {}: smallest {} > largest {}",
                        lvl,
                        f.number,
                        show_ikey(&f.smallest),
                        show_ikey(&f.largest)
                    ),
                ));
            }
            if check_entries {
                let entries: Vec<VerifEntry> = db.verif_file_entries(f.number).map_err(|e| {
                    Violation::new("C10.file_unreadable", format!("file {} cannot be read: {}", f.number, e))
                })?;
                if entries.is_empty() {
                    return Err(Violation::new("C10.empty_file", format!("file {} holds no entries", f.number)));
                }
                let first = &entries[0];
                let last = &entries[entries.len() - 1];
                let fk = (first.0.clone(), first.1, first.2);
                let lk = (last.0.clone(), last.1, last.2);
                if fk != f.smallest || lk != f.largest {
                    return Err(Violation::new(
                        "C10.bounds_content",
                        format!(
                            "level {} file {}: metadata [{}..{}] but contents [{}..{}]",
                            lvl,
                            f.number,
                            show_ikey(&f.smallest),
                            show_ikey(&f.largest),
                            show_ikey(&fk),
                            show_ikey(&lk)
                        ),
                    ));
                }
                for w in entries.windows(2) {
                    let a = (w[0].0.clone(), w[0].1, w[0].2);
                    let b = (w[1].0.clone(), w[1].1, w[1].2);
                    if ikey_cmp(&a, &b) != std::cmp::Ordering::Less {
                        return Err(Violation::new(
                            "C10.file_unsorted",
                            format!("file {}: entries out of order {} then {}", f.number, show_ikey(&a), show_ikey(&b)),
                        ));
                    }
                }
            }
        }
        if lvl >= 1 {
            for w in files.windows(2) {
                if ikey_cmp(&w[0].largest, &w[1].smallest) != std::cmp::Ordering::Less {
                    return Err(Violation::new(
                        "C10.overlap",
                        format!(
                            "level {}: file {} [..{}] is not strictly before file {} [{}..]",
                            lvl,
                            w[0].number,
                            show_ikey(&w[0].largest),
                            w[1].number,
                            show_ikey(&w[1].smallest)
                        ),
                    ));
                }
            }
        }
    }
    // descriptors agree with the structured view
    for (lvl, files) in layout.iter().enumerate() {
        match db.get_descriptor(DatabaseDescriptor::NumFilesAtLevel(lvl)) {
            Ok(s) => {
                if s != files.len().to_string() {
                    return Err(Violation::new(
                        "C10.desc_mismatch",
                        format!("NumFilesAtLevel({}) = {} but the layout has {}", lvl, s, files.len()),
                    ));
                }
            }
            Err(e) => return Err(Violation::new("C10.desc_err", format!("NumFilesAtLevel({}) failed: {}", lvl, e))),
        }
    }
    match db.get_descriptor(DatabaseDescriptor::SSTables) {
        Ok(text) => {
            let mut lvl = 0usize;
            let mut per_level: Vec<Vec<u64>> = vec![vec![]; layout.len()];
            let mut lines_of: std::collections::BTreeMap<u64, String> = Default::default();
            for line in text.lines() {
                if let Some(rest) = line.strip_prefix("--- Level ") {
                    lvl = rest.trim_end_matches(" ---").parse().unwrap_or(0);
                } else if let Some(num) = line.split(' ').next().and_then(|s| s.parse::<u64>().ok()) {
                    if lvl < per_level.len() {
                        per_level[lvl].push(num);
                    }
                    lines_of.insert(num, line.to_string());
                }
            }
            // the key range printed for every file is the file's range: number, size, smallest and
            // largest internal key (user key as lossy UTF-8 with debug escapes, sequence number,
            // operation) — rendered here from the structured layout and compared literally
            let show = |k: &(Vec<u8>, u64, bool)| format!("{} @ {} : {}", String::from_utf8_lossy(&k.0).escape_debug(), k.1, if k.2 { "Put" } else { "Delete" });
            for f in layout.iter().flatten() {
                let want = format!("{} (size: {})[{}..{}]", f.number, f.size, show(&f.smallest), show(&f.largest));
                if let Some(got) = lines_of.get(&f.number) {
                    if *got != want {
                        let cut = |s: &str| s.chars().take(160).collect::<String>();
                        return Err(Violation::new(
                            "C10.desc_mismatch",
                            format!("SSTables reports `{}` for file {} but its range in the layout is `{}`", cut(got), f.number, cut(&want)),
                        ));
                    }
                }
            }
            for (lvl, files) in layout.iter().enumerate() {
                let nums: Vec<u64> = files.iter().map(|f| f.number).collect();
                if per_level[lvl] != nums {
                    return Err(Violation::new(
                        "C10.desc_mismatch",
                        format!("SSTables lists {:?} at level {} but the layout has {:?}", per_level[lvl], lvl, nums),
                    ));
                }
            }
        }
        Err(e) => return Err(Violation::new("C10.desc_err", format!("SSTables failed: {}", e))),
    }
    Ok(())
}

/// C11: directory contents == exactly what the current state needs.
pub fn check_directory(db: &DB, fs: &VerifFs) -> VResult<()> {
    let info = db.verif_info();
    let layout = db.verif_layout();
    let root = std::path::PathBuf::from(DB_PATH);
    let mut want_data: Vec<String> = layout.iter().flatten().map(|f| format!("{}.rdb", f.number)).collect();
    want_data.sort();
    let mut have_data = fs.file_names_in(&root.join("data"));
    have_data.sort();
    if want_data != have_data {
        return Err(Violation::new(
            "C11.tables",
            format!(
                "data directory holds {:?} but the current version needs exactly {:?} (live versions: {}, live files: {:?})",
                have_data, want_data, info.num_versions, info.live_files
            ),
        ));
    }
    let have_wal = fs.file_names_in(&root.join("wal"));
    for w in have_wal.iter() {
        let num: Option<u64> = w.strip_prefix("wal-").and_then(|s| s.strip_suffix(".log")).and_then(|s| s.parse().ok());
        match num {
            Some(n) if n >= info.version_wal_number => {}
            _ => {
                return Err(Violation::new(
                    "C11.wals",
                    format!("wal directory holds {:?} but only WALs >= {} are needed", have_wal, info.version_wal_number),
                ))
            }
        }
    }
    let cur = format!("wal-{}.log", info.db_wal_number);
    if !have_wal.contains(&cur) {
        return Err(Violation::new(
            "C11.wal_missing",
            format!("the current WAL {} is not on disk (have {:?})", cur, have_wal),
        ));
    }
    let mut have_root = fs.file_names_in(&root);
    have_root.sort();
    let mut want_root = vec![
        "CURRENT".to_string(),
        "LOCK".to_string(),
        format!("MANIFEST-{}.manifest", info.manifest_number),
    ];
    want_root.sort();
    if have_root != want_root {
        return Err(Violation::new(
            "C11.root",
            format!("database directory holds {:?} but exactly {:?} are needed", have_root, want_root),
        ));
    }
    Ok(())
}
