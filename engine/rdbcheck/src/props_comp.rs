//! Property checks decided by exhaustive component-input enumeration: C12 C13 C14.

use std::sync::Arc;
use std::time::{Duration, Instant};

use serde_json::json;

use crate::compx::*;
use crate::crashx::pool;
use crate::props_seq::workers;
use crate::report::{Finding, Report};
use crate::shm::*;

fn budget(tier: &str, quick_s: u64, thorough_s: u64) -> Duration {
    match std::env::var("RDBCHECK_BUDGET_S").ok().and_then(|s| s.parse().ok()) {
        Some(s) => Duration::from_secs(s),
        None => {
            if tier == "thorough" {
                crate::report::scaled(Duration::from_secs(thorough_s))
            } else {
                Duration::from_secs(quick_s)
            }
        }
    }
}

fn collect(rep: &mut Report, shm: &Shm, label: &str) {
    let mut per_clause: std::collections::BTreeMap<String, usize> = Default::default();
    for (clause, detail, case) in parse_found(shm) {
        let n = per_clause.entry(clause.clone()).or_insert(0);
        *n += 1;
        if *n <= 200 {
            rep.findings.push(Finding {
                clause,
                detail,
                ops: vec![label.to_string(), case.to_string()],
                artefact: json!({"explorer": "compx", "component": label, "case": case}),
            });
        } else {
            rep.extra_violations += 1;
        }
    }
    rep.extra_violations += shm.get(C_LOG_DROPPED);
}

fn replay_comp(check_filters: bool) {
    if let Some(req) = crate::report::replay_request("compx") {
        let case = &req["artefact"]["case"];
        let shm = Shm::new(1 << 4, 1 << 20);
        if let Some(lens) = case["record_lengths"].as_array() {
            let c = LogCase {
                lens: lens.iter().map(|x| x.as_u64().unwrap_or(0) as usize).collect(),
                split: case["writer_reopened_before_record_mask"].as_u64().unwrap_or(0) as u32,
                truncations: true,
                stop_between_fragments: true,
            };
            log_case(&c, &shm);
        } else {
            let ix = |k: &str| case[k].as_array().map(|a| a.iter().map(|x| x.as_u64().unwrap_or(0) as usize).collect::<Vec<_>>()).unwrap_or_default();
            let c = TableCase {
                keys: ix("keys"),
                patterns: ix("patterns"),
                block_size: case["max_block_size"].as_u64().unwrap_or(1) as usize,
                variant: case["variant"].as_u64().unwrap_or(0) as usize,
                big_values: case["big_values"].as_bool().unwrap_or(false),
                sweep_len: case["sweep_len"].as_u64().map(|x| x as usize),
                long_run: case["long_run"].as_u64().map(|x| x as usize),
                wide: case["wide"].as_array().map(|a| (a[0].as_u64().unwrap_or(0) as usize, a[1].as_u64().unwrap_or(0) as usize)),
            };
            table_case(&c, &shm, check_filters, 3);
        }
        let f = parse_found(&shm);
        crate::report::replay_done(f.first().map(|(c, d, _)| (c.clone(), d.clone())));
    }
}

pub fn c12(tier: &str) -> ! {
    replay_comp(false);
    let mut rep = Report::new("C12", tier, "exploration");
    let t = tier == "thorough";
    let cases = Arc::new(log_cases(t));
    let shm = Arc::new(Shm::new(1 << 10, 16 << 20));
    let shm2 = Arc::clone(&shm);
    let cases2 = Arc::clone(&cases);
    let (capped, machinery) = pool(cases.len(), workers(), &shm, Some(Instant::now() + budget(tier, 45, 2400)), move |j| log_case(&cases2[j], &shm2));
    for m in machinery {
        rep.machinery.push(m);
    }
    // damaged fragments of multi-fragment records: nothing that was not appended is ever returned
    for c in log_corruption_cases() {
        log_corruption_case(&c, &shm, "C12.record_not_appended");
    }
    rep.cov("corrupted_fragment_reads", json!(shm.get(C_USER + 4)));
    if shm.get(C_MACHINERY) > 0 {
        rep.machinery.push(format!("{} jobs died", shm.get(C_MACHINERY)));
    }
    collect(&mut rep, &shm, "log");
    rep.cov("evaluations", json!(shm.get(C_CASES)));
    rep.cov("distinct_nontrivial", json!(shm.get(C_NONTRIVIAL)));
    rep.cov("exhaustive", json!(!capped));
    rep.cov("files_written", json!(cases.len()));
    rep.cov("truncated_reads", json!(shm.get(C_USER)));
    rep.cov("append_after_partial_record_cases", json!(shm.get(C_USER + 1)));
    rep.cov("rule", json!("one evaluation = one log file written through the real LogWriter (record-length triples placing the write position at every residue 0..16 (thorough 0..32) before a block end, second record from the classes {0..16} u {B-H-8..B-H+8} u {2(B-H)-8..+8} u {3B} (thorough: twice as wide, third record from {0,1,7,100,B-H,B+1}), every way of re-opening the writer between appends) read back through the real LogReader and compared byte for byte; or one truncation of such a file (every byte for files < 1 KiB; +-16 around every fragment, header and block boundary plus a stride of 997 otherwise) where the reader must return exactly the records wholly inside the prefix; or one 'writer stopped between two fragments, new writer appends two records' file. distinct_nontrivial = evaluations whose file has a multi-fragment record, a zero-padded trailer or a writer re-opening"));
    for c in cases.iter().step_by((cases.len() / 4).max(1)).take(4) {
        rep.cov_push("samples", json!({"record_lengths": c.lens, "reopen_mask": c.split, "truncations": c.truncations, "stop_between_fragments": c.stop_between_fragments}));
    }
    rep.assume("record payloads are position-dependent byte patterns; lengths are enumerated around the block arithmetic (header 7, block 32768), not over all lengths");
    rep.assume("the physical layout reference (fragment boundaries) is recomputed by the harness from the documented format and cross-checked against the file length");
    rep.finish()
}

pub fn c13(tier: &str) -> ! {
    replay_comp(false);
    let mut rep = Report::new("C13", tier, "exploration");
    let t = tier == "thorough";
    let mut cases = if t { table_cases(4, &[1, 16, 64, 256, 4096, 1 << 20], 2) } else { table_cases(3, &[1, 16, 64, 256, 1 << 20], 2) };
    cases.extend(long_run_cases());
    cases.extend(wide_cases());
    // tables whose blocks start at every residue of the 2 KiB filter ranges (3000-byte values,
    // 1-byte blocks, and a sweep of the first block's length over a whole range): a point lookup
    // goes through the filter that belongs to the block's offset
    cases.extend(filter_table_cases());
    let cases = Arc::new(cases);
    let cursor_len = if t { 3 } else { 3 };
    let shm = Arc::new(Shm::new(1 << 10, 16 << 20));
    let (shm2, cases2) = (Arc::clone(&shm), Arc::clone(&cases));
    let chunk = 50usize;
    let n_jobs = (cases.len() + chunk - 1) / chunk;
    let total = cases.len();
    let (capped, machinery) = pool(n_jobs, workers(), &shm, Some(Instant::now() + budget(tier, 45, 2400)), move |j| {
        for i in (j * chunk)..((j + 1) * chunk).min(total) {
            table_case(&cases2[i], &shm2, false, cursor_len);
        }
    });
    for m in machinery {
        rep.machinery.push(m);
    }
    if shm.get(C_MACHINERY) > 0 {
        rep.machinery.push(format!("{} jobs died", shm.get(C_MACHINERY)));
    }
    collect(&mut rep, &shm, "table");
    rep.cov("evaluations", json!(shm.get(C_CASES)));
    rep.cov("distinct_nontrivial", json!(shm.get(C_NONTRIVIAL)));
    rep.cov("exhaustive", json!(!capped));
    rep.cov("point_probes", json!(shm.get(C_USER)));
    rep.cov("cursor_steps_checked", json!(shm.get(C_USER + 1)));
    rep.cov("max_blocks_in_a_table", json!(shm.get(C_MAX_FILE_ENTRIES)));
    rep.cov("rule", json!("one evaluation = one table file built with the real TableBuilder from a sorted entry set (every subset of <= 3 (thorough 4) of 8 boundary user keys {'', 00, a, a00, ab, b, ff, ffff}, each key with one of 5 version patterns of puts/deletes, value sizes from {0,1,100,5000}, max_block_size in {1,16,64,256,1 MiB} (thorough also 4096); plus long runs of 15..100 shared-prefix keys so that blocks hold more entries than the restart interval of 16, block sizes {64,256,1024,1 MiB}; plus keys of length {1,126..129,255,256,16382..16385} that share all but their last byte, with values of length {0,1,127,128,16383,16384,70000}: the boundaries of the varint coding of shared / unshared / value lengths; plus the filter-layout tables of C14: 3000-byte values, 1-byte blocks and a sweep of the first block's length over 1900..4148 bytes so that the following blocks start at every residue of the 2 KiB filter ranges) and read with the real Table (Bloom filter policy, 10 bits per key): forward and backward iteration equal the entries; for every probe (17 keys incl. separators x every sequence bound 0..n+2 and MAX) seek lands on the first entry not less than the target and get answers Value / Deleted / NotInFile like the vector model; every cursor program of length <= 2 (thorough 3) over {first,last,next,prev,seek(entry)} follows the model cursor. distinct_nontrivial = tables with more than one data block or more than 3 entries"));
    for c in cases.iter().step_by((cases.len() / 3).max(1)).take(3) {
        rep.cov_push("samples", table_case_json(c));
    }
    rep.assume("bounded-exhaustive over the stated entry sets; not a statement about all sorted runs");
    rep.finish()
}

pub fn c14(tier: &str) -> ! {
    replay_comp(true);
    let mut rep = Report::new("C14", tier, "exploration");
    let t = tier == "thorough";
    let shm = Arc::new(Shm::new(1 << 10, 16 << 20));
    // (i) the public policy: one job per bits_per_key
    let shm2 = Arc::clone(&shm);
    let max_set = 3;
    let big: Vec<usize> = if t { vec![10, 100, 1000, 5000, 20000] } else { vec![10, 100, 1000] };
    // bits_per_key settings: every value 1..=64 (thorough 1..=128) and a few large ones
    let mut bits: Vec<usize> = (1..=if t { 128 } else { 64 }).collect();
    bits.extend(if t { vec![200, 255, 256, 1000, 4096] } else { vec![100, 1000] });
    let bits = Arc::new(bits);
    let bits2 = Arc::clone(&bits);
    let (capped1, machinery) = pool(bits.len(), workers(), &shm, Some(Instant::now() + budget(tier, 30, 1800)), move |j| bloom_job(bits2[j], &shm2, max_set, &big));
    for m in machinery {
        rep.machinery.push(m);
    }
    // (ii) table level: the C13 tables plus the filter-specific ones
    let mut cases = if t { table_cases(3, &[1, 16, 64, 256, 1 << 20], 1) } else { table_cases(2, &[1, 16, 256, 1 << 20], 1) };
    cases.extend(filter_table_cases());
    cases.extend(long_run_cases());
    cases.extend(wide_cases());
    let cases = Arc::new(cases);
    shm.counter(C_NEXT_TASK).store(0, std::sync::atomic::Ordering::SeqCst);
    shm.counter(C_TASKS_DONE).store(0, std::sync::atomic::Ordering::SeqCst);
    let bloom_cases = shm.get(C_CASES);
    let (shm3, cases3) = (Arc::clone(&shm), Arc::clone(&cases));
    let chunk = 50usize;
    let n_jobs = (cases.len() + chunk - 1) / chunk;
    let total = cases.len();
    let (capped2, machinery) = pool(n_jobs, workers(), &shm, Some(Instant::now() + budget(tier, 20, 1200)), move |j| {
        for i in (j * chunk)..((j + 1) * chunk).min(total) {
            table_case(&cases3[i], &shm3, true, 0);
        }
    });
    for m in machinery {
        rep.machinery.push(m);
    }
    if shm.get(C_MACHINERY) > 0 {
        rep.machinery.push(format!("{} jobs died", shm.get(C_MACHINERY)));
    }
    collect(&mut rep, &shm, "filter");
    // only C14 clauses are verdicts here
    rep.findings.retain(|f| f.clause.starts_with("C14."));
    rep.cov("evaluations", json!(shm.get(C_CASES)));
    rep.cov("distinct_nontrivial", json!(shm.get(C_NONTRIVIAL)));
    rep.cov("exhaustive", json!(!capped1 && !capped2));
    rep.cov("bloom_filters_created", json!(bloom_cases));
    rep.cov("bloom_membership_checks", json!(shm.get(C_USER + 3)));
    rep.cov("tables_checked", json!(cases.len()));
    rep.cov("block_filter_checks", json!(shm.get(C_USER + 2)));
    rep.cov("rule", json!("(i) one evaluation = one filter created by the public BloomFilterPolicy for a key multiset (all multisets of size 0..3 over the 40 byte strings of length 0..3 over {00,61,ff}; generated sets of 10/100/1000(/5000) keys with and without duplicates) for each bits_per_key in 1..=64 u {100, 1000} (thorough 1..=128 u {200,255,256,1000,4096}, sets up to 20000 keys); every member must answer Ok(true), also when the filter is read by a policy constructed with another bits_per_key (the probe count travels in the filter). (ii) one evaluation = one table (C13's sets incl. the varint-boundary tables, plus tables with 3000-byte values and 1-byte .. 1 MiB blocks): for every data block and every user key stored in it the filter block consulted with the block's offset answers 'may match', and get finds every stored (key, seq). distinct_nontrivial = filters over >= 2 keys plus tables with > 1 block or > 3 entries"));
    rep.cov_push("samples", json!({"bloom": {"bits_per_key": 10, "set": ["\"\"", "\\x00", "a\\xff"]}}));
    for c in cases.iter().rev().take(2) {
        rep.cov_push("samples", table_case_json(c));
    }
    rep.assume("bounded-exhaustive statement over the enumerated key sets and table layouts, not a proof for all key sets");
    rep.finish()
}
