//! Property checks decided by exhaustive component-input enumeration: C12 C13 C14.

use std::sync::Arc;
use std::time::{Duration, Instant};

use serde_json::json;

use crate::compx::*;
use crate::crashx::pool;
use crate::props_seq::workers;
use crate::report::{Finding, Report};
use crate::shm::*;

fn budget(tier: &str, quick_s: u64, thorough_s: u64) -> Duration {
    match std::env::var("RDBCHECK_BUDGET_S").ok().and_then(|s| s.parse().ok()) {
        Some(s) => Duration::from_secs(s),
        None => Duration::from_secs(if tier == "thorough" { thorough_s } else { quick_s }),
    }
}

fn collect(rep: &mut Report, shm: &Shm, label: &str) {
    let mut per_clause: std::collections::BTreeMap<String, usize> = Default::default();
    for (clause, detail, case) in parse_found(shm) {
        let n = per_clause.entry(clause.clone()).or_insert(0);
        *n += 1;
        if *n <= 200 {
            rep.findings.push(Finding {
                clause,
                detail,
                ops: vec![label.to_string(), case.to_string()],
                artefact: json!({"explorer": "compx", "component": label, "case": case}),
            });
        } else {
            rep.extra_violations += 1;
        }
    }
    rep.extra_violations += shm.get(C_LOG_DROPPED);
}

pub fn c12(tier: &str) -> ! {
    let mut rep = Report::new("C12", tier, "exploration");
    let t = tier == "thorough";
    let cases = Arc::new(log_cases(t));
    let shm = Arc::new(Shm::new(1 << 10, 16 << 20));
    let shm2 = Arc::clone(&shm);
    let cases2 = Arc::clone(&cases);
    let (capped, machinery) = pool(cases.len(), workers(), &shm, Some(Instant::now() + budget(tier, 45, 2400)), move |j| log_case(&cases2[j], &shm2));
    for m in machinery {
        rep.machinery.push(m);
    }
    if shm.get(C_MACHINERY) > 0 {
        rep.machinery.push(format!("{} jobs died", shm.get(C_MACHINERY)));
    }
    collect(&mut rep, &shm, "log");
    rep.cov("evaluations", json!(shm.get(C_CASES)));
    rep.cov("distinct_nontrivial", json!(shm.get(C_NONTRIVIAL)));
    rep.cov("exhaustive", json!(!capped));
    rep.cov("files_written", json!(cases.len()));
    rep.cov("truncated_reads", json!(shm.get(C_USER)));
    rep.cov("append_after_partial_record_cases", json!(shm.get(C_USER + 1)));
    rep.cov("rule", json!("one evaluation = one log file written through the real LogWriter (record-length triples placing the write position at every residue 0..16 before a block end, second record from the classes {0..16} u {B-H-8..B-H+8} u {2(B-H)-8..+8} u {3B}, every way of re-opening the writer between appends) read back through the real LogReader and compared byte for byte; or one truncation of such a file (every byte for files < 1 KiB; +-16 around every fragment, header and block boundary plus a stride of 997 otherwise) where the reader must return exactly the records wholly inside the prefix; or one 'writer stopped between two fragments, new writer appends two records' file. distinct_nontrivial = evaluations whose file has a multi-fragment record, a zero-padded trailer or a writer re-opening"));
    for c in cases.iter().step_by((cases.len() / 4).max(1)).take(4) {
        rep.cov_push("samples", json!({"record_lengths": c.lens, "reopen_mask": c.split, "truncations": c.truncations, "stop_between_fragments": c.stop_between_fragments}));
    }
    rep.assume("record payloads are position-dependent byte patterns; lengths are enumerated around the block arithmetic (header 7, block 32768), not over all lengths");
    rep.assume("the physical layout reference (fragment boundaries) is recomputed by the harness from the documented format and cross-checked against the file length");
    rep.finish()
}
