#!/usr/bin/env python3
import json, jsonschema, sys, glob
jsonschema.validate(json.load(open('/verif/MANIFEST.json')), json.load(open('/root/.vp/MANIFEST.schema.json')))
es = json.load(open('/root/.vp/EVIDENCE.schema.json'))
for p in sorted(glob.glob('/verif/evidence/*.json')):
    jsonschema.validate(json.load(open(p)), es)
    print('ok', p)
print('manifest ok')
