#!/usr/bin/env python3
"""Generates /verif/MANIFEST.json. Edit CLAIMED / NOT_APPLICABLE here, then run."""
import json, subprocess

HOOK_COMMITS = subprocess.run(
    ["git", "-C", "/repo", "log", "--format=%h %s", "--grep=verif hooks"],
    capture_output=True, text=True).stdout.strip().splitlines()

SEQ_NOTE = ("Trusted base: the shuttle runtime and the parking_lot shim (every lock/unlock/wait/notify of "
            "RainDB is a scheduling point of our scheduler), the in-memory VerifFs, the BTreeMap reference model. "
            "Assumes sequential consistency at scheduling points; bounds (alphabet, keys, configurations, depth) are "
            "stated in the evidence.")

CLAIMED = {
  "C01": dict(level="model_checking", design="§5 C01",
     technique="explicit-state exhaustive enumeration of operation sequences on the real DB (fork-shared prefix DFS) vs BTreeMap model",
     text="Exhaustive enumeration of every operation sequence up to the stated depth over small alphabets (put/delete/batch/compact_range/flush/reopen with configuration changes, byte-string keys, big values) in small-scope configurations, executed on the real database under a controlled scheduler; after every operation every key is read back and compared with a BTreeMap model."),
  "C07": dict(level="model_checking", design="§5 C07",
     technique="exhaustive operation-sequence enumeration on the real DB with differential before/after dumps and model comparison",
     text="Every sequence up to the stated depth over put/delete/batch plus ranged and open-ended compact_range, flushes, snapshots and seek-triggered compaction; the full contents (latest and every live snapshot) dumped before each flush/compaction must equal the dump after it and after the background thread went idle; plus model comparison."),
  "C10": dict(level="model_checking", design="§5 C10",
     technique="exhaustive operation-sequence enumeration on the real DB; structural invariant evaluated in every state",
     text="In every state reached by every sequence up to the stated depth (incl. reopen with changed options) the structured layout is checked: sortedness/disjointness per level >= 1, bounds order, bounds == stored first/last entry, no duplicate numbers, descriptors agree with the structure."),
}

NOT_APPLICABLE = {
}

PENDING_REASON = "check under construction in this round of the build (explorer not yet wired); see DESIGN.md §5"

ALL = ["C%02d" % i for i in range(1, 18)]

checks = []
for pid in ALL:
    if pid not in CLAIMED:
        continue
    c = CLAIMED[pid]
    checks.append({
        "property_id": pid,
        "quick_cmd": "./check %s quick" % pid,
        "thorough_cmd": "./check %s thorough" % pid,
        "evidence_file": "/verif/evidence/%s.json" % pid,
        "replay_cmd_template": "./check --replay {path}",
        "engine": "rdbcheck",
        "level_claimed": {"category": c["level"], "text": c["text"], "design_ref": c["design"]},
        "level_note": c.get("note", SEQ_NOTE),
        "technique": c["technique"],
    })

na = []
for pid in ALL:
    if pid in CLAIMED:
        continue
    na.append({"property_id": pid, "reason": NOT_APPLICABLE.get(pid, PENDING_REASON)})

manifest = {
    "version": 1,
    "setup_cmd": "cd /verif/engine && CARGO_NET_OFFLINE=true cargo build --offline",
    "hooks": {
        "guard": "--cfg raindb_verif",
        "enable": "RUSTFLAGS in /verif/engine/.cargo/config.toml ([build] rustflags = [\"--cfg\",\"raindb_verif\"]); the checker workspace depends on /repo by path and patches parking_lot with /verif/engine/shims/parking_lot",
        "baseline_off_cmd": "cd /repo && cargo nextest run --workspace --no-fail-fast --test-threads 8 --offline || cargo test --workspace --no-fail-fast --offline -- --test-threads 1",
        "source_commits": [l.split()[0] for l in HOOK_COMMITS],
        "add_only": True,
    },
    "engines": [
        {"name": "rdbcheck", "path": "/verif/engine/rdbcheck",
         "serves_properties": sorted(CLAIMED.keys()),
         "kind_free_text": "stateless model checker for the real RainDB code: shuttle runtime + own preemption-bounded DFS scheduler (schedx), fork-shared exhaustive operation-sequence enumeration (seqx), crash/fault/corruption enumeration over a logging in-memory filesystem (crashx), exhaustive component input enumeration (compx)"},
    ],
    "checks": checks,
    "not_applicable": na,
    "notes": "exit 0 = held on everything explored; exit 1 + 'VIOLATION property=<id> replay=<path>' = violation; exit 2 = machinery failure (never a verdict). Known findings: /verif/known_findings.json (read-only at run time).",
}
json.dump(manifest, open("/verif/MANIFEST.json", "w"), indent=1)
print("claimed:", sorted(CLAIMED.keys()))
