#!/usr/bin/env python3
"""Generates /verif/MANIFEST.json. Edit CLAIMED / NOT_APPLICABLE here, then run."""
import json, subprocess

HOOK_COMMITS = subprocess.run(
    ["git", "-C", "/repo", "log", "--format=%h %s", "--grep=verif hook"],
    capture_output=True, text=True).stdout.strip().splitlines()

SEQ_NOTE = ("Trusted base: the shuttle runtime and the parking_lot shim (every lock/unlock/wait/notify of "
            "RainDB is a scheduling point of our scheduler), the in-memory VerifFs, the BTreeMap reference model. "
            "Assumes sequential consistency at scheduling points; bounds (alphabet, keys, configurations, depth) are "
            "stated in the evidence.")

SCHED_NOTE = ("Trusted base: the shuttle runtime, the parking_lot shim and our scheduler (interleavings only at synchronisation "
              "operations and named points, sequential consistency); the brute-force linearizability checker; bounds: programs, preemption and deviation bound as in the evidence.")
CRASH_NOTE = ("Trusted base: VerifFs' operation log and image reconstruction; process-crash model (a crash image is the effect of a prefix of the "
              "mutating filesystem operations; RainDB issues no sync); histories executed under the deterministic eager schedule.")
COMP_NOTE = ("Trusted base: the thin cfg(raindb_verif) wrappers over crate-private types, VerifFs, the harness' reference model of the physical log layout.")

CLAIMED = {
  "C01": dict(level="model_checking", design="§5 C01",
     technique="explicit-state exhaustive enumeration of operation sequences on the real DB (fork-shared prefix DFS) vs BTreeMap model",
     text="Exhaustive enumeration of every operation sequence up to the stated depth over small alphabets (put/delete/batch/compact_range/flush/reopen with configuration changes, byte-string keys, big values) in small-scope configurations, executed on the real database under a controlled scheduler; after every operation every key is read back and compared with a BTreeMap model. Families also start from populated LSMs (rich start, trivial-move state, overlapping / nested level-0 tables, boundary tables that split the versions of one key, levels 1..5 limited to 250 bytes through a cfg-guarded hook so that data cascades to level 6) and cover the corners of the input and option space: gap keys with a filter policy that lets every lookup through, keys of 0 / 127 / 128 / 4500 / 16384 / 40000 bytes, values on the varint boundaries, one key several times in a batch, empty batches, 128 repeated reads that exhaust a file's allowed seeks, WAL records ending 6 / 7 bytes before a block end, Bloom bits and filter policy changed across a reopen, a two-entry block cache, zero-valued size limits and a one-byte memtable budget. Further start states and corners: a tombstone and the older value of its key in two adjacent tables of a parent level above which a compaction grows its inputs (split-pair-parents), and the largest file and block sizes the option types admit."),
  "C07": dict(level="model_checking", design="§5 C07",
     technique="exhaustive operation-sequence enumeration on the real DB with differential before/after dumps and model comparison",
     text="Every sequence up to the stated depth over put/delete/batch plus ranged and open-ended compact_range, flushes, snapshots and seek-triggered compaction; the full contents (latest and every live snapshot) dumped before each flush/compaction must equal the dump after it and after the background thread went idle; plus model comparison. Schedule part: thread programs in which the main thread closes the database while an automatic or manual compaction is in its merge loop (all schedules within the bound); after the reopen every acknowledged write must be there. The split-pair-parents start state (see C01) is explored with ranged compactions."),
  "C10": dict(level="model_checking", design="§5 C10",
     technique="exhaustive operation-sequence enumeration on the real DB; structural invariant evaluated in every state",
     text="In every state reached by every sequence up to the stated depth (incl. reopen with changed options) the structured layout is checked: sortedness/disjointness per level >= 1, bounds order, bounds == stored first/last entry, no duplicate numbers, NumFilesAtLevel agrees with the structure and every line of the SSTables descriptor equals the line rendered from the structure (file number, size, smallest and largest internal key). A family with a 3000-byte value two levels down makes compaction outputs end at the grandparent-overlap limit while their builder is open."),
  "C02": dict(level="fault_enumeration", design="§5 C02", note=CRASH_NOTE,
     technique="exhaustive crash-point enumeration: every prefix of the filesystem-operation log of recorded histories (and of the recovery's own log), each recovered with the real DB::open and compared with the model of acknowledged operations",
     text="For every history of a generated family (all sequences up to a depth over put/delete/batch/multi-block batch/flush/compaction/reopen in four configurations) and three covering histories: every prefix of the totally ordered mutating filesystem operations is materialised as a crash image, recovered, checked against the acknowledged model (in-flight batch all or nothing), probed with new writes and reopened; nested crashes during recovery likewise. Schedule part (schedule x crash): for every schedule within the preemption/deviation bound of single-writer-vs-compaction programs a crash image is recovered after every removal, manifest write and rename; for multi-writer programs (group commit, queued writers, rotation) after every write to any file: per key the recovered value must stem from a started write that no acknowledged write definitely followed, batches all or nothing. Every crash image of the covering histories is also recovered with other options than it was written with (log reuse flipped, a 200-byte memtable budget, the history's other configurations). The covering histories include write-ahead logs whose first record ends 7 / 6 bytes before a block end."),
  "C03": dict(level="model_checking", design="§5 C03",
     technique="exhaustive operation-sequence enumeration with live snapshots/iterators vs frozen model copies + preemption-bounded exhaustive schedule exploration of reader-vs-compaction programs",
     text="Sequence part: every sequence up to the stated depth over writes, snapshots (<=2 live), a held iterator, flushes, compactions and seek-triggered compaction; after every operation every live snapshot's gets and forward/backward scans and the held iterator equal the model frozen at creation. Schedule part: all schedules within the preemption/deviation bound of snapshot/iterator readers against overwrite+flush+compaction+file deletion under strict-unlink. Hot-key families: 130 versions of one key above a live snapshot (the run crosses block and filter-range boundaries inside one user key)."),
  "C05": dict(level="model_checking", design="§5 C05", note=SCHED_NOTE,
     technique="stateless model checking of the real code: exhaustive preemption/deviation-bounded DFS over thread schedules (own scheduler on the shuttle runtime) with brute-force linearizability checking of each history",
     text="All schedules with at most the stated number of preemptions/deviations of 22 sharp (2-4 threads) and 132 generated 2-thread programs (get/put/delete/batch/snapshot read/iterator/compact_range over two keys, memtable rotation + flush + version install inside the run); every recorded call/return history must be linearizable against a map model. The memtable skip list is a verification copy of the dependency with scheduling points between its per-level links. Under an injected fault by file kind (once / sticky, optionally only one thread's calls) 20 writer programs are judged by linearizability with failed calls optional and by a reopen after the fault: every caller got its own outcome."),
  "C06": dict(level="model_checking", design="§5 C06", note=SCHED_NOTE,
     technique="exhaustive preemption/deviation-bounded schedule DFS on the real code; atomic-visibility oracle on snapshot reads and iterator scans",
     text="All schedules within the bound of writers applying multi-key batches (2-3 keys, rotating, group-commit-merged, delete+put, one key twice in a batch) against snapshot readers, plain gets and iterator scans (forwards and backwards on one iterator), with the named switch points inside apply_changes; every sequence-consistent observation sees all or none of each batch. Sequence part: from a state with a three-key batch, a live snapshot and 130 newer versions of the batch's middle key, every short sequence of further versions, batches, deletes, flushes and compactions; snapshot gets and scans keep showing the whole batch. Crash part: at every crash image of the covering and generated histories the recovered contents of the history's keys equal the model after some prefix of the history's operations (never part of a batch), right after the recovery, after each of three later writes to other keys and after a clean reopen."),
  "C09": dict(level="model_checking", design="§5 C09",
     technique="exhaustive operation-sequence enumeration over every public call + preemption-bounded schedule DFS; verdicts are the runtime's deadlock / step-bound / panic detectors",
     text="Every sequence up to the stated depth over an alphabet containing every public call (incl. all descriptors, iterators, snapshots, reopen) and flush-by-fill workloads, and all schedules within the bound of writer/writer/compaction/flush programs: every execution must run to completion without deadlock, livelock (step bound) or a panic of a client call or the background thread. The parking_lot shim's reader-writer lock follows parking_lot's task-fair policy (an announced writer blocks new readers; a repeated shared acquisition on one task is a scheduling point); two iterator-creation-vs-writer programs are explored with two preemptions in the quick tier. A thread program flushes a memtable into the key gap between the inputs of a running compaction (background-thread panic H20); fault programs with a rotating writer whose WAL append fails during a manual compaction."),
  "C11": dict(level="model_checking", design="§5 C11",
     technique="exhaustive operation-sequence enumeration with a directory-listing oracle after each reclamation opportunity + schedule DFS of readers vs deletion under strict unlink",
     text="At every node of every sequence up to the stated depth (snapshots, iterators, seek compactions, reopen) where nothing pins old versions, the three directories must hold exactly CURRENT, LOCK, the current manifest, needed WALs and the tables of the current layout; live tables must exist whenever a snapshot/iterator is held; no read concurrent with compaction + deletion touches a removed file. Schedule x crash: a crash image recovered at every file removal of every explored schedule holds the acknowledged writes. Schedule x fault: a reader whose own table reads fail races with flushes/compactions installing versions; afterwards (fault disarmed, all compacted, background idle) the directories again hold exactly the needed files; the same without a fault for readers whose answer is 'not found'. Crash part: every crash image of the covering histories is recovered and the directories must be exact as soon as the recovery's background work is idle, before any operation, and again after probe writes and a flush. Every crash image is also recovered with other options than it was written with (log reuse flipped, a 200-byte memtable budget). An operation closes the database while an iterator is alive and opens it again at once: the open is refused, or the new owner rewrites and compacts everything without taking anything from the old iterator."),
  "C12": dict(level="exploration", design="§5 C12", note=COMP_NOTE,
     technique="exhaustive enumeration of record-length sequences around the block arithmetic, writer re-open splits, truncation points and stop-between-fragments cases against the real LogWriter/LogReader",
     text="Bounded-exhaustive: all record-length triples placing the write position at every residue before a block end x second-record classes x re-open splits are written with the real writer and read back byte for byte; each file is truncated at every relevant byte; writer-died-between-fragments + append cases. A statement about all inputs of the enumerated families, not all inputs. Long logs: 3..9 blocks that each end in a 1..6-byte trailer followed by a record of 0 / 1 / 3 / 30 bytes."),
  "C16": dict(level="fault_enumeration", design="§5 C16", note=CRASH_NOTE,
     technique="exhaustive torn-write enumeration: every write of every recorded history cut at the enumerated lengths, recovered with the real DB::open, probed and reopened",
     text="For the C02 histories every prefix ending in a write with that write cut at every length (<= 64 B) or at the boundary lengths (larger): open succeeds, contents = acknowledged state (torn operation absent or complete), writes acknowledged after recovery survive the next clean reopen, for both reuse_log_files settings."),
  "C04": dict(level="model_checking", design="§5 C04",
     technique="exhaustive enumeration of layouts (operation sequences on the real DB) x exhaustive enumeration of cursor programs against a sorted-map cursor",
     text="At every state reached by every operation sequence up to the stated depth (T300/T1/M2, optionally with a live snapshot) a fresh iterator of every view runs every cursor program up to the stated length over seek(key or gap key)/seek_to_first/seek_to_last/next/prev; validity, key and value are compared with a cursor over the sorted model after every step; plus full forward/backward scans. Hot-key families: the start state holds 130 versions of the middle key (memtable and, under a live snapshot, tables); cursor programs of length 3 on top."),
  "C08": dict(level="fault_enumeration", design="§5 C08", note=CRASH_NOTE,
     technique="exhaustive single-fault enumeration: for every position of one failing filesystem call (once / sticky) in the call stream of recorded histories, re-execution on the real DB with a candidate-set oracle",
     text="For three covering histories and all generated histories up to a depth: the uninjected run numbers the filesystem calls (create, write/append, rename, remove, open, size); for every index and both modes the history is re-executed with that call failing; API results must be Ok/Err (no panic, no hang), reads (gets, a long-lived iterator whose failed seek is retried once, full forward and backward scans) must be explained by a candidate state (Ok writes applied; a scan without an error is complete), and after disarming + reopen the contents must be a candidate; runs in which only the read side fails (open / read) over compactions whose inputs come from a cold table cache; the log writer and the table builder under a failing file. Schedule part (schedule x fault): all schedules within the bound of 20 writer/reader thread programs with a fault by file kind (once / sticky / only one thread's calls); judged by linearizability with failed calls optional and by per-key durability after a fault-free reopen. A failing write is also tried leaving half, all but one byte, or exactly one log-record header of its buffer in the file (sequential enumeration over the covering histories; schedule x fault programs with a half-written manifest record while a compaction is in flight). In the schedule x fault programs the table files created after the single injected failure of a manifest write are counted (the background thread must not go on producing files in the error state); three programs let a rotating writer's WAL append fail while a manual compaction is in flight."),
  "C13": dict(level="exploration", design="§5 C13", note=COMP_NOTE,
     technique="exhaustive enumeration of sorted entry sets x block sizes against the real TableBuilder/Table, vector-model oracle for iteration, seek, get and cursor programs",
     text="Bounded-exhaustive: every subset of up to 3 (thorough 4) of 8 boundary user keys x 5 version patterns per key x 5 block sizes; forward/backward iteration, every (key, sequence) probe for seek and get (Value/Deleted/NotInFile), and every short cursor program agree with the vector model; plus long runs of 15..100 shared-prefix keys (several restart points per block) and keys / values whose lengths sit on the varint boundaries (127/128, 16383/16384, 70000). Plus the filter-layout tables of C14 (3000-byte values, 1-byte blocks, a sweep of the first block's length over a 2 KiB window so that the following blocks start at every residue of the filter ranges), read through the Bloom filter."),
  "C14": dict(level="exploration", design="§5 C14", note=COMP_NOTE,
     technique="exhaustive enumeration of key multisets x bits_per_key 1..64 against the public BloomFilterPolicy, and of table layouts against the table's filter block",
     text="Bounded-exhaustive: all multisets of size 0..2 (thorough 3) over 40 short byte strings plus generated sets up to 5000 keys, for every bits_per_key 1..=64, 100, 1000 (also read by a policy built with another bits_per_key): every member may-match; for every enumerated table layout every user key of every data block may-match the filter consulted with that block's offset and every stored (key, seq) is found by get."),
  "C15": dict(level="fault_enumeration", design="§5 C15", note=CRASH_NOTE,
     technique="exhaustive single-byte corruption enumeration over every offset of every file of small database images, each opened and read completely with the real DB; error-or-correct oracle",
     text="Fifteen small images (tables on three levels, WAL only, after a multi-output compaction, multi-block WAL record, fresh-manifest snapshot, six levels with many manifest edits, one-entry tables with a permissive filter, 4500-byte keys with a fragmented manifest record, tombstones + rotation, six images whose damaged block is the last entry a compaction merges): every offset of every file x {each bit flipped, 0x00, 0xff, +1} and table truncations; open, all gets, forward and backward scans, direction-changing cursor programs, and - for a damaged table - the gets again after a compaction of everything must each be an error or correct (WAL: damaged records may be skipped). One image's value carries the byte image of a complete log record at the offset where a reader that trusts a damaged length field would resume. A positioning call (seek, seek_to_first, seek_to_last) that returns Ok and leaves a valid iterator is judged at once - it must stand on the right entry - without consulting take_error."),
  "C17": dict(level="model_checking", design="§5 C17", note=SCHED_NOTE,
     technique="exhaustive preemption/deviation-bounded schedule DFS of open/close/destroy programs on the real TmpFileSystem (flock), every filesystem call a switch point",
     text="All schedules within the bound of 26 programs of 2-3 threads (open+hold, open+put+close, open with error_if_exists / without create_if_missing, destroy_database, a WAL write failing at close) from initial states absent/closed/open: never two live handles; while open elsewhere every open and destroy fails and the owner is undisturbed (it can still flush and write); exactly one of racing holders succeeds; attempts that fail do not keep the lock; every handle still open at the end is a working database. Three programs start from states in which a background compaction is due (three level-0 tables + a WAL; two overlapping level-0 tables and an owner that does 100 gets): the compaction thread is parked by gates in the harness filesystem until the owner closes, a second actor keeps trying to open; after a successful open no thread that existed before that open began may create, rename or remove a file (C17.previous_owner_still_writing), and no earlier instance may have work pending (C17.open_during_close). A scheduling point inside lock_file (between opening and locking the LOCK file, cfg-guarded hook) exposes opens that race with destroy_database's unlink; the background thread of a failed open must end without a panic."),
}

NOT_APPLICABLE = {
}

PENDING_REASON = "check under construction in this round of the build (explorer not yet wired); see DESIGN.md §5"

ALL = ["C%02d" % i for i in range(1, 18)]

checks = []
for pid in ALL:
    if pid not in CLAIMED:
        continue
    c = CLAIMED[pid]
    checks.append({
        "property_id": pid,
        "quick_cmd": "./check %s quick" % pid,
        "thorough_cmd": "./check %s thorough" % pid,
        "evidence_file": "/verif/evidence/%s.json" % pid,
        "replay_cmd_template": "./check --replay {path}",
        "engine": "rdbcheck",
        "level_claimed": {"category": c["level"], "text": c["text"], "design_ref": c["design"]},
        "level_note": c.get("note", SEQ_NOTE),
        "technique": c["technique"],
    })

na = []
for pid in ALL:
    if pid in CLAIMED:
        continue
    na.append({"property_id": pid, "reason": NOT_APPLICABLE.get(pid, PENDING_REASON)})

manifest = {
    "version": 1,
    "setup_cmd": "cd /verif/engine && CARGO_NET_OFFLINE=true cargo build --offline",
    "hooks": {
        "guard": "--cfg raindb_verif",
        "enable": "RUSTFLAGS in /verif/engine/.cargo/config.toml ([build] rustflags = [\"--cfg\",\"raindb_verif\"]); the checker workspace depends on /repo by path and patches parking_lot with /verif/engine/shims/parking_lot",
        "baseline_off_cmd": "cd /repo && cargo nextest run --workspace --no-fail-fast --test-threads 8 --offline || cargo test --workspace --no-fail-fast --offline -- --test-threads 1",
        "source_commits": [l.split()[0] for l in HOOK_COMMITS],
        "add_only": True,
    },
    "engines": [
        {"name": "rdbcheck", "path": "/verif/engine/rdbcheck",
         "serves_properties": sorted(CLAIMED.keys()),
         "kind_free_text": "stateless model checker for the real RainDB code: shuttle runtime + own preemption-bounded DFS scheduler (schedx), fork-shared exhaustive operation-sequence enumeration (seqx), crash/fault/corruption enumeration over a logging in-memory filesystem (crashx), exhaustive component input enumeration (compx)"},
    ],
    "checks": checks,
    "not_applicable": na,
    "notes": "exit 0 = held on everything explored; exit 1 + 'VIOLATION property=<id> replay=<path>' = violation (a worker ended by the progress watchdog - the subject does not terminate - is a violation too); exit 2 = machinery failure without any validated violation (never a verdict). Known findings: /verif/known_findings.json (read-only at run time).",
}
json.dump(manifest, open("/verif/MANIFEST.json", "w"), indent=1)
print("claimed:", sorted(CLAIMED.keys()))
